#!/usr/bin/env python3
"""fill_design.py: (re)write the generated parts of DESIGN.md section 8 — the check x seeded-change table and the list of
changes no check reports — from seeded/MATRIX.json, seeded/*/meta.json and seeded/EXPECT.json.
The generated blocks live between <!-- MATRIX:BEGIN --> / <!-- MATRIX:END --> and <!-- MISSED:BEGIN --> / <!-- MISSED:END -->."""
import json
import os
import re

VERIF = "/verif"
SD = VERIF + "/seeded"
M = json.load(open(SD + "/MATRIX.json"))
rows = []
missed = []
n_conf = 0
for mid in sorted(M, key=lambda x: (x.split("-")[0], int(x.split("-")[1]))):
    mp = SD + "/%s/meta.json" % mid
    meta = json.load(open(mp)) if os.path.exists(mp) else {}
    row = {c: r for c, r in M[mid].items() if not c.startswith("_")}
    summ = (meta.get("what_was_changed") or "").replace("|", "/").replace("\n", " ")
    summ = re.sub(r"\s+", " ", summ)
    short = summ[:150] + ("…" if len(summ) > 150 else "")
    conf = "yes" if meta.get("confirmed_by_me") else "?"
    n_conf += conf == "yes"
    own = mid.split("-")[0]
    rep = "; ".join("%s: %s" % (c, ", ".join(sorted({x.split(".", 1)[-1] for x in rs}))) for c, rs in sorted(row.items()))
    rows.append("| %s | %s | %s | %s |" % (mid, short, conf, rep if rep else "**none**"))
    if not row:
        missed.append((mid, summ, meta.get("needs_in_order_to_manifest") or ""))
total = len(M)
caught = total - len(missed)
own_caught = sum(1 for mid in M if mid.split("-")[0] in M[mid])
matrix = ["%d seeded changes (all confirmed: %d), %d reported by at least one check, %d by the check of the property they were "
          "written against, %d by none. Columns: what was changed (abridged from the author's account), confirmed by me, "
          "checks and rules that report it." % (total, n_conf, caught, own_caught, len(missed)), "",
          "| change | what was changed | confirmed | reported by (check: rules) |", "|---|---|---|---|"] + rows
WHY = {
    "C02-5": "the padding mask of `BitIter::close` is shift/mask arithmetic on a runtime bit count (C13, not applicable)",
    "C03-3": "the SHA-256 message padding of `compact_value` is length arithmetic (`> 56` vs `>= 56`); C03 states it does not decide it",
    "C08-1": "an unsound *equal-width* fast path in `Value::prune`: whether two types of equal width are interchangeable is a semantic fact about types, not a shape (C10 does not decide pruning's results)",
    "C15-1": "annex detection is a predicate on runtime byte strings (`len > 1`); C15 does not decide it",
    "C10-4": "a wrong byte index in `right_shift_1` (`bit_offset / 8` instead of `new_bit_offset / 8`): bit-level arithmetic, which C10 states it does not decide",
    "C15-4": "`genesis_hash` read from the sibling field `referenced_block` of `elements::PeginData`: the field list of a foreign-crate type is not among the extracted facts, so there is no sibling to compare names with",
    "C15-5": "`nonce_array` treats an explicit nonce as absent: a predicate on a runtime value (`is_confidential` vs `!is_null`)",
    "C16-7": "threshold satisfaction uses `any` instead of `all`: the and/or/threshold satisfaction logic is runtime behaviour that C16 states it does not decide",
    "C12-11": "the human-readable witness map substitutes `Value::zero(commit-time target)` for a missing witness; the ill-typed value then passes through `finalize_unpruned`, whose missing type test is the known finding F-WIT (C12.check reports that route already); the Populator produces values for Construct nodes, outside the Redeem converters C12 judges",
    "C15-8": "the issuance-presence test looks at `amount` only instead of `has_issuance()` (amount or inflation keys): a predicate on runtime values of a foreign-crate type",
    "C17-10": "the exponent of `2^n` is parsed as `u16`, so `2^65536` and above are rejected: a numeric range of a parse, not a shape",
    "C05-13": "`Frame::write_u8` selects bits least-significant first: bit-index arithmetic of the frame primitives (C13-like; C05 decides the interpreter's shape)",
    "C16-12": "`normalized()` folds `and(x, TRIVIAL)` to `TRIVIAL`: which child a simplification keeps is the meaning of the simplification, not a shape C16 decides (it decides roots, fragments, sorting)",
    "C16-13": "`or` picks the more expensive satisfiable branch: a comparison between two runtime costs; the returned program is still valid and has the right root",
    "C17-12": "the type printer omits parentheses inside same-operator chains, so `A * (B * C)` re-parses as `(A * B) * C`: a condition on when to print a parenthesis, decided by runtime tree shape; C17.types decides that every token is accepted, not precedence",
    "C16-9": "the threshold's selector bits use `binary_search` on a vector ordered by cost, not by index: whether a vector is sorted by the searched key is a runtime fact about its contents",
    "C05-8": "a byte-wise fast path in `Frame::copy_from` that forgets the source cursor's alignment: bit-offset arithmetic of the frame (C13, not applicable); C05 decides the interpreter's shape, not the frame primitives",
    "C12-9": "the loop that retries generated names skips every witness node instead of only typed holes, so an inline witness keeps a name the user defined: a condition on which node kinds take part in name retry; C17.names decides that generated names cannot clash lexically, not this retry policy",
    "C17-9": "`bit_length & (bit_length - 1)` underflows for the empty literal and panics: an arithmetic-overflow panic on a runtime length; no rule bounds every subtraction in the parser",
    "C15-3": "`branch_len` computed by dividing by 33 instead of 32: arithmetic on a runtime length; no same-typed sibling to compare its source with",
}
ml = []
for mid, summ, needs in missed:
    ml.append("* **%s** — %s  \n  *why no rule:* %s." % (mid, summ[:260], WHY.get(mid, "value-level behaviour outside the decided clauses")))
s = open(VERIF + "/DESIGN.md").read()


def put(tag, lines):
    global s
    block = "<!-- %s:BEGIN -->\n%s\n<!-- %s:END -->" % (tag, "\n".join(lines), tag)
    if "<!-- %s:BEGIN -->" % tag in s:
        s = re.sub(r"<!-- %s:BEGIN -->.*?<!-- %s:END -->" % (tag, tag), lambda m: block, s, flags=re.S)
    else:
        s = s.replace("@@%s@@" % tag, block)


put("MATRIX", matrix)
put("MISSED", ml or ["(none)"])
open(VERIF + "/DESIGN.md", "w").write(s)
print("DESIGN.md: %d changes, %d reported, %d missed" % (total, caught, len(missed)))
