#!/usr/bin/env python3
"""make_meta.py: write seeded/<id>/meta.json for every seeded change from the author's agent_meta.json, my own
verification (verify.json, written by tools/verify_mutants.sh) and the check x change matrix (MATRIX.json).
Also prints the markdown table used in DESIGN.md section 8."""
import json
import os

VERIF = "/verif"
SD = VERIF + "/seeded"
M = json.load(open(SD + "/MATRIX.json")) if os.path.exists(SD + "/MATRIX.json") else {}
rows = []
for mid in sorted(d for d in os.listdir(SD) if os.path.isdir(SD + "/" + d)):
    d = SD + "/" + mid
    if not os.path.exists(d + "/patch.diff"):
        continue
    am = json.load(open(d + "/agent_meta.json")) if os.path.exists(d + "/agent_meta.json") else {}
    vf = json.load(open(d + "/verify.json")) if os.path.exists(d + "/verify.json") else None
    row = M.get(mid)
    reported = {c: r for c, r in (row or {}).items() if not c.startswith("_")}
    confirmed = bool(vf and vf["demo_on_clean_tree_rc"] == 0 and vf["patch_applies_rc"] == 0 and vf["demo_with_patch_rc"] != 0
                     and vf["suite_with_patch_rc"] == 0)
    meta = {
        "id": mid,
        "breaks_property": am.get("property", mid.split("-")[0]),
        "what_was_changed": am.get("summary"),
        "needs_in_order_to_manifest": am.get("needs"),
        "cargo_features_for_demo": am.get("features") or "",
        "files": {"patch": "patch.diff", "demonstration": "demo.rs (an integration test: tests/<name>.rs of the root crate)"},
        "author": "fresh sub-agent given only the property text and its own scratch worktree of /repo",
        "author_ran": am.get("ran"),
        "confirmed_by_me": confirmed,
        "what_i_ran": None if vf is None else {
            "where": "one scratch git worktree of /repo at %s under /tmp (removed afterwards)" % vf["repo_head"][:7],
            "commands": [
                "cp demo.rs tests/mv_demo.rs && cargo test --offline %s--test mv_demo   -> exit %d (clean tree: must pass)" % (("--features %s " % vf["features"]) if vf["features"] else "", vf["demo_on_clean_tree_rc"]),
                "git apply patch.diff                                                  -> exit %d" % vf["patch_applies_rc"],
                "cargo test --offline %s--test mv_demo                                  -> exit %d (with the change: must fail)" % (("--features %s " % vf["features"]) if vf["features"] else "", vf["demo_with_patch_rc"]),
                "rm tests/mv_demo.rs && cargo test --workspace --no-fail-fast --offline -> exit %d, %s tests passed (existing suite must pass)" % (vf["suite_with_patch_rc"], vf["suite_tests_passed"]),
            ],
            "demo_failure": vf.get("demo_failure"),
        },
        "reported_by_checks": reported if row is not None else "matrix not computed",
    }
    with open(d + "/meta.json", "w") as f:
        json.dump(meta, f, indent=1)
    rows.append((mid, meta["breaks_property"], (am.get("summary") or "")[:110].replace("|", "/").replace("\n", " "), confirmed, reported, row is not None))
print("| change | breaks | what (abridged) | confirmed | reported by |")
print("|--------|--------|-----------------|-----------|-------------|")
for mid, prop, summ, conf, rep, have in rows:
    r = ", ".join("%s (%s)" % (c, ", ".join(x.split(".", 1)[-1] for x in rules)) for c, rules in sorted(rep.items())) if rep else ("**none**" if have else "?")
    print("| %s | %s | %s | %s | %s |" % (mid, prop, summ, "yes" if conf else "NO", r))
