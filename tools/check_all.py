#!/usr/bin/env python3
"""check_all.py [ids...]: run the rule modules of all (or the given) registered checks in ONE process, facts loaded once.
Prints the self-test lines of core.Report (VERIF_SELFTEST=1 is forced; SIMP_REPO may point at a scratch copy).
Development tool (used by tools/matrix.py); not a registered command."""
import importlib
import json
import os
import sys
import traceback

HERE = os.path.dirname(os.path.dirname(os.path.abspath(__file__)))
sys.path.insert(0, os.path.join(HERE, "engine"))
sys.path.insert(0, os.path.join(HERE, "engine", "rules"))
os.environ["VERIF_SELFTEST"] = "1"
import extract  # noqa: E402
from core import Report  # noqa: E402
from facts import Facts, AnchorMissing  # noqa: E402


class Ctx:
    def __init__(self):
        self._f = {}
        self.tier = "quick"

    def facts(self, config="full"):
        if config not in self._f:
            self._f[config] = Facts(extract.ensure_facts(config))
        return self._f[config]


ids = sys.argv[1:] or [c["property_id"] for c in json.load(open(HERE + "/MANIFEST.json"))["checks"]]
ctx = Ctx()
for pid in ids:
    print("### %s" % pid, flush=True)
    try:
        mod = importlib.import_module(pid.lower())
        rep = Report(pid, "quick")
        try:
            fin = mod.run(ctx, rep)
        except AnchorMissing as e:
            rep.anchor("ANCHOR", "%s %s" % (e.kind, e.what))
            fin = getattr(mod, "FINISH", {})
        rep.finish(**(fin or {}))
    except SystemExit as e:
        print("CHECKER-ERROR %s: %s" % (pid, e))
    except Exception:
        traceback.print_exc()
        print("CHECKER-ERROR %s" % pid)
    sys.stdout.flush()
