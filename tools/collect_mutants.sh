#!/bin/sh
# collect_mutants.sh <Cxx>: copy a sub-agent's deliverables into /verif/seeded/<id>-<n>/ and remove its worktree
set -e
id=$1
wt=/tmp/wt/$id
for d in $wt/_mutants/*/; do
  n=$(basename $d)
  dst=/verif/seeded/$id-$n
  mkdir -p $dst
  cp $d/patch.diff $dst/patch.diff
  cp $d/demo.rs $dst/demo.rs
  cp $d/meta.json $dst/agent_meta.json 2>/dev/null || true
done
git -C /repo worktree remove --force $wt
echo collected $id: $(ls -d /verif/seeded/$id-* | wc -l)
