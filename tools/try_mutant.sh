#!/bin/sh
# try_mutant.sh <seeded dir name> <check ids...>: apply the seeded patch to /repo, run the checks, undo it.
sd=/verif/seeded/$1; shift
git -C /repo diff --quiet || { echo "/repo not clean"; exit 2; }
git -C /repo apply $sd/patch.diff || { echo "patch does not apply"; exit 2; }
for c in "$@"; do
  (cd /verif && ./check $c 2>&1 | grep -E "^==|VIOLATION|^   (src|simplicity-sys)|— " | head -12)
done
git -C /repo checkout -- .
git -C /repo status --short | head -3
