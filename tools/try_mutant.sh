#!/bin/sh
# try_mutant.sh <seeded dir name> <check ids...>: apply the seeded patch to /repo, run the checks (without touching the
# evidence files), undo it straight afterwards.
sd=/verif/seeded/$1; shift
git -C /repo diff --quiet || { echo "/repo not clean"; exit 2; }
git -C /repo apply $sd/patch.diff || { echo "patch does not apply"; exit 2; }
for c in "$@"; do
  (cd /verif && VERIF_SELFTEST=1 ./check $c 2>&1 | grep -E "^== selftest|SELFTEST-VIOLATION" | cut -c1-400 | head -8)
done
git -C /repo checkout -- .
git -C /repo status --short | head -3
