#!/bin/sh
# try_scratch.sh <seeded dir name> <check ids...>: like try_mutant.sh but on a scratch copy of /repo's HEAD (plus Cargo.lock),
# so that /repo itself is never touched (safe while a thorough-tier run is copying /repo's working tree).
sd=/verif/seeded/$1; shift
S=$(mktemp -d /tmp/simp-try-XXXXXX)
git -C /repo archive HEAD | tar -x -C $S && cp /repo/Cargo.lock $S/ 2>/dev/null
(cd $S && git apply --whitespace=nowarn $sd/patch.diff) || { echo "patch does not apply"; rm -rf $S; exit 2; }
(cd /verif && SIMP_REPO=$S python3 tools/check_all.py "$@" 2>&1 | grep -E "^###|== selftest|SELFTEST-VIOLATION|CHECKER-ERROR" | cut -c1-400)
rm -rf $S
