#!/bin/bash
# collect_r12.sh <worktree name under /tmp/agents> <PID>: copy a sub-agent's deliverables into /verif/seeded/<PID>-<n>/ (next free n)
# and remove its worktree together with its build output
wt=/tmp/agents/$1; pid=$2
for d in $wt/_mutants/*/; do
  [ -f $d/patch.diff ] || continue
  n=1; while [ -d /verif/seeded/$pid-$n ]; do n=$((n+1)); done
  dst=/verif/seeded/$pid-$n; mkdir -p $dst
  cp $d/patch.diff $dst/patch.diff; cp $d/demo.rs $dst/demo.rs
  cp $d/agent_meta.json $dst/agent_meta.json 2>/dev/null || echo '{}' > $dst/agent_meta.json
  echo "collected $dst"
done
git -C /repo worktree remove --force $wt
