#!/usr/bin/env python3
"""matrix.py [--todo] [mutant ids...]: which checks report which seeded change.
Each change is applied to a scratch copy of /repo's HEAD (removed afterwards); all registered checks run on the
copy in one process in self-test mode (no evidence written). Result: seeded/MATRIX.json {mutant: {check: [rules that fired]}}.
--todo: only the changes that have no row yet.  --checks=C15,C10: run only these checks and merge into existing rows.  Development tool; not a registered command."""
import json
import os
import shutil
import subprocess
import sys
import tempfile

VERIF = "/verif"
checks = [c["property_id"] for c in json.load(open(VERIF + "/MANIFEST.json"))["checks"]]
only = [a.split("=", 1)[1].split(",") for a in sys.argv[1:] if a.startswith("--checks=")]
merge = bool(only)
if only:
    checks = only[0]
ids = [a for a in sys.argv[1:] if not a.startswith("--")] or sorted(
    d for d in os.listdir(VERIF + "/seeded") if os.path.exists(VERIF + "/seeded/%s/patch.diff" % d))
mp = VERIF + "/seeded/MATRIX.json"
M = json.load(open(mp)) if os.path.exists(mp) else {}
if "--todo" in sys.argv:
    ids = [i for i in ids if i not in M]
for mid in ids:
    scratch = tempfile.mkdtemp(prefix="simp-matrix-")
    try:
        # from /repo's HEAD, not its working tree: a seeded change being tried in /repo at this moment must not leak in
        subprocess.run("git -C /repo archive HEAD | tar -x -C %s" % scratch, shell=True, check=True)
        if os.path.exists("/repo/Cargo.lock"):
            shutil.copy("/repo/Cargo.lock", scratch + "/Cargo.lock")     # untracked in /repo: same dependency versions
        a = subprocess.run(["git", "apply", "--whitespace=nowarn", VERIF + "/seeded/%s/patch.diff" % mid], cwd=scratch)
        if a.returncode != 0:
            M[mid] = {"_status": "patch does not apply"}
            continue
        row = {}
        env = dict(os.environ, SIMP_REPO=scratch, VERIF_SELFTEST="1")
        r = subprocess.run(["python3", VERIF + "/tools/check_all.py"] + checks, env=env, cwd=VERIF,
                           stdout=subprocess.PIPE, stderr=subprocess.STDOUT, text=True)
        cur = None
        for line in r.stdout.splitlines():
            if line.startswith("### "):
                cur = line[4:].strip()
            elif line.startswith("SELFTEST-VIOLATION ") and cur:
                rule = line.split()[1]
                row.setdefault(cur, [])
                if rule not in row[cur]:
                    row[cur].append(rule)
            elif line.startswith("CHECKER-ERROR") and cur:
                row.setdefault(cur, []).append("<checker error>")
        if "extract:" in r.stdout and "failed" in r.stdout:
            row["_status"] = "the changed tree does not compile under the analysis configuration"
        if merge and isinstance(M.get(mid), dict):
            old = {k: v for k, v in M[mid].items() if k not in checks}
            old.update(row)
            row = old
        M[mid] = row
        print(mid, row, flush=True)
    finally:
        shutil.rmtree(scratch, ignore_errors=True)
    json.dump(M, open(mp, "w"), indent=1, sort_keys=True)
