#!/usr/bin/env python3
"""matrix.py [mutant ids...]: which checks report which seeded change.
Each change is applied to a scratch copy of /repo's working tree (removed afterwards); every registered check runs on the
copy in self-test mode (no evidence written). Result: seeded/MATRIX.json  {mutant: {check: [rules that fired]}}"""
import json, os, re, shutil, subprocess, sys, tempfile
VERIF = "/verif"
checks = [c["property_id"] for c in json.load(open(VERIF + "/MANIFEST.json"))["checks"]]
ids = sys.argv[1:] or sorted(d for d in os.listdir(VERIF + "/seeded") if os.path.exists(VERIF + "/seeded/%s/patch.diff" % d))
mp = VERIF + "/seeded/MATRIX.json"
M = json.load(open(mp)) if os.path.exists(mp) else {}
for mid in ids:
    scratch = tempfile.mkdtemp(prefix="simp-matrix-")
    try:
        subprocess.run(["rsync", "-a", "--exclude", "/target", "--exclude", "/.git", "/repo/", scratch + "/"], check=True)
        a = subprocess.run(["git", "apply", "--whitespace=nowarn", VERIF + "/seeded/%s/patch.diff" % mid], cwd=scratch)
        if a.returncode != 0:
            M[mid] = {"_status": "patch does not apply"}
            continue
        row = {}
        for c in checks:
            env = dict(os.environ, SIMP_REPO=scratch, VERIF_SELFTEST="1")
            r = subprocess.run([VERIF + "/check", c], env=env, cwd=VERIF, stdout=subprocess.PIPE, stderr=subprocess.STDOUT, text=True)
            hits = sorted({h for h in re.findall(r"SELFTEST-VIOLATION (\S+) ", r.stdout)})
            if "internal error" in r.stdout or "Traceback" in r.stdout:
                row[c] = ["<checker error>"]
            elif hits:
                row[c] = hits
        M[mid] = row
        print(mid, row, flush=True)
    finally:
        shutil.rmtree(scratch, ignore_errors=True)
    json.dump(M, open(mp, "w"), indent=1, sort_keys=True)
