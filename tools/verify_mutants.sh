#!/bin/bash
# verify_mutants.sh [ids...]: confirm each seeded change in ONE scratch worktree of /repo (outside /repo and /verif):
#   1. the demonstration passes on the clean tree      2. the patch applies to /repo's HEAD
#   3. the demonstration fails with the patch          4. the existing suite passes with the patch (demo removed)
# Writes seeded/<id>/verify.json; the worktree and its build output are removed at the end.
set -u
VERIF=/verif
LANE=${LANE:-mv}
WT=/tmp/$LANE/wt
export CARGO_TARGET_DIR=/tmp/$LANE/target
export CARGO_NET_OFFLINE=true
mkdir -p /tmp/$LANE
HEAD=$(git -C /repo rev-parse HEAD)
if [ ! -d $WT ]; then git -C /repo worktree add --detach $WT $HEAD >/dev/null 2>&1 || exit 2; fi
ids="$@"
[ -z "$ids" ] && ids=$(ls $VERIF/seeded)
for id in $ids; do
  sd=$VERIF/seeded/$id
  [ -f $sd/patch.diff ] || continue
  git -C $WT checkout -q --detach $HEAD; git -C $WT checkout -- . ; git -C $WT clean -fdq
  feats=$(python3 -c "import json;d=json.load(open('$sd/agent_meta.json'));f=d.get('features') or '';print('human_encoding' if 'human_encoding' in f else ('test-utils' if 'test-utils' in f else ''))")
  fa=""; [ -n "$feats" ] && fa="--features $feats"
  log=$sd/verify.log; : > $log
  mkdir -p $WT/tests; cp $sd/demo.rs $WT/tests/mv_demo.rs
  [ -f $sd/harness.rs ] && cp $sd/harness.rs $WT/tests/mv_harness.rs
  (cd $WT && timeout 1500 cargo test --offline $fa --test mv_demo >>$log 2>&1); rc_clean=$?
  echo "=== rc_clean=$rc_clean" >>$log
  (cd $WT && git apply $sd/patch.diff >>$log 2>&1); rc_apply=$?
  echo "=== rc_apply=$rc_apply" >>$log
  rc_patched=-1; rc_suite=-1
  if [ $rc_apply -eq 0 ]; then
    (cd $WT && timeout 1500 cargo test --offline $fa --test mv_demo >>$log 2>&1); rc_patched=$?
    echo "=== rc_patched=$rc_patched" >>$log
    rm -f $WT/tests/mv_demo.rs $WT/tests/mv_harness.rs
    (cd $WT && timeout 3000 cargo test --workspace --no-fail-fast --offline >$sd/verify_suite.log 2>&1); rc_suite=$?
    npass=$(grep -E "^test result: ok" $sd/verify_suite.log | sed -E 's/.* ([0-9]+) passed.*/\1/' | paste -sd+ | bc)
    echo "=== rc_suite=$rc_suite passed=$npass" >>$log
    tail -5 $sd/verify_suite.log >>$log; rm -f $sd/verify_suite.log
  fi
  fails=$(grep -E "^test .* FAILED|panicked at" $log | head -4 | tr '\n' ';' | tr '"' "'" | cut -c1-600)
  cat > $sd/verify.json <<EOF
{"id": "$id", "repo_head": "$HEAD", "features": "$feats", "demo_on_clean_tree_rc": $rc_clean, "patch_applies_rc": $rc_apply,
 "demo_with_patch_rc": $rc_patched, "suite_with_patch_rc": $rc_suite, "suite_tests_passed": "${npass:-}", "demo_failure": "$fails"}
EOF
  echo "$id clean=$rc_clean apply=$rc_apply patched=$rc_patched suite=$rc_suite passed=${npass:-}"
done
git -C /repo worktree remove --force $WT
rm -rf /tmp/$LANE
