#!/usr/bin/env python3
"""Fact extraction: run the simp-facts driver over /repo's current working tree.

Facts are cached per content hash of the analysed sources, so every check analyses the tree as it
is now and checks share one extraction.  Nothing here executes the library.
"""
import fcntl
import glob
import hashlib
import os
import shutil
import subprocess
import sys
import time

VERIF = os.path.dirname(os.path.dirname(os.path.abspath(__file__)))
REPO = os.environ.get("SIMP_REPO", "/repo")
CACHE = os.path.join(VERIF, ".cache")
DRIVER_DIR = os.path.join(VERIF, "engine", "driver")
DRIVER = os.path.join(DRIVER_DIR, "target", "release", "simp-facts")

MEMBERS = ["simplicity-lang", "simplicity-sys", "simpcli"]
CONFIGS = {
    # name: (cargo args, expected crate fact files)
    "full": (
        ["-p", "simplicity-lang", "-p", "simplicity-sys", "-p", "simpcli", "--features",
         "simplicity-lang/elements,simplicity-lang/human_encoding,simplicity-lang/base64,"
         "simplicity-lang/serde,simplicity-lang/test-utils,simplicity-sys/test-utils"],
        ["simplicity", "simplicity_sys", "simpcli"],
    ),
    "nodefault": (
        ["-p", "simplicity-lang", "--no-default-features"],
        ["simplicity", "simplicity_sys"],
    ),
}

SRC_EXT = (".rs", ".c", ".h", ".inc", ".toml", ".lock", ".txt")


def sysroot():
    return subprocess.check_output(["rustc", "+nightly", "--print", "sysroot"], text=True).strip()


def tree_hash():
    """Hash of every tracked or untracked-unignored source file in /repo's working tree."""
    if os.path.exists(os.path.join(REPO, ".git")):
        out = subprocess.check_output(
            ["git", "-C", REPO, "ls-files", "-z", "--cached", "--others", "--exclude-standard"])
    else:
        # scratch copy made by the thorough tier's self-test (no .git): every file below it
        names = []
        for root, dirs, files in os.walk(REPO):
            dirs[:] = sorted(d for d in dirs if d not in ("target", ".git"))
            for fn in files:
                names.append(os.path.relpath(os.path.join(root, fn), REPO).encode())
        out = b"\0".join(names)
    h = hashlib.sha256()
    n = 0
    for rel in sorted(set(out.split(b"\0"))):
        if not rel:
            continue
        rels = rel.decode("utf-8", "replace")
        if not rels.endswith(SRC_EXT):
            continue
        if rels.startswith(("fuzz/", "jets-bench/", "target/")):
            continue
        p = os.path.join(REPO, rels)
        if not os.path.isfile(p):
            continue
        h.update(rel + b"\0")
        with open(p, "rb") as f:
            h.update(hashlib.sha256(f.read()).digest())
        n += 1
    # the driver itself is part of the key
    for p in sorted(glob.glob(os.path.join(DRIVER_DIR, "src", "*.rs"))):
        with open(p, "rb") as f:
            h.update(hashlib.sha256(f.read()).digest())
    return h.hexdigest()[:20], n


def build_driver():
    src_m = max(os.path.getmtime(p) for p in glob.glob(os.path.join(DRIVER_DIR, "src", "*.rs")))
    if os.path.exists(DRIVER) and os.path.getmtime(DRIVER) >= src_m:
        return
    env = dict(os.environ, CARGO_NET_OFFLINE="true")
    r = subprocess.run(["cargo", "+nightly", "build", "--release", "--offline"], cwd=DRIVER_DIR, env=env,
                       stdout=subprocess.PIPE, stderr=subprocess.STDOUT, text=True)
    if r.returncode != 0:
        sys.stderr.write(r.stdout)
        raise SystemExit("extract: driver build failed")


def _drop_member_fingerprints(target):
    # cargo's freshness cache would skip the wrapper for unchanged members: force their re-check
    fp = os.path.join(target, "debug", ".fingerprint")
    for m in MEMBERS:
        for d in glob.glob(os.path.join(fp, m + "-*")):
            names = os.listdir(d)
            if any(n.startswith(("lib-", "bin-")) for n in names):
                shutil.rmtree(d, ignore_errors=True)


def ensure_facts(config="full", verbose=False):
    """Return the directory holding <crate>.json facts for /repo's current working tree."""
    os.makedirs(os.path.join(CACHE, "facts"), exist_ok=True)
    lock = open(os.path.join(CACHE, "extract.lock"), "w")
    fcntl.flock(lock, fcntl.LOCK_EX)
    try:
        build_driver()
        th, nfiles = tree_hash()
        out = os.path.join(CACHE, "facts", "%s-%s" % (config, th))
        args, expect = CONFIGS[config]
        if all(os.path.exists(os.path.join(out, c + ".json")) for c in expect) and \
                os.path.exists(os.path.join(out, "OK")):
            try:
                os.utime(out)      # least-recently-used eviction below
            except OSError:
                pass
            return out
        shutil.rmtree(out, ignore_errors=True)
        os.makedirs(out)
        target = os.path.join(CACHE, "target-" + config)
        _drop_member_fingerprints(target)
        env = dict(os.environ)
        env.update({
            "LD_LIBRARY_PATH": os.path.join(sysroot(), "lib") + ":" + env.get("LD_LIBRARY_PATH", ""),
            "RUSTFLAGS": "-Zmir-opt-level=0 -Awarnings -Cdebug-assertions=off -Coverflow-checks=on",
            "RUSTC_WORKSPACE_WRAPPER": DRIVER,
            "SIMP_FACTS_DIR": out,
            "CARGO_TARGET_DIR": target,
            "CARGO_NET_OFFLINE": "true",
        })
        t0 = time.time()
        r = subprocess.run(["cargo", "+nightly", "check", "--offline"] + args, cwd=REPO, env=env,
                           stdout=subprocess.PIPE, stderr=subprocess.STDOUT, text=True)
        if r.returncode != 0:
            sys.stderr.write(r.stdout[-6000:])
            raise SystemExit("extract: cargo check of /repo failed (the tree does not compile?)")
        missing = [c for c in expect if not os.path.exists(os.path.join(out, c + ".json"))]
        if missing:
            sys.stderr.write(r.stdout[-3000:])
            raise SystemExit("extract: no facts emitted for %s" % missing)
        with open(os.path.join(out, "OK"), "w") as f:
            f.write("files=%d wall=%.1f\n" % (nfiles, time.time() - t0))
        if verbose:
            print("extract: %s facts in %.1fs -> %s" % (config, time.time() - t0, out))
        # keep the cache small: drop all but the 220 newest fact dirs (28 MB each; scratch copies of seeded changes are shared between checks)
        dirs = sorted(glob.glob(os.path.join(CACHE, "facts", "*-*")), key=os.path.getmtime)
        for d in dirs[:-220]:
            shutil.rmtree(d, ignore_errors=True)
        return out
    finally:
        fcntl.flock(lock, fcntl.LOCK_UN)
        lock.close()


if __name__ == "__main__":
    cfg = sys.argv[1] if len(sys.argv) > 1 else "full"
    print(ensure_facts(cfg, verbose=True))
