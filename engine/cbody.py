#!/usr/bin/env python3
"""Engine B, part 2: bodies of selected C functions as small statement/expression trees (from clang's JSON AST).

  func(tu, name)          -> {"params": [...], "body": stmt}
Expressions: ("int", v) ("var", name) ("enum", name) ("member", e, field) ("index", e, e) ("call", fname, [e])
             ("bin", op, a, b) ("un", op, a) ("cond", c, a, b) ("sizeof", text) ("init", [e]) ("str", s) ("other", kind)
Statements:  ("expr", e) ("decl", name, init|None, type) ("switch", e, stmt) ("case", e, stmt) ("default", stmt) ("break",)
             ("if", c, then, else|None) ("for", init, cond, inc, body) ("while", c, body) ("return", e|None)
             ("block", [stmt]) ("null",) ("other", kind)
Casts, parentheses and constant-expression wrappers are dropped.  Nothing is executed; clang only parses.

  run_for_tag(body_of_switch, tag, env) straight-line statements executed when the switch value is `tag`
                                        (case nesting, fall-through until break).
"""
import hashlib
import json
import os
import subprocess

import cside

CACHE = os.path.join(cside.VERIF, ".cache", "cbody")


def _raw(tu, name):
    os.makedirs(CACHE, exist_ok=True)
    key = hashlib.sha256((cside.c_tree_hash() + tu + name + open(os.path.abspath(__file__), "rb").read().decode()).encode()).hexdigest()[:20]
    path = os.path.join(CACHE, key + ".json")
    if os.path.exists(path):
        with open(path) as f:
            return json.load(f)
    cmd = ["clang", "-std=c11", "-fsyntax-only", "-DPRODUCTION", "-I", "depend/simplicity/include",
           "-Xclang", "-ast-dump=json", "-Xclang", "-ast-dump-filter=" + name, tu]
    r = subprocess.run(cmd, cwd=cside.SYS, stdout=subprocess.PIPE, stderr=subprocess.PIPE)
    txt = r.stdout.decode()
    dec = json.JSONDecoder()
    pos = 0
    found = None
    while pos < len(txt):
        while pos < len(txt) and txt[pos] in " \r\n\t":
            pos += 1
        if pos >= len(txt):
            break
        obj, pos = dec.raw_decode(txt, pos)
        if obj.get("kind") == "FunctionDecl" and obj.get("name") == name and any(c.get("kind") == "CompoundStmt" for c in obj.get("inner", [])):
            found = obj
    if found is None:
        raise KeyError("C function %s not found (with a body) in %s" % (name, tu))
    red = {"params": [c.get("name") for c in found.get("inner", []) if c.get("kind") == "ParmVarDecl"],
           "body": stmt([c for c in found["inner"] if c.get("kind") == "CompoundStmt"][0]),
           "line": (found.get("loc") or {}).get("line")}
    with open(path + ".tmp", "w") as f:
        json.dump(red, f)
    os.rename(path + ".tmp", path)
    with open(path) as f:
        return json.load(f)


def func(tu, name):
    return _tuplify(_raw(tu, name))


def _tuplify(x):
    if isinstance(x, list):
        return tuple(_tuplify(y) for y in x)
    if isinstance(x, dict):
        return {k: _tuplify(v) for k, v in x.items()}
    return x


DROP = {"ImplicitCastExpr", "ParenExpr", "CStyleCastExpr", "ConstantExpr", "ExprWithCleanups"}


def expr(n):
    k = n.get("kind")
    inner = [c for c in n.get("inner", []) or [] if isinstance(c, dict)]
    if k in DROP:
        return expr(inner[0]) if inner else ("other", k)
    if k == "IntegerLiteral":
        return ("int", int(n["value"]))
    if k == "CharacterLiteral":
        return ("int", int(n["value"]))
    if k == "StringLiteral":
        return ("str", n.get("value"))
    if k == "DeclRefExpr":
        r = n.get("referencedDecl") or {}
        if r.get("kind") == "EnumConstantDecl":
            return ("enum", r.get("name"))
        return ("var", r.get("name"))
    if k == "MemberExpr":
        return ("member", expr(inner[0]), n.get("name"))
    if k == "ArraySubscriptExpr":
        return ("index", expr(inner[0]), expr(inner[1]))
    if k == "CallExpr":
        f = expr(inner[0])
        return ("call", f[1] if f[0] == "var" else f, [expr(a) for a in inner[1:]])
    if k in ("BinaryOperator", "CompoundAssignOperator"):
        return ("bin", n.get("opcode"), expr(inner[0]), expr(inner[1]))
    if k == "UnaryOperator":
        return ("un", ("post" if n.get("isPostfix") else "") + n.get("opcode", "?"), expr(inner[0]))
    if k == "ConditionalOperator":
        return ("cond", expr(inner[0]), expr(inner[1]), expr(inner[2]))
    if k == "UnaryExprOrTypeTraitExpr":
        return ("sizeof", (n.get("argType") or {}).get("qualType") or (expr(inner[0]) if inner else None))
    if k == "InitListExpr":
        return ("init", [expr(c) for c in inner])
    if k == "CompoundLiteralExpr":
        return expr(inner[0]) if inner else ("other", k)
    if k == "ImplicitValueInitExpr":
        return ("int", 0)
    return ("other", k)


def stmt(n):
    k = n.get("kind")
    inner = [c for c in n.get("inner", []) or [] if isinstance(c, dict)]
    if k == "CompoundStmt":
        return ("block", [stmt(c) for c in inner])
    if k == "DeclStmt":
        ds = []
        for c in inner:
            if c.get("kind") == "VarDecl":
                init = [x for x in c.get("inner", []) or [] if isinstance(x, dict) and not x.get("kind", "").endswith("Attr")]
                ds.append(("decl", c.get("name"), expr(init[0]) if init else None, (c.get("type") or {}).get("qualType")))
        return ds[0] if len(ds) == 1 else ("block", ds)
    if k == "SwitchStmt":
        return ("switch", expr(inner[0]), stmt(inner[-1]))
    if k == "CaseStmt":
        return ("case", expr(inner[0]), stmt(inner[-1]))
    if k == "DefaultStmt":
        return ("default", stmt(inner[-1]))
    if k == "BreakStmt":
        return ("break",)
    if k == "IfStmt":
        has_else = n.get("hasElse")
        return ("if", expr(inner[0]), stmt(inner[1]), stmt(inner[2]) if has_else and len(inner) > 2 else None)
    if k == "ForStmt":
        # clang: init, condvar(null), cond, inc, body - missing ones are {} placeholders dropped by our filter
        raw = n.get("inner", [])
        parts = [c if isinstance(c, dict) and c.get("kind") else None for c in raw]
        while len(parts) < 5:
            parts.insert(0, None)
        init, _cv, cond, inc, body = parts[-5:]
        return ("for", stmt(init) if init else None, expr(cond) if cond else None, expr(inc) if inc else None, stmt(body) if body else ("null",))
    if k == "WhileStmt":
        return ("while", expr(inner[0]), stmt(inner[-1]))
    if k == "ReturnStmt":
        return ("return", expr(inner[0]) if inner else None)
    if k == "NullStmt":
        return ("null",)
    if k == "AttributedStmt":
        return stmt(inner[-1]) if inner else ("null",)
    if k in ("DoStmt", "GotoStmt", "LabelStmt", "ContinueStmt"):
        return ("other", k)
    # expression statement
    return ("expr", expr(n))


def flatten_switch(body):
    """items of a switch body in order: ('label', enum-or-int) / ('stmt', s)"""
    out = []

    def add(s):
        if s[0] == "case":
            out.append(("label", s[1]))
            add(s[2])
        elif s[0] == "default":
            out.append(("label", ("default",)))
            add(s[1])
        elif s[0] == "block":
            for x in s[1]:
                add(x)
        else:
            out.append(("stmt", s))
    add(body)
    return out


def run_for_tag(switch_body, tag):
    """statements executed for `tag` (an enumerator name or an int) — until break; None if no label matches"""
    items = flatten_switch(switch_body)
    start = None
    for i, it in enumerate(items):
        if it[0] == "label" and (it[1] == ("enum", tag) or it[1] == ("int", tag)):
            start = i
    if start is None:
        for i, it in enumerate(items):
            if it[0] == "label" and it[1] == ("default",):
                start = i
    if start is None:
        return None
    out = []
    for it in items[start:]:
        if it[0] == "stmt":
            if it[1][0] == "break":
                break
            out.append(it[1])
            if it[1][0] == "return":
                break
    return out


def labels(switch_body):
    return [it[1][1] for it in flatten_switch(switch_body) if it[0] == "label" and it[1][0] in ("enum", "int")]


def find(s, pred):
    """all sub-statements satisfying pred (pre-order)"""
    out = []

    def go(x):
        if not isinstance(x, tuple) or not x:
            return
        if isinstance(x[0], str) and pred(x):
            out.append(x)
        for y in x:
            if isinstance(y, tuple):
                go(y)
    go(s)
    return out


def show(e):
    if not isinstance(e, tuple):
        return str(e)
    k = e[0]
    if k == "int":
        return str(e[1])
    if k in ("var", "enum"):
        return e[1]
    if k == "member":
        return "%s.%s" % (show(e[1]), e[2])
    if k == "index":
        return "%s[%s]" % (show(e[1]), show(e[2]))
    if k == "call":
        return "%s(%s)" % (e[1] if isinstance(e[1], str) else show(e[1]), ", ".join(show(a) for a in e[2]))
    if k == "bin":
        return "(%s %s %s)" % (show(e[2]), e[1], show(e[3]))
    if k == "un":
        return "%s%s" % (e[1], show(e[2]))
    if k == "cond":
        return "(%s ? %s : %s)" % (show(e[1]), show(e[2]), show(e[3]))
    return k


if __name__ == "__main__":
    import sys
    f = func(sys.argv[1], sys.argv[2])
    def pr(s, ind=0):
        if s[0] == "block":
            for x in s[1]:
                pr(x, ind)
        elif s[0] in ("switch",):
            print(" " * ind + "switch " + show(s[1]))
            pr(s[2], ind + 2)
        elif s[0] == "case":
            print(" " * ind + "case " + show(s[1]))
            pr(s[2], ind + 1)
        elif s[0] == "for":
            print(" " * ind + "for")
            pr(s[4], ind + 2)
        elif s[0] == "if":
            print(" " * ind + "if " + show(s[1]))
            pr(s[2], ind + 2)
            if s[3]:
                print(" " * ind + "else")
                pr(s[3], ind + 2)
        elif s[0] == "expr":
            print(" " * ind + show(s[1]))
        elif s[0] == "decl":
            print(" " * ind + "decl %s = %s" % (s[1], show(s[2]) if s[2] else None))
        elif s[0] == "return":
            print(" " * ind + "return " + (show(s[1]) if s[1] else ""))
        else:
            print(" " * ind + s[0])
    pr(f["body"])
