"""Thorough tier: what is added to the quick rules.

1. Engine C: compile-fail / compile-pass witnesses (engine/witness) for the type-level clauses of the property.
   A compile-fail witness that compiles is a violation (the forbidden program type-checks); a twin that does not
   compile is a checker error.
2. Checker self-test: every seeded change recorded for this property in seeded/EXPECT.json is applied to a scratch
   copy of /repo's current working tree (outside /repo and /verif, removed afterwards), facts are extracted from the
   copy and the same rules must report a violation.  Nothing of the repository is executed.  A change that no longer
   applies to the current tree is skipped and listed; a change that is not reported makes the check fail as broken
   (exit 3, no VIOLATION line: it says nothing about /repo).
3. Negative control: the behaviour-preserving refactorings in selftest/neutral/*.diff (reordered operands and match arms,
   let-bindings, `match` rewritten as if-let chains, helper functions extracted in the decoder, the interpreter, the
   redeem-data constructor, the value comparison and the pruning finaliser; the unedited suite passes with each) are
   applied to scratch copies the same way and the rules must stay silent.  A report on one of them is a false alarm of
   the checker: exit 3.
"""
import json
import os
import re
import shutil
import subprocess
import tempfile

VERIF = os.path.dirname(os.path.dirname(os.path.abspath(__file__)))
REPO = os.environ.get("SIMP_REPO", "/repo")

WITNESSES = {
    "C04": ["C04Brand"],
    "C07": ["C07Fields"],
    "C09": ["C09Writers", "C07Fields"],
    "C11": ["C12ValueFields"],
    "C12": ["C12ValueFields"],
    "C20": ["C04Brand", "<build>"],
}


def run_witnesses(pid, rep):
    want = WITNESSES.get(pid)
    if not want:
        return True
    rule = pid + ".witness"
    rep.rule(rule, "compile-fail witnesses (with compiling twins) and compile-pass auto-trait witnesses of the type-level clauses")
    crate = os.path.join(VERIF, ".cache", "witness", "crate")
    os.makedirs(os.path.join(crate, "src"), exist_ok=True)
    # thorough runs of several properties may be started in parallel: they share this crate and its target directory
    import fcntl
    _lock = open(os.path.join(VERIF, ".cache", "witness", "lock"), "w")
    fcntl.flock(_lock, fcntl.LOCK_EX)
    try:
        return _run_witnesses_locked(pid, rep, want, rule, crate)
    finally:
        fcntl.flock(_lock, fcntl.LOCK_UN)
        _lock.close()


def _run_witnesses_locked(pid, rep, want, rule, crate):
    tpl = open(os.path.join(VERIF, "engine", "witness", "Cargo.toml.in")).read().replace("@REPO@", REPO)
    open(os.path.join(crate, "Cargo.toml"), "w").write(tpl)
    shutil.copy(os.path.join(VERIF, "engine", "witness", "src", "lib.rs"), os.path.join(crate, "src", "lib.rs"))
    shutil.copy(os.path.join(REPO, "Cargo.lock"), os.path.join(crate, "Cargo.lock"))
    env = dict(os.environ, CARGO_NET_OFFLINE="true", CARGO_TARGET_DIR=os.path.join(VERIF, ".cache", "witness", "target"))
    r = subprocess.run(["cargo", "+nightly", "test", "--doc", "--offline"], cwd=crate, env=env,
                       stdout=subprocess.PIPE, stderr=subprocess.STDOUT, text=True)
    out = r.stdout
    built = "Doc-tests simp_witness" in out
    ok_checker = True
    if "<build>" in want:
        if built:
            rep.ok(rule, "auto-traits", "Send + Sync for Arc<RedeemNode>, Arc<CommitNode>, Value, Arc<Final>, roots, Cost, Context, Arc<ConstructNode>; Send for BitMachine")
        else:
            m = re.search(r"error\[E0277\][^\n]*\n[^\n]*\n[^\n]*", out)
            if m:
                rep.violation(rule, "auto-traits", "a shared type is no longer Send + Sync: %s" % m.group(0).replace("\n", " ")[:300])
            else:
                print("thorough: witness crate does not build:\n" + out[-2000:])
                ok_checker = False
    tests = re.findall(r"test src/lib\.rs - (\w+) \(line (\d+)\)( - compile fail)? \.\.\. (ok|FAILED)", out)
    seen = set()
    for name, line, cf, res in tests:
        if name not in want:
            continue
        seen.add(name)
        key = "%s:%s:%s" % (name, "compile_fail" if cf else "twin", line)
        if res == "ok":
            rep.ok(rule, key, "fails to compile with the expected error code" if cf else "compiles")
        elif cf:
            rep.violation(rule, key, "the forbidden program of witness %s (engine/witness/src/lib.rs:%s) compiles, or fails with another error than the one expected" % (name, line))
        else:
            print("thorough: twin of witness %s (line %s) does not compile — the witness is stale:\n%s" % (name, line, out[-1500:]))
            ok_checker = False
    for name in want:
        if name != "<build>" and name not in seen and built:
            print("thorough: witness %s did not run" % name)
            ok_checker = False
    if not built and "<build>" not in want:
        print("thorough: witness crate does not build:\n" + out[-2000:])
        ok_checker = False
    return ok_checker


def expected_mutants(pid):
    p = os.path.join(VERIF, "seeded", "EXPECT.json")
    if not os.path.exists(p):
        return []
    with open(p) as f:
        return json.load(f).get(pid, [])


def run_neutral(pid, rep):
    import glob
    results = []
    ok = True
    for patch in sorted(glob.glob(os.path.join(VERIF, "selftest", "neutral", "*.diff"))):
        name = "neutral/" + os.path.basename(patch)
        scratch = tempfile.mkdtemp(prefix="simp-selftest-")
        try:
            subprocess.run(["rsync", "-a", "--exclude", "/target", "--exclude", "/.git", "--exclude", "/fuzz/target",
                            REPO.rstrip("/") + "/", scratch + "/"], check=True)
            a = subprocess.run(["git", "apply", "--whitespace=nowarn", patch], cwd=scratch, stdout=subprocess.PIPE, stderr=subprocess.STDOUT, text=True)
            if a.returncode != 0:
                results.append({"refactoring": name, "status": "skipped: no longer applies to the current tree"})
                continue
            env = dict(os.environ, SIMP_REPO=scratch, VERIF_SELFTEST="1")
            r = subprocess.run([os.path.join(VERIF, "check"), pid, "--tier", "quick"], env=env, cwd=VERIF,
                               stdout=subprocess.PIPE, stderr=subprocess.STDOUT, text=True)
            hits = re.findall(r"SELFTEST-VIOLATION (\S+) (.*?) -- ", r.stdout)
            if hits:
                results.append({"refactoring": name, "status": "FALSE ALARM", "rules": sorted({h[0] for h in hits}), "instances": [h[1] for h in hits][:4]})
                ok = False
            elif "== selftest" not in r.stdout:
                results.append({"refactoring": name, "status": "checker error", "tail": r.stdout[-400:]})
                ok = False
            else:
                results.append({"refactoring": name, "status": "silent"})
        finally:
            shutil.rmtree(scratch, ignore_errors=True)
    rep.extra = getattr(rep, "extra", None) or {}
    rep.extra["selftest_neutral_refactorings"] = results
    for res in results:
        print("   selftest %s: %s %s" % (res["refactoring"], res["status"], ",".join(res.get("rules", []))))
    return ok


def run_selftest(pid, rep):
    ids = expected_mutants(pid)
    results = []
    ok = True
    for mid in ids:
        patch = os.path.join(VERIF, "seeded", mid, "patch.diff")
        if not os.path.exists(patch):
            results.append({"mutant": mid, "status": "missing patch"})
            continue
        scratch = tempfile.mkdtemp(prefix="simp-selftest-")
        try:
            subprocess.run(["rsync", "-a", "--exclude", "/target", "--exclude", "/.git", "--exclude", "/fuzz/target",
                            REPO.rstrip("/") + "/", scratch + "/"], check=True)
            a = subprocess.run(["git", "apply", "--whitespace=nowarn", patch], cwd=scratch, stdout=subprocess.PIPE, stderr=subprocess.STDOUT, text=True)
            if a.returncode != 0:
                results.append({"mutant": mid, "status": "skipped: the seeded change no longer applies to the current tree"})
                continue
            env = dict(os.environ, SIMP_REPO=scratch, VERIF_SELFTEST="1")
            r = subprocess.run([os.path.join(VERIF, "check"), pid, "--tier", "quick"], env=env, cwd=VERIF,
                               stdout=subprocess.PIPE, stderr=subprocess.STDOUT, text=True)
            hits = re.findall(r"SELFTEST-VIOLATION (\S+) (.*?) -- ", r.stdout)
            if hits:
                results.append({"mutant": mid, "status": "reported", "rules": sorted({h[0] for h in hits}), "instances": [h[1] for h in hits][:4]})
            else:
                results.append({"mutant": mid, "status": "NOT REPORTED", "tail": r.stdout[-600:]})
                ok = False
        finally:
            shutil.rmtree(scratch, ignore_errors=True)
    rep.extra = getattr(rep, "extra", None) or {}
    rep.extra["selftest_seeded_changes"] = results
    for res in results:
        print("   selftest %s: %s %s" % (res["mutant"], res["status"], ",".join(res.get("rules", []))))
    return ok
