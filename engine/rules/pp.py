#!/usr/bin/env python3
"""Pretty-print the simplified MIR of functions matching a substring (debugging aid)."""
import sys
import os
sys.path.insert(0, os.path.dirname(os.path.abspath(__file__)))
sys.path.insert(0, os.path.join(os.path.dirname(os.path.abspath(__file__)), ".."))
from facts import Facts, switch_info  # noqa


def pl(p):
    return "_%d%s" % (p[0], "".join(p[1]))


def op(o):
    k = o["k"]
    if k in ("copy", "move"):
        return ("" if k == "copy" else "move ") + pl(o["p"])
    if k == "const":
        if "fn" in o:
            return "fn:" + o["fn"]["path"]
        if "int" in o:
            return "%s:%s" % (o["int"], o["ty"].split("::")[-1])
        if "str" in o:
            return repr(o["str"])
        if "item" in o:
            return "const " + o["item"]
        if "bytes" in o:
            return "bytes:" + o["bytes"][:40]
        return "const<%s>" % o["ty"]
    return str(o)


def rv(r):
    k = r["k"]
    if k == "use":
        return op(r["a"])
    if k == "ref":
        return ("&mut " if r["mut"] else "&") + pl(r["p"])
    if k == "rawptr":
        return "&raw " + pl(r["p"])
    if k == "cast":
        return "%s as %s (%s)" % (op(r["a"]), r["ty"], r["cast"])
    if k == "bin":
        return "%s(%s, %s)" % (r["op"], op(r["a"]), op(r["b"]))
    if k == "un":
        return "%s(%s)" % (r["op"], op(r["a"]))
    if k == "discr":
        return "discr(%s)" % pl(r["p"])
    if k == "agg":
        if r["agg"] == "adt":
            return "%s::%s{%s}" % (r["adt"], r["variant"], ", ".join("%s: %s" % (f, op(o)) for f, o in zip(r["fields"], r["ops"])))
        if r["agg"] == "closure":
            return "closure %s [%s]" % (r["closure"], ", ".join(op(o) for o in r["ops"]))
        return "%s(%s)" % (r["agg"], ", ".join(op(o) for o in r["ops"]))
    if k == "repeat":
        return "[%s; %s]" % (op(r["a"]), r["n"])
    return str(r)


def show_fn(fn):
    print("fn %s  [%s]  args=%d" % (fn.path, fn.where(), fn.arg_count))
    for n, p in fn.d["debug"]:
        print("   debug %s = %s" % (n, pl(p)))
    for i, t in enumerate(fn.locals):
        print("   _%d: %s" % (i, t))
    for b, blk in enumerate(fn.blocks):
        print("  bb%d%s:" % (b, " (cleanup)" if blk["cleanup"] else ""))
        for s in blk["s"]:
            if s[0] == "=":
                print("    %s = %s   @%s" % (pl(s[1]), rv(s[2]), s[3]))
            elif s[0] in ("live", "dead"):
                pass
            else:
                print("    %s" % s)
        t = blk["t"]
        k = t["k"]
        if k == "call":
            f = t["f"]
            nm = f.get("res") or f.get("path") or "<indirect %s>" % op(f["indirect"])
            extra = ""
            if f.get("trait") and not f.get("resolved"):
                extra = "  [dyn/generic %s on %s]" % (f["trait"], f.get("self"))
            print("    %s = %s(%s) -> bb%s unwind %s  @%s%s" % (pl(t["dest"]), nm, ", ".join(op(a) for a in t["args"]), t["target"], t["unwind"], t["line"], extra))
        elif k == "switch":
            si = switch_info(fn, b)
            lab = ""
            if si:
                lab = "  enum %s: %s otherwise(%s)->bb%d" % (si[1], {k2: v for k2, v in si[2].items()}, ",".join(si[4]), si[3])
            print("    switch %s %s else bb%d%s" % (op(t["discr"]), t["targets"], t["otherwise"], lab))
        elif k == "drop":
            print("    drop %s -> bb%d" % (pl(t["p"]), t["target"]))
        elif k == "assert":
            print("    assert %s == %s (%s) -> bb%d" % (op(t["cond"]), t["expected"], t["msg"], t["target"]))
        elif k == "goto":
            print("    goto bb%d" % t["target"])
        else:
            print("    %s" % k)


if __name__ == "__main__":
    import extract
    d = extract.ensure_facts("full")
    F = Facts(d)
    pat = sys.argv[1]
    exact = len(sys.argv) > 2 and sys.argv[2] == "-x"
    for p in sorted(F.fns):
        if (exact and p == pat) or (not exact and pat in p):
            show_fn(F.fns[p])
            print()
