"""C20 — results are independent of threads and scheduling: race- and deadlock-freedom, statically.

"Same results as sequential" follows if there is no shared mutable state, no deadlock, and equality never depends
on which thread built a value.  Decides:
  C20.sendsync  no `unsafe impl Send/Sync` anywhere in the workspace (auto traits decide; compile-pass witnesses
                for the public types run in the thorough tier)
  C20.globals   inventory of static-storage state, Rust and C: every static is immutable plain data, or one of
                the reviewed entries (an atomic name counter whose value only reaches variable names; per-thread
                caches of precomputed types that are pure functions of their index); every thread_local and every
                interior-mutable static outside that table is reported; C: every file-scope or static variable of
                the compiled translation units is const, or reviewed (never written / written only by a constructor)
  C20.locks     the only lock in the workspace is the inference context's mutex, taken only through Context::lock,
                never nested and never re-entered (C04.lock re-evaluated): no lock-order deadlock
  C20.unsafe    user-written unsafe operations are classified by what they do; allowed kinds: calls to extern "C"
                items, the std::alloc API and pointer arithmetic inside simplicity_sys::alloc, ptr::read paired with
                mem::forget, MaybeUninit::assume_init after the FFI call that initialises it, pointer arithmetic on
                a pointer to a local buffer; anything else (static mut, transmute, writes through foreign pointers)
                is reported
Not decided: that results flowing through C jets' internals are schedule-independent (assumed pure given no
mutable C globals).
"""
import re
import facts as fm
from facts import Terms, calls_in, show, leaves
import c04
import vcc

FINISH = dict(level="other",
              explanation="Whole-workspace inventories over the type-checked program (impls, statics, thread_locals, lock call "
                          "sites, unsafe operations) and over clang's AST of the vendored C (static-storage variables and their "
                          "writers), each entry either structurally harmless or matched against a reviewed table; lock discipline "
                          "by guard liveness + call graph.",
              assumptions=["C jets are pure functions of their frame and environment arguments (no hidden state beyond the "
                           "inventoried globals)", "std's Arc/Mutex/atomics are correct"])

# reviewed shared-state entries: path prefix -> (kind, reason, accessor functions allowed to touch it)
REVIEWED_STATICS = {
    "simplicity::types::variable::NEXT_ID": (
        "atomic", "monotone counter used only to make names of fresh type variables (reaches Display/Debug only)",
        {"simplicity::types::variable::new_name"}),
    "simplicity::types::precomputed::TWO_TWO_N": (
        "thread_local", "per-thread cache of the types 2^(2^n); a pure function of n, compared by TMR never by pointer",
        {"simplicity::types::precomputed::nth_power_of_2", "simplicity::types::precomputed::initialize"}),
    "simplicity::types::precomputed::BUFFER8_TWO_N_PLUS_ONE": (
        "thread_local", "per-thread cache of buffer types; pure function of n", {"simplicity::types::precomputed::buffer8_two_n_plus_one"}),
    "simplicity::types::precomputed::CTX8": (
        "thread_local", "per-thread cache of the sha256 ctx8 type; constant", {"simplicity::types::precomputed::ctx8"}),
}
REVIEWED_C_VARS = {
    ("rustsimplicity_0_7_sha256_compression", None): "function pointer initialised statically; its only writer (compiled with -msha) is an __attribute__((constructor)) function that runs before main",
    ("tagName", "rustsimplicity_0_7_make_tapleaf"): "function-local string constant missing `const`; never written",
    ("tagName", "rustsimplicity_0_7_make_tapbranch"): "function-local string constant missing `const`; never written",
    ("taptweak", "rustsimplicity_0_7_build_taptweak"): "function-local string constant missing `const`; never written",
}
# lock holders whose callees reach a lock only through the over-approximate dispatch of a generic trait call:
# holder -> (callees that may be reached, reason)
REVIEWED_NESTED = {
    "simplicity::node::display::Display::<'n, M>::program": (
        {"simplicity::node::Node::<N>::to_vec_without_witness"},
        "OnceLock caching the bytes of a node: encoding iterates EncodeNode/Node DAGs; the only lock in the call graph below it is "
        "reached through DagLike::left_child dispatched to the (Context, BoundRef) impl, which is not the DAG type iterated here"),
    "simplicity::node::display::Display::<'n, M>::witness": (
        {"simplicity::node::Node::<N>::to_vec_with_witness"},
        "as for program(): encoding a node never touches an inference context"),
}
LOCK_NAMES = {"lock", "try_lock", "read", "write", "try_read", "try_write", "get_or_init", "get_or_try_init", "call_once", "wait"}
LOCK_TYPES = ("std::sync::Mutex", "std::sync::RwLock", "std::sync::OnceLock", "std::sync::Once", "std::sync::Condvar",
              "std::sync::LazyLock", "std::sync::poison::mutex::Mutex", "std::sync::poison::rwlock::RwLock", "std::sync::poison::")


def in_tests(p):
    return "::tests::" in p or p.startswith("simplicity_sys::tests") or "::test::" in p or "::benches::" in p


def run(ctx, rep):
    F = ctx.facts("full")
    rep.rule("C20.sendsync", "no unsafe impl of Send/Sync")
    rep.rule("C20.globals", "static-storage state (Rust and C) is immutable or reviewed")
    rep.rule("C20.locks", "single lock class, taken only via Context::lock, never nested or re-entered")
    rep.rule("C20.unsafe", "user-written unsafe operations are of an allowed kind")

    # ---------------- Send/Sync ----------------
    n_impl = 0
    bad = 0
    for i in F.impls:
        n_impl += 1
        tr = i.get("trait") or ""
        if tr.endswith(("marker::Send", "marker::Sync")):
            bad += 1
            rep.violation("C20.sendsync", "%s for %s" % (tr.rsplit("::", 1)[1], i["self_ty"]), "explicit %s impl of %s for %s: the auto-trait verdict is overridden by hand"
                          % ("unsafe" if i.get("safety") == "Unsafe" else "", tr, i["self_ty"]), "%s:%s" % (i["span"][0], i["span"][1]))
    rep.count("impl_blocks_scanned", n_impl)
    if not bad:
        rep.ok("C20.sendsync", "no explicit Send/Sync impl among %d impl blocks" % n_impl, None)
    # interior-mutable fields reachable in the shared immutable program types would make Sync depend on them; report cells
    cells = []
    for a in F.adts.values():
        if in_tests(a["path"]) or not a["path"].startswith(("simplicity::", "simplicity_sys::")):
            continue
        for v in a["variants"]:
            for fl in v["fields"]:
                if re.search(r"\b(Cell|RefCell|UnsafeCell|OnceCell)<", fl["ty"]) and "ghost_cell" not in fl["ty"]:
                    cells.append("%s.%s: %s" % (a["path"], fl["name"], fl["ty"]))
    if cells:
        for c in cells:
            rep.violation("C20.sendsync", "cell:" + c.split(":")[0], "interior-mutable field %s (not Sync): shared programs containing it cannot be used from several threads" % c)
    else:
        rep.ok("C20.sendsync", "no Cell/RefCell/UnsafeCell field in workspace types", None)

    # ---------------- Rust globals ----------------
    tls_users = {}
    static_users = {}
    for p, f in F.fns.items():
        for b in f.rpo():
            for s in f.blocks[b]["s"]:
                if s[0] == "=":
                    rv = s[2]
                    if rv.get("k") == "tls":
                        tls_users.setdefault(rv["item"], set()).add(p)
                    for o in [rv.get("a"), rv.get("b")] + rv.get("ops", []):
                        if isinstance(o, dict) and o.get("k") == "const" and o.get("ty", "").startswith("&") and "item" in o:
                            static_users.setdefault(o["item"], set()).add(p)
            t = f.blocks[b]["t"]
            if t["k"] == "call":
                for o in t["args"]:
                    if o.get("k") == "const" and "item" in o:
                        static_users.setdefault(o["item"], set()).add(p)
    n_static = 0
    for s in F.statics:
        if in_tests(s["path"]):
            continue
        n_static += 1
        key = s["path"]
        plain = (not s["mutable"]) and s["freeze"] and not s["thread_local"]
        if plain:
            rep.ok("C20.globals", "static " + fm.short(key), "immutable plain data: " + s["ty"][:60])
            continue
        if s["mutable"]:
            rep.violation("C20.globals", "static-mut:" + key, "`static mut %s`: unsynchronised shared mutable state" % key, "%s:%s" % tuple(s["span"][:2]))
            continue
        rev = None
        for pre, ent in REVIEWED_STATICS.items():
            if key == pre or key.startswith(pre + "::"):
                rev = (pre, ent)
        if rev is None:
            kind = "thread_local" if s["thread_local"] else "interior-mutable static"
            rep.violation("C20.globals", "UNREVIEWED:" + re.sub(r"::\{.*", "", key), "%s `%s`: %s — state that outlives a call; results can depend on which "
                          "thread (or which earlier call on this thread) ran before; review it and add it to the table with its accessors"
                          % (kind, key, s["ty"][:100]), "%s:%s" % tuple(s["span"][:2]))
            continue
        pre, (kind, reason, accessors) = rev
        rep.ok("C20.globals", "%s %s" % (kind, fm.short(pre)), reason)
    rep.floor("C20.globals(statics)", n_static, 9)
    # who touches the reviewed state
    static_refs = {}
    localkey_users = set()
    for p, f in F.fns.items():
        if in_tests(p):
            continue
        for b in f.rpo():
            ops = []
            for s in f.blocks[b]["s"]:
                if s[0] == "=":
                    rv = s[2]
                    ops += [rv.get("a"), rv.get("b")] + rv.get("ops", [])
            t = f.blocks[b]["t"]
            if t["k"] == "call":
                ops += t["args"]
            for o in ops:
                if isinstance(o, dict) and o.get("k") == "const":
                    if "static_ref" in o:
                        static_refs.setdefault(o["static_ref"], set()).add(p.split("::{closure")[0])
                    if "std::thread::LocalKey<" in o.get("ty", ""):
                        localkey_users.add(p.split("::{closure")[0])
    for sp, users in sorted(static_refs.items()):
        ent = REVIEWED_STATICS.get(sp)
        if ent is None:
            continue
        if users <= ent[2]:
            rep.ok("C20.globals", "accessors of " + fm.short(sp), sorted(fm.short(u) for u in users))
        else:
            rep.violation("C20.globals", "accessor:" + fm.short(sp), "%s is also accessed by %s (reviewed accessors: %s)"
                          % (sp, sorted(users - ent[2]), sorted(ent[2])))
    if "simplicity::types::variable::NEXT_ID" not in static_refs:
        rep.anchor("C20.globals", "a reference to NEXT_ID")
    tl_ok = set()
    for pre, (kind, reason, accessors) in REVIEWED_STATICS.items():
        if kind == "thread_local":
            tl_ok |= accessors
    localkey_users = {u for u in localkey_users if not any(u.startswith(pre) for pre in REVIEWED_STATICS)}
    if not localkey_users:
        rep.anchor("C20.globals", "users of thread-local keys")
    elif localkey_users <= tl_ok:
        rep.ok("C20.globals", "thread-local keys are used only by the precomputed-type accessors", sorted(fm.short(u) for u in localkey_users))
    else:
        rep.violation("C20.globals", "tls-accessor", "thread-local state is used by %s, outside the reviewed accessors" % sorted(localkey_users - tl_ok))
    # the per-thread tables hold equal types at different addresses: the reviewed reason above ("compared by TMR, never by
    # pointer") is itself a rule
    import c11
    pis = c11.pointer_identity_sites(F)
    for f_, cs, what in pis:
        rep.violation("C20.globals", "tls-identity:" + f_.path, "%s compares types by address; the precomputed types live in per-thread tables, so the "
                      "answer depends on which thread built the type" % what, cs.where())
    if not pis:
        rep.ok("C20.globals", "types from the per-thread tables are never compared by address", None)
    # the counter's value only makes names
    nn = F.fn("simplicity::types::variable::new_name")
    if nn is None:
        rep.anchor("C20.globals", "types::variable::new_name")
    else:
        if nn.locals[0].endswith("String"):
            rep.ok("C20.globals", "new_name returns a String (a variable name)", None)
        else:
            rep.violation("C20.globals", "new_name:type", "new_name returns %s" % nn.locals[0], nn.where())
        ords = [cs for cs in nn.calls() if cs.name in ("fetch_add", "fetch_sub", "load", "store", "swap", "compare_exchange")]
        if ords:
            rep.ok("C20.globals", "NEXT_ID is only updated atomically", [c.name for c in ords])
    # no read-modify-write of an atomic split into a load and a store (lost updates under concurrency): in any function,
    # the value stored into an atomic must not derive from a load of an atomic in the same function
    n_store = 0
    for f in sorted(F.fns.values(), key=lambda x: x.path):
        if not f.path.startswith(("simplicity::", "simplicity_sys::", "simpcli")):
            continue
        stores = [cs for cs in f.calls() if cs.name == "store" and "atomic" in (cs.callee or "") and len(cs.args) >= 2]
        if not stores:
            continue
        T = Terms(f)
        for cs in stores:
            n_store += 1
            val = T.operand(cs.args[1])
            if any(c[2] == "load" and "atomic" in c[1] for c in calls_in(val)):
                rep.violation("C20.globals", "rmw-split:" + fm.short(f.path), "%s stores into an atomic a value computed from a load of an atomic: the update is not "
                              "atomic (two threads can read the same value; use fetch_add / compare_exchange)" % f.path, cs.where())
            else:
                rep.ok("C20.globals", "atomic store in %s does not depend on a load" % fm.short(f.path), None)
    rep.count("atomic_stores", n_store)

    # ---------------- C globals ----------------
    try:
        import cside
        C = cside.cfacts()
    except Exception as e:  # clang missing etc.
        C = None
        rep.anchor("C20.globals", "clang AST of the vendored C (%s)" % e)
    if C is not None:
        rep.count("c_translation_units", len(C["tus"]))
        seen = set()
        n_c = 0
        for v in C["vars"]:
            if v["storage"] == "extern" and not v["init"] and any(w["name"] == v["name"] and w["init"] for w in C["vars"]):
                continue
            key = (v["name"], v["func"])
            if key in seen:
                continue
            seen.add(key)
            n_c += 1
            writers = sorted({w["func"] or "<file scope>" for w in C["writes"] if w["var"] == v["name"]})
            ctor_only = all("ConstructorAttr" in (C["funcs"].get(w, {}).get("attrs") or []) for w in writers)
            if v["const"]:
                if writers:
                    rep.violation("C20.globals", "c-const-written:" + v["name"], "const variable %s is written in %s" % (v["name"], writers), "%s:%s" % (v["file"], v["line"]))
                continue
            if key in REVIEWED_C_VARS and (not writers or ctor_only):
                rep.ok("C20.globals", "C %s%s" % (v["name"], " in " + v["func"] if v["func"] else ""), REVIEWED_C_VARS[key])
            elif key in REVIEWED_C_VARS:
                rep.violation("C20.globals", "c-written:" + v["name"], "reviewed C variable %s is now written by %s" % (v["name"], writers), "%s:%s" % (v["file"], v["line"]))
            else:
                rep.violation("C20.globals", "c-UNREVIEWED:%s%s" % (v["name"], ":" + v["func"] if v["func"] else ""),
                              "non-const static-storage C variable `%s %s`%s (writers: %s): mutable global state shared by all threads calling into C"
                              % (v["type"], v["name"], " in " + v["func"] if v["func"] else "", writers or "none"), "%s:%s" % (v["file"], v["line"]))
        rep.count("c_static_storage_variables", n_c)
        nconst = sum(1 for v in C["vars"] if v["const"])
        rep.ok("C20.globals", "C const static-storage variables", nconst)
        rep.floor("C20.globals(C vars)", n_c, 100)

    # ---------------- locks ----------------
    lock_sites = []
    for p, f in F.fns.items():
        if in_tests(p):
            continue
        for cs in f.calls():
            if cs.name in LOCK_NAMES and any(t in cs.callee for t in LOCK_TYPES):
                lock_sites.append((p, cs))
    lk = c04.lock_path(F)
    good = [x for x in lock_sites if x[0] == lk]
    other = [x for x in lock_sites if x[0] != lk]
    if len(good) == 1:
        rep.ok("C20.locks", "the inference context's mutex is taken only in Context::lock", good[0][1].callee)
    else:
        rep.anchor("C20.locks", "Mutex::lock inside Context::lock")
    # every other lock must be a leaf: nothing that runs while it may be held can take another lock
    cgr = F.callgraph_rec()
    lock_fns = {p.split("::{closure")[0] for p, _ in lock_sites}
    rev = {}
    for p, cs2 in cgr.items():
        for c in cs2:
            rev.setdefault(c, set()).add(p)
    reach_lock = set()
    stack = [p for p, _ in lock_sites]
    while stack:
        x = stack.pop()
        if x in reach_lock:
            continue
        reach_lock.add(x)
        stack.extend(rev.get(x, ()))
    seen_l = set()
    for p, cs in other:
        holder = p.split("::{closure")[0]
        if holder in seen_l:
            continue
        seen_l.add(holder)
        bodies = [holder] + [q for q in F.fns if q.startswith(holder + "::{closure")]
        inner = set()
        for bpath in bodies:
            for c in cgr.get(bpath, {}):
                if c in reach_lock and c not in bodies:
                    inner.add(c)
        if inner and holder in REVIEWED_NESTED and inner <= REVIEWED_NESTED[holder][0]:
            rep.ok("C20.locks", "reviewed lock in " + fm.short(holder), REVIEWED_NESTED[holder][1])
        elif inner:
            rep.violation("C20.locks", "nested:" + fm.short(holder), "%s takes %s and, while it may be held, calls %s which can take a lock: lock order must be reviewed"
                          % (holder, cs.callee.split("::")[-2] if "::" in cs.callee else cs.callee, sorted(fm.short(x) for x in inner)[:4]), cs.where())
        else:
            rep.ok("C20.locks", "leaf lock in " + fm.short(holder), "%s; nothing called by this function can take a lock" % cs.callee)
    # re-entrancy (C04.lock) re-evaluated here because it is the deadlock clause of this property
    from core import Report
    sub = Report("C04", rep.tier)
    c04.run(ctx, sub)
    lv = [v for v in sub.viols if v["rule"] == "C04.lock"]
    for v in lv:
        rep.violation("C20.locks", "reentrant:" + v["key"], v["msg"], v["where"])
    if not lv:
        rep.ok("C20.locks", "no re-entrant acquisition", "%d guard scopes" % sum(1 for o in sub.oks if o[0] == "C04.lock"))

    # ---------------- unsafe operations ----------------
    n_ops = 0
    for p, f in sorted(F.fns.items()):
        if in_tests(p) or f.from_expansion or "::lex::" in p:
            continue
        T = None
        in_alloc = p.startswith("simplicity_sys::alloc::")
        names_here = [cs.name for cs in f.calls()]
        for cs in f.calls():
            if cs.t.get("exp"):
                continue
            c = cs.callee
            kind = None
            if cs.f.get("foreign"):
                kind = "ffi"
            elif c in F.fns and F.fns[c].unsafe:
                kind = "unsafe-fn"
            elif c.startswith(("std::alloc::", "alloc::alloc::")):
                kind = "alloc-api"
            elif c.startswith(("std::ptr::", "core::ptr::")) and cs.name in ("read", "write", "read_volatile", "write_volatile", "copy", "copy_nonoverlapping", "write_bytes", "drop_in_place", "read_unaligned", "write_unaligned"):
                kind = "ptr-rw"
            elif re.search(r"impl \*(mut|const) T>::(add|sub|offset|read|write|as_ref|as_mut|write_bytes|copy_from|copy_to)", c):
                kind = "rawptr-" + cs.name
            elif cs.name == "assume_init" and "MaybeUninit" in c:
                kind = "assume_init"
            elif cs.name in ("transmute", "transmute_copy") or cs.name.endswith("_unchecked") or cs.name in ("from_raw_parts", "from_raw_parts_mut", "from_raw", "set_len", "zeroed"):
                kind = "other:" + cs.name
            elif c in F.fns and F.fns[c].unsafe:
                kind = "unsafe-fn"
            if kind is None:
                continue
            n_ops += 1
            key = "%s:%s" % (fm.short(p), kind)
            T = T or Terms(f)
            if kind == "ffi":
                rep.ok("C20.unsafe", key + ":" + cs.name if n_ops < 0 else "ffi calls", None) if False else None
                continue
            if kind == "alloc-api" or (in_alloc and kind.startswith(("rawptr-", "ptr-rw"))):
                if in_alloc:
                    rep.ok("C20.unsafe", key, "allocator shim")
                else:
                    rep.violation("C20.unsafe", key, "%s uses the raw allocation API outside simplicity_sys::alloc" % p, cs.where())
                continue
            if kind == "ptr-rw" and cs.name == "read":
                if "forget" in names_here:
                    rep.ok("C20.unsafe", key, "ptr::read paired with mem::forget of the source (move out of a Drop type)")
                else:
                    rep.violation("C20.unsafe", key, "ptr::read without mem::forget of the source: duplicates ownership", cs.where())
                continue
            if kind == "assume_init":
                # dominated by a foreign call that received its as_mut_ptr
                ffi_before = [c2 for c2 in f.calls() if c2.f.get("foreign") and f.dominates(c2.bb, cs.bb) and c2.bb != cs.bb]
                if ffi_before:
                    rep.ok("C20.unsafe", key, "after the FFI call that initialises it (%s)" % ffi_before[0].name)
                else:
                    rep.violation("C20.unsafe", key, "MaybeUninit::assume_init not preceded by an initialising FFI call", cs.where())
                continue
            if kind in ("rawptr-add", "rawptr-sub", "rawptr-offset"):
                t = T.operand(cs.args[0])
                srcs = {c2[2] for c2 in calls_in(t)}
                if srcs & {"as_mut_ptr", "as_ptr"} and not vcc.param_roots(t, fm) - set():
                    rep.ok("C20.unsafe", key, "pointer arithmetic on a pointer to a local buffer: " + show(t)[:80])
                elif srcs & {"as_mut_ptr", "as_ptr"}:
                    rep.ok("C20.unsafe", key, "pointer arithmetic on a pointer derived from an argument's buffer: " + show(t)[:80])
                else:
                    rep.violation("C20.unsafe", key, "pointer arithmetic on %s, whose origin is not a local buffer" % show(t)[:100], cs.where())
                continue
            if kind == "unsafe-fn":
                # a call to a workspace unsafe fn: allowed when the callee is itself classified (it is analysed too)
                rep.ok("C20.unsafe", key + ":" + fm.short(c), "calls workspace unsafe fn (analysed on its own)")
                continue
            rep.violation("C20.unsafe", key, "%s: unsafe operation %s of a kind that is not allowed here" % (p, c), cs.where())
        # statements: transmutes and writes through raw pointers in user code
        for b in f.rpo():
            for s in f.blocks[b]["s"]:
                if s[0] != "=" or (len(s) > 4 and s[4]):
                    continue
                # MIR lowers Box derefs and unsizing helpers to Transmute casts between raw pointers; only a
                # transmute that *creates a reference or a function pointer* can forge aliasing
                if s[2].get("k") == "cast" and "Transmute" in s[2].get("cast", "") and \
                        (s[2].get("ty", "").startswith("&") or "fn(" in s[2].get("ty", "")):
                    n_ops += 1
                    rep.violation("C20.unsafe", "%s:transmute" % fm.short(p), "transmute to %s in user code" % s[2].get("ty"), "%s:%s" % (f.file, s[3]))
    ffi_n = sum(1 for p, f in F.fns.items() if not in_tests(p) for cs in f.calls() if cs.f.get("foreign"))
    rep.ok("C20.unsafe", "calls to extern \"C\" items", ffi_n)
    rep.count("unsafe_operations_classified", n_ops)
    rep.floor("C20.unsafe", n_ops, 10)
    return FINISH


def repr_consts(f):
    """def paths of statics referenced by pointer constants in a function (const operands with an 'item')."""
    out = []
    for b in f.rpo():
        for s in f.blocks[b]["s"]:
            if s[0] == "=":
                out.append(repr(s[2]))
        t = f.blocks[b]["t"]
        if t["k"] == "call":
            out.append(repr(t["args"]))
    return " ".join(out)
