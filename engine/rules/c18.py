"""C18 — DAG iteration visits every node once, children first, with true indices (clauses).

That PostOrderIter yields the right sequence for every DAG shape is an invariant of a stateful loop and is NOT decided.
Decided are necessary conditions visible on each single trip through the loop body and in the iterator's siblings:

  C18.iter     per trip of PostOrderIter::next (forward expression propagation along every path of the loop body up to its
               back edge or return): (first visit) the popped item is pushed back before any child; a child the tracker has
               seen gives its recorded index to the field of its own side and to no other; a new child is pushed with a tag
               whose back-patch (read off the second-visit arms: which stack slot, which field) is the field of the child's
               own side at the distance the child will have from its parent when it is popped; of two new children the left
               one is pushed last (processed first).  (second visit) the index yielded, the index recorded and the index
               patched into the parent are one value; the counter advances exactly on the yielding path; the item carries
               the popped element's own child indices.
  C18.tracker  every map-based SharingTracker::record keeps the first index (no overwriting insert), stores the index it was
               given, and seen_before derives its key with the same functions as record; forwarding impls pass
               (object, index) on unchanged.
  C18.mirror   SwapChildren::as_dag_node exchanges exactly the two children of a binary node; unswap exchanges the two
               indices exactly when the node is binary; rtl_post_order_iter wraps in SwapChildren and maps unswap.
  C18.convert  Node::convert looks converted children up by the indices the iterator reported (left closure: left_index,
               right closure / disconnected child: right_index) and never by position relative to the end of the vector.
"""
import pathval as pv
from pathval import PathEval, show, subexprs

NEXT = "<simplicity::dag::PostOrderIter<D, S> as std::iter::Iterator>::next"
FINISH = dict(level="other",
              explanation="Per-trip analysis of PostOrderIter::next (paths of the loop body with a field-sensitive symbolic store), "
                          "sibling comparison of the SharingTracker impls, shape of the child-swapping adaptor, access discipline "
                          "of Node::convert. Necessary conditions of the property; the loop invariant itself is not decided.",
              assumptions=["the loop invariant tying the stack contents to the DAG (every pushed child is eventually popped "
                           "with its parent where the tag says) is argued from the per-trip rules, not proved"])


def side_of(t):
    """'left'/'right' if the expression is (a payload of) the result of current.left_child / right_child"""
    for s in subexprs(t):
        if s[0] == "call":
            if s[1].endswith("::left_child"):
                return "left"
            if s[1].endswith("::right_child"):
                return "right"
    return None


def run(ctx, rep):
    F = ctx.facts("full")
    rep.rule("C18.iter", "per trip of PostOrderIter::next: push order, index fields, back-patch tags, yielded index")
    rep.rule("C18.tracker", "SharingTracker impls: first index wins, same key in record and seen_before, forwarders faithful")
    rep.rule("C18.mirror", "SwapChildren / unswap / rtl_post_order_iter mirror exactly the binary nodes")
    rep.rule("C18.convert", "Node::convert looks children up by the reported indices")

    def undecided(rule, what):
        rep.note("%s not decided on this tree: %s (shape not recognised; no verdict)" % (rule, what))
        rep.count("undecided_shapes")

    f = F.fns.get(NEXT)
    if f is None:
        rep.anchor("C18.iter", NEXT)
    else:
        trips = []
        for p, back in pv.paths(f, limit=6000, backedges=True):
            E = PathEval(f, p)
            if (E.ret is None and back is None) or not E.feasible:
                continue
            trips.append((E, back))
        rep.count("trips_of_next", len(trips))
        # ---- second visit: tag -> (distance, field)
        patch = {}
        n2 = 0
        for E, back in trips:
            rec = [ev for ev in E.events if ev[0] == "call" and ev[2].endswith("::record")]
            if not rec:
                continue
            n2 += 1
            tag = None
            for ev in E.events:
                if ev[0] == "cond" and ev[2][0] == "discr" and ".previous" in show(ev[2][1]):
                    tag = ev[3]
            recorded = rec[0][3][2] if len(rec[0][3]) == 3 else None
            cur_index = None
            for ev in E.events:
                if ev[0] == "call" and ev[2].endswith("::unwrap_or") and any(s[0] == "call" and s[1].endswith("::record") for s in subexprs(ev[3][0])):
                    cur_index = ("call", ev[2], ev[3], E.path[ev[1]])
                    fallback = ev[3][1]
                    if fallback != recorded:
                        rep.violation("C18.iter", "second:fallback", "the index used when the tracker has not seen the node (%s) is not the index handed to "
                                      "record (%s)" % (show(fallback), show(recorded) if recorded else "?"), f.where())
            stores = [ev for ev in E.events if ev[0] == "store" and ev[2][1] and ev[2][1][-1] in (".left_idx", ".right_idx")]
            for ev in stores:
                base = E.store.get((ev[2][0], ()))
                dist = None
                if base and base[0] == "call" and base[1].endswith("index_mut"):
                    a, c = pv.lin(base[2][1])
                    if len(a) == 1 and list(a.values()) == [1] and any(s[0] == "call" and s[1].endswith("::len") for s in subexprs(list(a)[0])):
                        dist = -c
                val = ev[3]
                same = val[0] == "adt" and val[2] == "Some" and cur_index is not None and val[4][0] == cur_index
                if tag is not None and dist is not None:
                    patch.setdefault(tag, set()).add((dist, ev[2][1][-1][1:]))
                if not same:
                    rep.violation("C18.iter", "second:patch-value:%s" % tag, "the parent's child index is patched with %s, not with the index under which the "
                                  "node is (or was) yielded" % show(val), f.where())
            # yield / skip
            idx_final = E.read((1, (".index",)))
            if E.ret is not None and E.ret[0] == "adt" and E.ret[2] == "Some":
                item = E.ret[4][0]
                d = dict(zip(item[3], item[4])) if item[0] == "adt" else {}
                ok = d.get("index") == cur_index and pv.lin(idx_final)[1] == 1 and \
                    show(d.get("left_index", ("unk", ""))).endswith(".left_idx") and show(d.get("right_index", ("unk", ""))).endswith(".right_idx") and \
                    show(d.get("node", ("unk", ""))).endswith(".elem")
                skipped = any(ev[0] == "cond" and "is_some" in show(ev[2]) and ev[3] != "0" for ev in E.events)
                if ok and not skipped:
                    rep.ok("C18.iter", "second visit (%s): yields the recorded index, own child indices, counter + 1" % tag, None)
                else:
                    rep.violation("C18.iter", "second:yield:%s" % tag, "the yielding path returns %s with the counter left as %s%s" %
                                  (show(item)[:300], show(idx_final), " on a path where the tracker had already seen the node" if skipped else ""), f.where())
            elif back is not None:
                if idx_final[0] == "param":
                    rep.ok("C18.iter", "second visit (%s): an already yielded node is skipped without advancing the counter" % tag, None)
                else:
                    rep.violation("C18.iter", "second:skip:%s" % tag, "the skipping path changes the counter to %s" % show(idx_final), f.where())
        for tag, s in sorted(patch.items()):
            if len(s) != 1:
                rep.violation("C18.iter", "second:patch:%s" % tag, "tag %s patches %s" % (tag, sorted(s)), f.where())
        patch1 = {t: next(iter(s)) for t, s in patch.items() if len(s) == 1}
        rep.count("back_patch_tags", len(patch1))
        if len(patch1) < 3:
            undecided("C18.iter", "second-visit arms that patch the parent (found %s)" % sorted(patch1))
        # ---- first visit
        n1 = 0
        for E, back in (trips if len(patch1) >= 3 else []):
            if any(ev[0] == "call" and ev[2].endswith("::record") for ev in E.events):
                continue
            st = {}
            for ev in E.events:
                if ev[0] == "cond" and ev[2][0] == "discr":
                    sd = side_of(ev[2][1])
                    if sd and ev[3] in ("None", "Repeat", "New") and sd not in st:
                        st[sd] = ev[3]
            if "left" not in st:
                continue
            if st["left"] == "None":
                st["right"] = "None"      # DagLike contract: no left child, no right child (the code matches `_` there)
            n1 += 1
            key = "first:%s-%s" % (st.get("left"), st.get("right", "*"))
            pushes = [ev for ev in E.events if ev[0] == "call" and ev[2].endswith("::push")]
            bad = []
            if not pushes or side_of(pushes[0][3][1]) is not None or "pop" not in show(pushes[0][3][1]):
                bad.append("the popped item is not the first thing pushed back")
            # repeat children -> own field before the push of current
            for ev in E.events:
                if ev[0] == "store" and ev[2][1] and ev[2][1][-1] in (".left_idx", ".right_idx"):
                    sd = side_of(ev[3])
                    fld = ev[2][1][-1][1:-4]
                    if sd != fld or "Repeat" not in show(ev[3]):
                        bad.append("%s_idx is set to %s" % (fld, show(ev[3])[:120]))
                    if pushes and ev[1] > pushes[0][1]:
                        bad.append("%s_idx is set after the item was pushed back (the copy on the stack does not have it)" % fld)
            for sd in ("left", "right"):
                have = any(ev[0] == "store" and ev[2][1] and ev[2][1][-1] == ".%s_idx" % sd for ev in E.events)
                if st.get(sd) == "Repeat" and not have:
                    bad.append("the %s child was seen before but its index is not stored" % sd)
                if st.get(sd) != "Repeat" and have:
                    bad.append("%s_idx stored although the %s child is %s" % (sd, sd, st.get(sd)))
            # new children
            kids = []
            for ev in pushes[1:]:
                a = ev[3][1]
                if a[0] == "call" and a[1].endswith("::unprocessed") and len(a[2]) == 2:
                    tg = a[2][1][2] if a[2][1][0] == "adt" else None
                    kids.append((side_of(a[2][0]), tg))
                else:
                    bad.append("pushes %s" % show(a)[:100])
            for sd in ("left", "right"):
                cnt = sum(1 for k in kids if k[0] == sd)
                if st.get(sd) == "New" and cnt != 1:
                    bad.append("the new %s child is pushed %d times" % (sd, cnt))
                if st.get(sd) in ("None", "Repeat") and cnt:
                    bad.append("a %s child that is %s is pushed" % (sd, st.get(sd)))
            if st.get("left") == "None" and kids:
                pass
            for i, (sd, tg) in enumerate(kids):
                want = (i + 1, "%s_idx" % sd)      # distance from the parent once everything above it has been popped
                got = patch1.get(tg)
                if got != (i + 1 if False else want[0], want[1]) and got is not None:
                    bad.append("the %s child is pushed with tag %s, which patches slot len-%d field %s; it will sit at distance %d from its parent and is the %s child"
                               % (sd, tg, got[0], got[1], want[0], sd))
                if got is None:
                    bad.append("tag %s has no back-patching arm" % tg)
            if len(kids) == 2 and [k[0] for k in kids] != ["right", "left"]:
                bad.append("of two new children the left one must be pushed last (processed first)")
            if bad:
                rep.violation("C18.iter", key, "first visit with (left, right) = (%s, %s): %s" % (st.get("left"), st.get("right", "*"), "; ".join(sorted(set(bad)))), f.where())
            else:
                rep.ok("C18.iter", key, kids)
        if len(patch1) >= 3:
            rep.floor("C18.iter(first-visit trips)", n1, 7)
            rep.floor("C18.iter(second-visit trips)", n2, 8)

    # ------------------------------------------------------------------ trackers
    recs = [g for p, g in F.fns.items() if "simplicity::dag::SharingTracker<" in p and p.endswith(">::record")]
    n = 0
    for g in recs:
        who = g.path.split(" as ")[0].lstrip("<").rsplit("::", 1)[-1]
        sb = F.fns.get(g.path[:-len("record")] + "seen_before")
        names = [cs.name for cs in g.calls()]
        callees = [cs.callee for cs in g.calls()]
        n += 1
        if not names:
            rep.ok("C18.tracker", who + ": stateless", None)
            continue
        if names == ["record"]:
            E = [E for E in (PathEval(g, p) for p in pv.paths(g)) if E.ret is not None]
            a = [ev for ev in E[0].events if ev[0] == "call"][0][3] if E else ()
            if len(a) == 3 and show(a[2]) == E[0].pnames.get(3, "index") and sb is not None and [cs.name for cs in sb.calls()] == ["seen_before"]:
                rep.ok("C18.tracker", who + ": forwards (object, index)", None)
            else:
                rep.violation("C18.tracker", who + ":forward", "%s::record forwards %s" % (who, [show(x) for x in a]), g.where())
            continue
        over = [c for c in callees if c.endswith("HashMap::<K, V, S, A>::insert") or "OccupiedEntry" in c and c.endswith("::insert") or c.endswith("::and_modify")
                or c.endswith("::insert_entry")]
        guarded = any(nm in ("get", "contains_key") and "HashMap" in c for nm, c in zip(names, callees))
        if over and not ("HashMap::<K, V, S, A>::insert" in over[0] and guarded):
            rep.violation("C18.tracker", who + ":overwrite", "%s::record writes its map with %s: an entry that exists is overwritten, so a node recorded again "
                          "changes the index later parents are given (the first index must win)" % (who, over[0].rsplit("::", 2)[-2:]), g.where())
            continue
        ins = [cs for cs in g.calls() if cs.name == "insert"]
        okv = False
        for E in (PathEval(g, p) for p in pv.paths(g)):
            for ev in E.events:
                if ev[0] == "call" and ev[2].endswith("::insert") and show(ev[3][-1]) == E.pnames.get(3, "index"):
                    okv = True
        keyfn = lambda fn: sorted({cs.callee for cs in fn.calls() if cs.callee.startswith(("simplicity::", "<simplicity::")) and "Clone" not in cs.callee})
        constv = False
        for E in (PathEval(g, p) for p in pv.paths(g)):
            for ev in E.events:
                if ev[0] == "call" and ev[2].endswith("::insert") and ev[3] and ev[3][-1][0] == "int":
                    constv = True
                if ev[0] == "call" and ev[2].endswith("::insert") and ev[3] and ev[3][-1][0] == "param" and not ev[3][-1][2] and ev[3][-1][1] != E.pnames.get(1):
                    okv = okv or (len([q for q in E.pnames.values()]) >= 3 and ev[3][-1][1] == E.pnames.get(3))
        if constv:
            rep.violation("C18.tracker", who + ":value", "%s::record stores a constant, not the index it was given" % who, g.where())
        elif not ins or not okv:
            undecided("C18.tracker", "%s::record: the stored value could not be traced to the index parameter" % who)
        elif sb is None or keyfn(sb) != keyfn(g):
            def deep(fn):
                out = set(keyfn(fn))
                for c in F.closures_of(fn):
                    out |= set(keyfn(c))
                return sorted(out)
            if sb is not None and deep(sb) == deep(g):
                rep.ok("C18.tracker", who + ": first index wins; record and seen_before use the same key", deep(g))
            else:
                rep.violation("C18.tracker", who + ":key", "%s: record derives its key with %s, seen_before with %s" % (who, keyfn(g), keyfn(sb) if sb else None), g.where())
        else:
            rep.ok("C18.tracker", who + ": first index wins; record and seen_before use the same key", keyfn(g))
    rep.floor("C18.tracker", n, 8)

    # ------------------------------------------------------------------ mirror
    sw = F.fns.get("<simplicity::dag::SwapChildren<D> as simplicity::dag::DagLike>::as_dag_node")
    if sw is None:
        rep.anchor("C18.mirror", "SwapChildren::as_dag_node")
    else:
        seen = 0
        for E in (PathEval(sw, p) for p in pv.paths(sw)):
            r = E.ret
            if r is None or r[0] != "adt":
                continue
            if r[2] == "Binary":
                seen += 1
                s0, s1 = show(r[4][0]), show(r[4][1])
                if "@Binary.1" in s0 and "@Binary.0" in s1 and "@Binary.0" not in s0 and "@Binary.1" not in s1:
                    rep.ok("C18.mirror", "as_dag_node: binary children exchanged", None)
                else:
                    rep.violation("C18.mirror", "swap:binary", "SwapChildren::as_dag_node builds Binary(%s, %s): the two children are not exchanged" % (s0[:80], s1[:80]), sw.where())
            elif r[2] == "Unary":
                seen += 1
                if "@Unary.0" in show(r[4][0]):
                    rep.ok("C18.mirror", "as_dag_node: unary child kept", None)
                else:
                    rep.violation("C18.mirror", "swap:unary", "SwapChildren::as_dag_node builds Unary(%s)" % show(r[4][0])[:80], sw.where())
        if seen < 2:
            rep.anchor("C18.mirror", "SwapChildren::as_dag_node arms")
    un = [g for p, g in F.fns.items() if p.startswith("simplicity::dag::PostOrderIterItem") and g.name == "unswap"]
    if len(un) != 1:
        rep.anchor("C18.mirror", "PostOrderIterItem::unswap")
    else:
        g = un[0]
        nb = nn = 0
        for E in (PathEval(g, p) for p in pv.paths(g)):
            if E.ret is None or not E.feasible:
                continue
            swapped = any(ev[0] == "call" and ev[2].endswith("mem::swap") for ev in E.events)
            binary = None
            for ev in E.events:
                if ev[0] == "cond" and ev[2][0] == "discr" and any(s[0] == "call" and s[1].endswith("as_dag_node") for s in subexprs(ev[2])):
                    binary = ev[3] == "Binary"
                if ev[0] == "cond" and ev[2][0] != "discr" and binary is None and swapped is not None:
                    pass
            if binary is None:
                # matches! stores a bool first: look for the branch on it
                for ev in E.events:
                    if ev[0] == "cond" and ev[2] in (("int", 1), ("int", 0)):
                        binary = ev[2] == ("int", 1)
            if binary is None:
                rep.violation("C18.mirror", "unswap:guard", "unswap has a path on which the arity of the node is not examined (indices %s)"
                              % ("exchanged" if swapped else "kept"), g.where())
            elif binary != swapped:
                rep.violation("C18.mirror", "unswap:" + ("binary" if binary else "other"), "unswap %s the two child indices of a %s node" %
                              ("keeps" if binary else "exchanges", "binary" if binary else "non-binary"), g.where())
            else:
                nb += 1
                rep.ok("C18.mirror", "unswap: indices exchanged iff binary (%s)" % ("binary" if binary else "other"), None)
        if nb < 2:
            rep.anchor("C18.mirror", "unswap: a binary and a non-binary path")
    rtl = [g for p, g in F.fns.items() if p.startswith("simplicity::dag::DagLike::rtl_post_order_iter")]
    if not rtl:
        rep.anchor("C18.mirror", "DagLike::rtl_post_order_iter")
    else:
        g = rtl[0]
        txt = " ".join(show(ev[3][i]) for E in (PathEval(g, p) for p in pv.paths(g)) for ev in E.events if ev[0] == "call" for i in range(len(ev[3])))
        if "unswap" in txt and "SwapChildren" in txt:
            rep.ok("C18.mirror", "rtl_post_order_iter = post-order over SwapChildren, mapped through unswap", None)
        else:
            rep.violation("C18.mirror", "rtl", "rtl_post_order_iter does not wrap the root in SwapChildren and map unswap over the items", g.where())

    # ------------------------------------------------------------------ convert
    cv = [g for p, g in F.fns.items() if p.startswith("simplicity::node::Node::<N>::convert") and g.name == "convert"]
    if len(cv) != 1:
        rep.anchor("C18.convert", "Node::convert")
    else:
        g = cv[0]
        bodies = [g] + F.closures_of(g)
        POSITIONAL = {"last", "first", "last_mut", "first_mut", "split_last", "split_first", "iter", "rev", "len"}
        badc = []
        nidx = 0
        for b in bodies:
            for cs in b.calls():
                a0 = (cs.f.get("args") or [""])[0] if isinstance(cs.f.get("args"), list) else ""
                isvec = "Arc<simplicity::node::Node<M>>" in str(a0) and ("Vec<" in str(a0) or "[" in str(a0))
                if cs.name in ("index", "get") and isvec:
                    nidx += 1
                if cs.name in POSITIONAL and isvec:
                    badc.append((cs.name, cs.where()))
        for nm, wh in badc:
            rep.violation("C18.convert", "positional:" + nm, "Node::convert reads the vector of converted nodes with `%s`: children must be looked up by the indices the "
                          "iterator reported (a child yielded earlier is not the node converted last)" % nm, wh)
        if nidx >= 2 and not badc:
            rep.ok("C18.convert", "converted children are looked up by index only", nidx)
        elif nidx < 2:
            rep.anchor("C18.convert", "index look-ups into the vector of converted nodes (found %d)" % nidx)
        # which index field each closure captures
        sides = None
        disc = None
        for E in (PathEval(g, p) for p in pv.paths(g, backedges=True)[:400] for p in [p[0]]):
            for ev in E.events:
                if ev[0] == "call" and ev[2].endswith("::map_left_right") and sides is None:
                    sides = [show(a) for a in ev[3][1:3]]
                if ev[0] == "call" and ev[2].endswith("::map") and disc is None and "_index" in show(ev[3][0]) and len(ev[3]) == 2 and ev[3][1][0] == "closure":
                    disc = show(ev[3][0])
        if sides is None:
            undecided("C18.convert", "the closures that map the children's indices (no map_left_right call found)")
        elif "left_index" in sides[0] and "right_index" not in sides[0] and "right_index" in sides[1] and "left_index" not in sides[1]:
            rep.ok("C18.convert", "left closure captures left_index, right closure right_index", sides)
        else:
            rep.violation("C18.convert", "sides", "map_left_right is given %s: expected the left-child closure to use left_index and the right-child closure right_index"
                          % sides, g.where())
        if disc is None and sides is None:
            undecided("C18.convert", "where the converted disconnected child is looked up")
        elif disc and "right_index" in disc:
            rep.ok("C18.convert", "the disconnected child is looked up through right_index", disc)
        else:
            rep.violation("C18.convert", "disconnect", "the converted disconnected child is derived from %s; expected the item's right_index" % disc, g.where())
    return FINISH
