"""C14 — jet tables and foreign bindings match libsimplicity: exhaustive table comparison.

Finite sets, fully enumerated on every run (Rust tables read from MIR, C tables from the vendored sources / clang AST):
  C14.family   per family (Core, Elements, Bitcoin): ALL lists every variant once; encode table total; codes unique and
               prefix-free; decode tree leaves = {code(j) -> j} (decode(encode(j)) = j, every leaf is a jet's code);
               Display names unique; FromStr maps each name back to its jet; parse delegates to FromStr; type names
               are well-formed
  C14.elements for each Elements jet: Rust cmr = C .cmr, cost = C .cost, source/target types expand to the same type as C's
               sourceIx/targetIx (through primitiveInitTy), Rust code bits = family bit + C decode path (prefix-coded)
  C14.core     each Core jet has the types of its Elements namesake and Elements code = '0' + Core code
  C14.chain    jet ↔ C enumerator ↔ C .jet function ↔ c_jet_ptr arm ↔ jets_wrapper::name ↔ extern link name
               rustsimplicity_0_7_c_<name> ↔ C wrapper that calls rustsimplicity_0_7_<name> (no extras on either side)
  C14.typename TypeName::{to_final, tmr, to_bit_width} agree character by character
  C14.extern   every extern "C" fn declared in simplicity-sys: arity and each parameter's / the result's ABI type against
               the C prototype of its link name; #[repr(C)] enums against C enumerators
Core CMRs/costs are not compared with anything (the property excludes it; they are independently generated).
"""
import re
import os
import facts as fm
import jets
from facts import Terms, enum_switches, calls_in, show

FINISH = dict(level="proof", extra_cov={"exhaustive": True},
              explanation="Exhaustive comparison of finite tables: every row of every jet table on the Rust side (constants read "
                          "from MIR) against its sibling tables and against the vendored C tables/prototypes (clang AST and the "
                          "generated .inc data files); every extern declaration against the C prototype of its link name.",
              assumptions=["build target x86-64 Linux for ABI canonicalisation (uint_fast16_t/uint_fast32_t = 64-bit, size_t = 64-bit)",
                           "the .inc files parsed are the ones #included by primitive.c (row counts are cross-checked with clang's enum)"],
              trusted=["rustc nightly MIR constants (simp-facts driver)", "clang 14 AST (prototypes, enumerators, records)",
                       "regular-expression readers of the generated .inc data tables in engine/rules/jets.py"])

PREFIX = "rustsimplicity_0_7_"


def camel_to_c_enum(display):
    return display.upper()


PRIM = {
    "_Bool": ("bool",), "bool": ("bool",), "void": ("void",),
    "char": ("int", 8, True), "signed char": ("int", 8, True), "unsigned char": ("int", 8, False),
    "short": ("int", 16, True), "unsigned short": ("int", 16, False),
    "int": ("int", 32, True), "unsigned int": ("int", 32, False), "unsigned": ("int", 32, False),
    "long": ("int", 64, True), "unsigned long": ("int", 64, False),
    "long long": ("int", 64, True), "unsigned long long": ("int", 64, False),
    # <stdint.h>/<stddef.h> on x86-64 Linux (glibc)
    "size_t": ("int", 64, False), "uint_fast8_t": ("int", 8, False), "uint_fast16_t": ("int", 64, False),
    "uint_fast32_t": ("int", 64, False), "uint_fast64_t": ("int", 64, False), "uint_least32_t": ("int", 32, False),
    "uint8_t": ("int", 8, False), "uint16_t": ("int", 16, False), "uint32_t": ("int", 32, False), "uint64_t": ("int", 64, False),
    "int32_t": ("int", 32, True), "int64_t": ("int", 64, True),
    "int_fast8_t": ("int", 8, True), "int_fast16_t": ("int", 64, True), "int_fast32_t": ("int", 64, True), "int_fast64_t": ("int", 64, True),
}


def _split_top_const(t):
    """strip a top-level const of a non-pointer type or of the pointee"""
    t2 = re.sub(r"^const\s+|\s+const$", "", t.strip())
    return t2.strip(), t2.strip() != t.strip()


def c_type_canon(qt, C, depth=0):
    """C type string -> comparable ABI descriptor (x86-64 Linux)."""
    t = re.sub(r"\s+", " ", (qt or "").replace("restrict", "")).strip()
    m = re.fullmatch(r"(.*?)\(\*\)\((.*)\)", t)
    if m:
        params = [x.strip() for x in m.group(2).split(",")] if m.group(2).strip() not in ("", "void") else []
        return ("fnptr", tuple(c_type_canon(x, C, depth + 1) for x in params), c_type_canon(m.group(1), C, depth + 1))
    m = re.fullmatch(r"(.*?)\[(\d*)\]", t)
    if m:
        return ("array", c_type_canon(m.group(1), C, depth + 1), int(m.group(2)) if m.group(2) else None)
    if t.endswith("*") or t.endswith("* const"):
        t = re.sub(r"\* const$", "*", t)
        inner = t[:-1].strip()
        inner, is_const = _split_top_const(inner) if not inner.endswith("*") else (inner, False)
        return ("ptr", c_type_canon(inner, C, depth + 1), is_const)
    t, _ = _split_top_const(t)
    if t.startswith("enum "):
        return ("enum", t[5:])
    t = re.sub(r"^(struct|union) ", "", t)
    if t in PRIM:
        return PRIM[t]
    td = C["typedefs"].get(t)
    if td is not None and depth < 8:
        under = td.get("type") or ""
        if under.startswith("enum ") or under == t:
            return ("enum", t)
        if under.startswith(("struct ", "union ")):
            return ("adt", under.split(" ", 1)[1])
        if under != t:
            return c_type_canon(under, C, depth + 1)
    return ("adt", t)


# reviewed correspondence of #[repr(C)] type names to the C record/enum they mirror
STRUCT_MAP = {
    "CFrameItem": "frameItem", "CTxEnv": "txEnv", "CTransaction": "elementsTransaction", "CTapEnv": "elementsTapEnv",
    "CRawTransaction": "rawElementsTransaction", "CRawTapEnv": "rawElementsTapEnv", "CDagNode": "dag_node", "CType": "type",
    "CBitstream": "bitstream", "CBitstring": "bitstring", "CSha256Midstate": "sha256_midstate", "CAnalyses": "analyses",
    "CCombinatorCounters": "combinator_counters", "CUnificationVar": "unification_var",
    "CRawInput": "rawElementsInput", "CRawOutput": "rawElementsOutput", "CRawBuffer": "rawElementsBuffer",
}
ENUM_MAP = {"SimplicityErr": "simplicity_err", "CTag": "tag_t", "CTypeName": "typeName"}


def rust_abi_canon(a):
    k = a["k"]
    if k == "bool":
        return ("bool",)
    if k == "int":
        return ("int", a["bits"], a["signed"])
    if k == "void":
        return ("void",)
    if k == "ptr":
        return ("ptr", rust_abi_canon(a["to"]), not a["mut"])
    if k == "adt":
        nm = a["name"]
        if nm == "c_void":
            return ("void",)
        if nm in ENUM_MAP:
            return ("enum", ENUM_MAP[nm])
        return ("adt", STRUCT_MAP.get(nm, "?" + nm))
    if k == "array":
        return ("array", rust_abi_canon(a["of"]), a.get("len"))
    if k == "fnptr":
        if "inputs" not in a:
            return ("fnptr", None, None)
        return ("fnptr", tuple(rust_abi_canon(x) for x in a["inputs"]), rust_abi_canon(a["output"]))
    return ("other", a.get("name") or k)


def abi_compatible(r, c, notes, ctx):
    """None if the Rust ABI type `r` is the C type `c` for the calling convention, else a message."""
    if r[0] == "ptr" and c[0] == "ptr":
        if r[2] and not c[2]:
            notes.append("%s: Rust passes *const where C takes a pointer to non-const" % ctx)
        if r[1] == ("void",) or c[1] == ("void",):
            return None   # c_void stands for an opaque pointee
        if r[1][0] == "int" and c[1][0] == "int" and r[1][1] != c[1][1]:
            # byte-level views (e.g. *const u8 for uint_fast16_t*) are reviewed in REVIEWED_POINTEE
            return ("pointee-width", r[1][1], c[1][1])
        return abi_compatible(r[1], c[1], notes, ctx)
    if r[0] != c[0]:
        if r[0] == "int" and c[0] == "enum" and r[1] == 32:
            return None
        return "%s vs C %s" % (r, c)
    if r[0] == "fnptr":
        if r[1] is None or c[1] is None:
            return "function pointer signature not extracted"
        if len(r[1]) != len(c[1]):
            return "callback arity %d vs C %d" % (len(r[1]), len(c[1]))
        for k, (a, b) in enumerate(zip(r[1], c[1])):
            m = abi_compatible(a, b, notes, ctx + " callback arg %d" % k)
            if m:
                return "callback parameter %d: %s" % (k, m if not isinstance(m, tuple) else "pointee width %d vs C %d" % m[1:])
        m = abi_compatible(r[2], c[2], notes, ctx + " callback result")
        return None if not m else "callback result: %s" % (m if not isinstance(m, tuple) else "pointee width %d vs C %d" % m[1:])
    if r[0] == "array":
        m = abi_compatible(r[1], c[1], notes, ctx + " element")
        if m:
            return "array element: %s" % (m,)
        if c[2] is None or r[2] is None or r[2] > c[2]:
            return "array length %s vs C %s" % (r[2], c[2])
        if r[2] < c[2]:
            notes.append("%s: Rust views %d of C's %d elements" % (ctx, r[2], c[2]))
        return None
    if r[0] == "adt":
        return None if r[1] == c[1] else "struct %s vs C %s" % (r[1], c[1])
    if r[0] == "enum":
        return None if r[1] == c[1] else "enum %s vs C %s" % (r[1], c[1])
    if r[0] == "int":
        if r[1] != c[1]:
            return "integer width %d vs C %d" % (r[1], c[1])
        if r[2] != c[2]:
            return "signedness differs from C"
        return None
    return None


# extern parameters whose Rust pointee width differs from C on purpose: (link name, parameter index) -> reason
REVIEWED_POINTEE = {}


def run(ctx, rep):
    F = ctx.facts("full")
    rep.rule("C14.family", "per family: ALL complete, codes unique/prefix-free, decode∘encode = id, names ↔ FromStr bijection, type names well-formed")
    rep.rule("C14.elements", "per Elements jet: cmr, cost, source/target type and code equal the C tables")
    rep.rule("C14.core", "per Core jet: same types as its Elements namesake, Elements code = 0 + Core code")
    rep.rule("C14.chain", "jet ↔ C enumerator ↔ C function ↔ c_jet_ptr ↔ jets_wrapper ↔ extern link name ↔ C wrapper")
    rep.rule("C14.typename", "the three TypeName interpreters agree on every character")
    rep.rule("C14.layout", "each #[repr(C)] mirror of a C record has its field offsets, sizes and classes (x86-64 SysV)")
    rep.rule("C14.static", "each extern static has the type of the C object it binds")
    rep.rule("C14.extern", "each extern \"C\" declaration has the arity and ABI types of the C function it binds")

    tabs = {}
    for fam in jets.FAMILIES:
        try:
            tabs[fam] = jets.rust_tables(F, fam)
        except jets.TableError as e:
            rep.anchor("C14.family", "%s tables: %s" % (fam, e))
    # ------------------------------------------------------------------ per family
    for fam, T in tabs.items():
        vs = T["variants"]
        n = len(vs)
        rep.count("jets_" + fam, n)
        dup_all = [v for v in set(T["ALL"]) if T["ALL"].count(v) > 1]
        if set(T["ALL"]) != set(vs) or dup_all or len(T["ALL"]) != n:
            rep.violation("C14.family", fam + ":ALL", "%s::ALL lists %d entries for %d variants (missing %s, duplicated %s)"
                          % (fam, len(T["ALL"]), n, sorted(set(vs) - set(T["ALL"]))[:5], dup_all[:5]))
        else:
            rep.ok("C14.family", fam + ":ALL", "%d variants, each once" % n)
        codes = {}
        bad = 0
        for v in vs:
            c = T["code"].get(v)
            if c is None:
                rep.violation("C14.family", "%s:%s:code" % (fam, v), "no encode row for %s::%s" % (fam, v))
                bad += 1
                continue
            val, ln = c
            if val >= (1 << ln):
                rep.violation("C14.family", "%s:%s:code" % (fam, v), "code value %d does not fit in %d bits" % (val, ln))
                bad += 1
                continue
            codes[v] = format(val, "0%db" % ln)
        by_code = {}
        for v, c in codes.items():
            by_code.setdefault(c, []).append(v)
        for c, vv in by_code.items():
            if len(vv) > 1:
                rep.violation("C14.family", "%s:dupcode:%s" % (fam, "+".join(sorted(vv))), "%s share the code %s: encode then decode cannot return both" % (sorted(vv), c))
                bad += 1
        sc = sorted(by_code)
        for i in range(len(sc) - 1):
            if sc[i + 1].startswith(sc[i]):
                rep.violation("C14.family", "%s:prefix:%s" % (fam, by_code[sc[i]][0]), "code of %s (%s) is a prefix of the code of %s (%s)"
                              % (by_code[sc[i]], sc[i], by_code[sc[i + 1]], sc[i + 1]))
                bad += 1
        # decode tree
        dec = T["decode"]
        for v, c in codes.items():
            got = dec.get(c)
            if got != [v]:
                rep.violation("C14.family", "%s:%s:roundtrip" % (fam, v), "encode(%s) = %s but decoding %s yields %s" % (v, c, c, got or "InvalidJet"))
                bad += 1
            else:
                rep.ok("C14.family", "%s:%s" % (fam, v), "%s ⇄ %s" % (c, T["name"].get(v)))
        for c, got in dec.items():
            for g in got:
                if codes.get(g) != c:
                    rep.violation("C14.family", "%s:leaf:%s" % (fam, g), "the decoder yields %s on %s, which is not the code of that jet (%s)" % (g, c, codes.get(g)))
                    bad += 1
        # names
        names = T["name"]
        inv = {}
        for v in vs:
            nm = names.get(v)
            if not nm:
                rep.violation("C14.family", "%s:%s:name" % (fam, v), "no Display string")
                continue
            inv.setdefault(nm, []).append(v)
            back = T["parse"].get(nm)
            if back != v:
                rep.violation("C14.family", "%s:%s:parse" % (fam, v), "the name `%s` of %s parses back to %s" % (nm, v, back))
            if not re.fullmatch(r"[a-z0-9_]+", nm):
                rep.violation("C14.family", "%s:%s:namechars" % (fam, v), "name `%s` is not matched by the lexer's jet_[a-z0-9_]+" % nm)
        for nm, vv in inv.items():
            if len(vv) > 1:
                rep.violation("C14.family", "%s:dupname:%s" % (fam, nm), "%s share the name %s" % (vv, nm))
        extra = set(T["parse"]) - set(inv)
        for nm in sorted(extra):
            rep.violation("C14.family", "%s:parse-extra:%s" % (fam, nm), "FromStr accepts `%s` (→ %s), which is no jet's name" % (nm, T["parse"][nm]))
        if not T["parse_delegates"]:
            rep.violation("C14.family", fam + ":parse", "Jet::parse does not delegate to FromStr")
        else:
            rep.ok("C14.family", fam + ":parse delegates to FromStr", None)
        for v in vs:
            for side in ("source_ty", "target_ty"):
                s = T[side].get(v)
                if s is None or jets.rust_expand_type(s) is None:
                    rep.violation("C14.family", "%s:%s:%s" % (fam, v, side), "type name %r is not a well-formed prefix expression over 1 2 c s i l h + *" % s)

    # ------------------------------------------------------------------ Elements vs C
    import cside
    try:
        C = cside.cfacts()
    except Exception as e:
        rep.anchor("C14.elements", "clang AST of the vendored C: %s" % e)
        return FINISH
    cn = jets.c_jet_nodes()
    ctys = jets.c_type_table()
    enum_jets = [e for e, v in C["enums"].get("jetName", []) if e != "NUMBER_OF_JET_NAMES"]
    rep.count("c_jet_enumerators", len(enum_jets))
    rep.count("c_jet_table_rows", len(cn))
    if not enum_jets:
        rep.anchor("C14.elements", "C enum jetName")
    if set(enum_jets) != set(cn):
        rep.violation("C14.elements", "c-table-rows", "primitiveJetNode.inc has %d rows for %d enumerators (missing %s, extra %s)"
                      % (len(cn), len(enum_jets), sorted(set(enum_jets) - set(cn))[:4], sorted(set(cn) - set(enum_jets))[:4]))
    ty_enum = dict(C["enums"].get("TypeNamesForJets", []))
    if ty_enum and set(ctys) != set(ty_enum) - {"NumberOfTypeNames"}:
        rep.violation("C14.elements", "c-type-rows", "primitiveInitTy.inc binds %d type names, the enum has %d" % (len(ctys), len(ty_enum) - 1))
    core_dec = jets.c_decode_tree(os.path.join(jets.SYS, "depend/simplicity/decodeCoreJets.inc"))
    elem_dec = jets.c_decode_tree(os.path.join(jets.SYS, "depend/simplicity/elements/decodeElementsJets.inc"))
    c_code = {}
    for e, path in core_dec.items():
        c_code[e] = "0" + "".join(jets.prefix_code(k) for k in path)
    for e, path in elem_dec.items():
        if e in c_code:
            rep.violation("C14.elements", "c-decode-dup:" + e, "%s is decoded in both families" % e)
        c_code[e] = "1" + "".join(jets.prefix_code(k) for k in path)
    if set(c_code) != set(enum_jets) and enum_jets:
        rep.violation("C14.elements", "c-decode-rows", "the C decode tables yield %d jets, the enum has %d (missing %s)"
                      % (len(c_code), len(enum_jets), sorted(set(enum_jets) - set(c_code))[:4]))
    E = tabs.get("Elements")
    if E:
        memo = {}
        seen_c = set()
        for v in E["variants"]:
            nm = E["name"].get(v)
            if not nm:
                continue
            ce = camel_to_c_enum(nm)
            row = cn.get(ce)
            if row is None:
                rep.violation("C14.elements", v + ":missing", "Elements::%s (`%s`) has no row %s in the C jet table" % (v, nm, ce))
                continue
            seen_c.add(ce)
            probs = []
            if E["cmr"] and E["cmr"].get(v) != row.get("cmr_hex"):
                probs.append("cmr %s… vs C %s…" % ((E["cmr"].get(v) or "")[:16], (row.get("cmr_hex") or "")[:16]))
            if E["cost"] and E["cost"].get(v) != row.get("cost"):
                probs.append("cost %s vs C %s" % (E["cost"].get(v), row.get("cost")))
            for side, cfield in (("source_ty", "sourceIx"), ("target_ty", "targetIx")):
                rs = jets.rust_expand_type(E[side].get(v) or "")
                try:
                    cs_ = jets.c_expand_type(ctys, row.get(cfield), memo)
                except Exception:
                    cs_ = None
                if rs is None or rs != cs_:
                    probs.append("%s `%s` is not C's %s" % (side, E[side].get(v), row.get(cfield)))
            rc = E["code"].get(v)
            rbits = format(rc[0], "0%db" % rc[1]) if rc else None
            if rbits != c_code.get(ce):
                probs.append("code %s vs C %s" % (rbits, c_code.get(ce)))
            if row.get("jet") != PREFIX + nm:
                probs.append("C .jet is %s, expected %s%s" % (row.get("jet"), PREFIX, nm))
            if probs:
                rep.violation("C14.elements", v, "Elements::%s differs from libsimplicity: %s" % (v, "; ".join(probs)))
            else:
                rep.ok("C14.elements", v, "cmr, cost, types, code = C row " + ce)
        for ce in sorted(set(cn) - seen_c):
            rep.violation("C14.elements", "c-extra:" + ce, "C jet %s has no Elements counterpart on the Rust side" % ce)
        rep.floor("C14.elements", rep.instances("C14.elements"), 471)
    # ------------------------------------------------------------------ Core vs Elements
    Co = tabs.get("Core")
    if Co and E:
        for v in Co["variants"]:
            if v not in E["name"]:
                rep.violation("C14.core", v + ":namesake", "Core::%s has no Elements namesake" % v)
                continue
            probs = []
            for side in ("source_ty", "target_ty"):
                if jets.rust_expand_type(Co[side].get(v) or "") != jets.rust_expand_type(E[side].get(v) or ""):
                    probs.append("%s `%s` vs Elements `%s`" % (side, Co[side].get(v), E[side].get(v)))
            cc, ec = Co["code"].get(v), E["code"].get(v)
            cb = format(cc[0], "0%db" % cc[1]) if cc else None
            eb = format(ec[0], "0%db" % ec[1]) if ec else None
            if eb != "0" + (cb or ""):
                probs.append("Elements code %s is not 0 + Core code %s" % (eb, cb))
            if Co["name"].get(v) != E["name"].get(v):
                probs.append("name %s vs %s" % (Co["name"].get(v), E["name"].get(v)))
            if probs:
                rep.violation("C14.core", v, "Core::%s: %s" % (v, "; ".join(probs)))
            else:
                rep.ok("C14.core", v, None)
        rep.floor("C14.core", rep.instances("C14.core"), 368)

    # ------------------------------------------------------------------ chain
    ffi = {f["name"]: f for f in F.foreign if f["kind"] == "Fn" and f["path"].startswith("simplicity_sys::c_jets::jets_ffi::")}
    wrappers = {f.name: f for f in F.fns.values() if f.path.startswith("simplicity_sys::c_jets::jets_wrapper::")}
    rep.count("jet_externs", len(ffi))
    rep.count("jet_wrappers", len(wrappers))
    for fam in ("Core", "Elements"):
        T = tabs.get(fam)
        if not T or not T.get("cptr"):
            if T:
                rep.anchor("C14.chain", "%s c_jet_ptr table" % fam)
            continue
        for v in T["variants"]:
            nm = T["name"].get(v)
            p = T["cptr"].get(v)
            want = "simplicity_sys::c_jets::jets_wrapper::" + (nm or "?")
            probs = []
            if p != want:
                probs.append("c_jet_ptr returns %s, expected %s" % (p, want))
            w = wrappers.get(nm)
            if w is None:
                probs.append("no jets_wrapper::%s" % nm)
            else:
                callees = [cs for cs in w.calls() if cs.f.get("foreign")]
                if len(callees) != 1 or callees[0].name != nm:
                    probs.append("jets_wrapper::%s calls %s" % (nm, [c.name for c in callees]))
                else:
                    Tw = Terms(w)
                    cs = callees[0]
                    r0 = {x[1] for x in fm.leaves(Tw.operand(cs.args[0])) if x[0] in ("param", "parampath")}
                    r1 = {x[1] for x in fm.leaves(Tw.operand(cs.args[1])) if x[0] in ("param", "parampath")}
                    if r0 != {1} or r1 != {2}:
                        probs.append("jets_wrapper::%s passes (dst, src) from parameters %s, %s" % (nm, sorted(r0), sorted(r1)))
            e = ffi.get(nm)
            if e is None:
                probs.append("no extern jets_ffi::%s" % nm)
            elif e["link_name"] != PREFIX + "c_" + nm:
                probs.append("extern %s links to %s" % (nm, e["link_name"]))
            cw = C["funcs"].get(PREFIX + "c_" + nm)
            if cw is None or not cw.get("defined"):
                probs.append("C wrapper %sc_%s is not defined" % (PREFIX, nm))
            elif (PREFIX + nm) not in (cw.get("calls") or []):
                probs.append("C wrapper %sc_%s calls %s" % (PREFIX, nm, [c for c in cw.get("calls", []) if c.startswith(PREFIX)]))
            if probs:
                rep.violation("C14.chain", "%s:%s" % (fam, v), "%s::%s: %s" % (fam, v, "; ".join(probs)))
            else:
                rep.ok("C14.chain", "%s:%s" % (fam, v), "→ jets_wrapper::%s → %sc_%s → %s%s" % (nm, PREFIX, nm, PREFIX, nm))
    if E:
        names = set(E["name"].values())
        for nm in sorted(set(ffi) - names):
            rep.violation("C14.chain", "extern-extra:" + nm, "extern jets_ffi::%s is no Elements jet" % nm)
        for nm in sorted(set(wrappers) - names):
            rep.violation("C14.chain", "wrapper-extra:" + nm, "jets_wrapper::%s is no Elements jet" % nm)
    rep.floor("C14.chain", rep.instances("C14.chain"), 839)

    # ------------------------------------------------------------------ TypeName
    tn = {}
    for nm in ("to_final", "tmr", "to_bit_width"):
        f = F.fn("simplicity::jet::type_name::TypeName::" + nm)
        if f is None:
            rep.anchor("C14.typename", "TypeName::" + nm)
            continue
        T = Terms(f)
        table = {}
        for b in f.rpo():
            t = f.blocks[b]["t"]
            if t["k"] == "switch" and len(t["targets"]) >= 7:
                for val, tgt in t["targets"]:
                    ch = chr(int(val))
                    reg = f.dominated_by(tgt)
                    item = None
                    has_table = False
                    idx = None
                    for bb in sorted(reg):
                        for s in f.blocks[bb]["s"]:
                            if s[0] != "=" or s[2].get("k") != "use":
                                continue
                            a = s[2]["a"]
                            if a.get("k") == "const" and str(a.get("item", "")).endswith("TWO_TWO_N"):
                                has_table = True
                            elif a.get("k") == "const" and "int" in a and a.get("ty") == "usize" and idx is None:
                                idx = a["int"]
                    for cs in f.calls(reg):
                        if cs.name == "two_two_n_fixed":
                            item = ("pow", int((cs.f.get("args") or ["-1"])[-1]))
                        elif cs.name == "unit":
                            item = ("unit",)
                        elif cs.name == "push" and len(cs.args) == 2 and cs.args[1].get("k") == "const" and "int" in cs.args[1]:
                            item = ("width", cs.args[1]["int"])
                        elif cs.name in ("sum", "product", "max") and item is None:
                            item = ("op",)
                    if item is None and has_table and idx is not None:
                        item = ("pow", idx)
                    table[ch] = item
            if table:
                break
        tn[nm] = table
    if len(tn) == 3:
        chars = sorted(set().union(*[set(t) for t in tn.values()]))
        for ch in chars:
            a, b, c = tn["to_final"].get(ch), tn["tmr"].get(ch), tn["to_bit_width"].get(ch)
            if ch in "+*":
                okk = a == b == c == ("op",)
            elif a == ("unit",):
                okk = b == ("unit",) and c == ("width", 0)
            else:
                okk = a is not None and a[0] == "pow" and b == a and c == ("width", 2 ** a[1])
            # the expansion used for the comparison with C (jets.rust_expand_type) must read the character the same way
            mine = jets.rust_expand_type(ch) if ch not in "+*" else None
            if okk and ch not in "+*":
                want = "1" if a == ("unit",) else jets.rust_expand_type("2") if a[1] == 0 else None
                if a != ("unit",) and a[1] > 0:
                    want = jets.rust_expand_type("2")
                    for _ in range(a[1]):
                        want = "*" + want + want
                okk = mine == want
            if okk:
                rep.ok("C14.typename", "char " + repr(ch), {"to_final": a, "tmr": b, "to_bit_width": c})
            else:
                rep.violation("C14.typename", "char " + repr(ch), "TypeName interpreters disagree on %r: to_final %s, tmr %s, to_bit_width %s" % (ch, a, b, c))
        # the combination rules: a sum is one tag bit more than its wider summand, a product the sum of its components
        # (the same formulas as Final::sum / Final::product, which C03.width compares with C); the operand order of
        # sum/product in to_final and tmr is (first popped, second popped) = (left, right)
        import expr as ex
        fw = F.fn("simplicity::jet::type_name::TypeName::to_bit_width")
        if fw is not None:
            fw = F.inlined(fw, ("pop", "push", "max"))
            Tw = Terms(fw)
            Tw.site_names = {"pop"}
            forms = set()
            for cs in fw.calls():
                if cs.name == "push" and fw.in_loop(cs.bb) and len(cs.args) == 2:
                    t = Tw.operand(cs.args[1])
                    if isinstance(t, tuple) and t[0] == "int":
                        continue
                    def by_site(x):
                        if isinstance(x, tuple) and x and x[0] == "call" and x[2] in ("pop", "expect", "unwrap") and len(x) > 6 and x[2] == "pop":
                            return ("param", 1000 + x[6][1], "pop@%d" % x[6][1])
                        if isinstance(x, tuple):
                            return tuple(by_site(y) if isinstance(y, tuple) else y for y in x)
                        return x
                    mp = ex.norm(by_site(t))
                    pops = sorted({a for (_, atoms) in mp.terms for a in atoms})
                    ren = {a: "x%d" % i for i, a in enumerate(pops)}
                    forms.add(frozenset((c, tuple(sorted(ren[a] for a in atoms))) for (c, atoms) in mp.terms))
            want = {frozenset({(1, ("x0",)), (1, ("x1",))}), frozenset({(0, ("x0", "x1"))})}
            if forms == want:
                rep.ok("C14.typename", "to_bit_width: sum = 1 + max(l, r), product = l + r", None)
            else:
                rep.violation("C14.typename", "to_bit_width:combine", "TypeName::to_bit_width combines widths as %s; a sum is 1 + max(l, r) and a product l + r "
                              "(exec_jet sizes the C jet's frames from this)" % sorted(sorted(f_) for f_ in forms), fw.where())
        for nm in ("to_final", "tmr"):
            f = F.fn("simplicity::jet::type_name::TypeName::" + nm)
            if f is None:
                continue
            f = F.inlined(f, ("pop", "push", "sum", "product"))   # a private helper popping both operands is spliced in
            Tf = Terms(f)
            Tf.site_names = {"pop"}
            for cs in f.calls():
                if cs.name in ("sum", "product") and len(cs.args) == 2 and f.in_loop(cs.bb):
                    sites = []
                    for a in cs.args:
                        ss = [c[6][1] for c in calls_in(Tf.operand(a)) if c[2] == "pop" and len(c) > 6]
                        sites.append(ss[0] if len(ss) == 1 else None)
                    pops = [b for b in f.rpo() if f.blocks[b]["t"]["k"] == "call" and f.blocks[b]["t"]["f"].get("name") == "pop" and f.dominates(b, cs.bb)]
                    order = [b for b in f.rpo() if b in sites]
                    # first argument = the value popped first (left), second = popped second (right)
                    if None not in sites and sites[0] != sites[1] and f.dominates(sites[0], sites[1]):
                        rep.ok("C14.typename", "%s: %s(left, right)" % (nm, cs.name), None)
                    else:
                        rep.violation("C14.typename", "%s:%s:order" % (nm, cs.name), "TypeName::%s builds %s with its operands not in (left, right) order" % (nm, cs.name), cs.where())
        rep.floor("C14.typename", rep.instances("C14.typename"), 14)

    # ------------------------------------------------------------------ externs
    n_ext = 0
    advisory = set()
    for e in sorted(F.foreign, key=lambda x: x["path"]):
        if e["kind"] != "Fn":
            continue
        n_ext += 1
        ln = e["link_name"]
        c = C["funcs"].get(ln)
        key = ln
        if c is None:
            if ln.startswith(("c_", "rustsimplicity")):
                rep.violation("C14.extern", key + ":missing", "extern %s binds %s, which no compiled C file declares" % (e["path"], ln), "%s:%s" % tuple(e["span"][:2]))
            else:
                rep.note("extern %s (%s) is not part of the vendored C" % (e["path"], ln))
            continue
        notes = []
        probs = []   # (aspect, message)
        if len(e["inputs"]) != len(c["params"]):
            probs.append(("arity", "arity %d, C has %d" % (len(e["inputs"]), len(c["params"]))))
        else:
            for k, (ra, cp) in enumerate(zip(e["inputs"], c["params"])):
                m = abi_compatible(rust_abi_canon(ra), c_type_canon(cp["type"], C), notes, "%s arg %d" % (ln, k))
                if isinstance(m, tuple):
                    if (ln, k) in REVIEWED_POINTEE:
                        rep.note("%s parameter %d: pointee width %d vs C %d — reviewed: %s" % (ln, k, m[1], m[2], REVIEWED_POINTEE[(ln, k)]))
                        m = None
                    else:
                        m = "pointee width %d vs C %d" % (m[1], m[2])
                if m:
                    probs.append(("param%d" % k, "parameter %d (%s %s): %s" % (k, cp["type"], cp.get("name"), m)))
        m = abi_compatible(rust_abi_canon(e["output"]), c_type_canon(c["ret"], C), notes, ln + " result")
        if isinstance(m, tuple):
            m = "pointee width %d vs C %d" % (m[1], m[2])
        if m:
            probs.append(("result", "result (%s): %s" % (c["ret"], m)))
        if bool(e.get("c_variadic")) != bool(c.get("variadic")):
            probs.append(("variadic", "variadic %s vs C %s" % (e.get("c_variadic"), c.get("variadic"))))
        for nt in notes:
            advisory.add(nt)
        for aspect, msg in probs:
            rep.violation("C14.extern", "%s:%s" % (key, aspect), "extern %s does not match `%s`: %s" % (e["path"], c.get("qual"), msg), "%s:%s" % tuple(e["span"][:2]))
        if not probs:
            rep.ok("C14.extern", key, c.get("qual"))
    rep.count("extern_fns", n_ext)
    # extern statics against the C definitions
    cvars = {}
    for v in C["vars"]:
        if v.get("func") is None:
            cvars.setdefault(v["name"], []).append(v)
    n_st = 0
    for e in sorted(F.foreign, key=lambda x: x["path"]):
        if e["kind"] == "Fn":
            continue
        n_st += 1
        ln = e["link_name"]
        cands = cvars.get(ln) or []
        defs = [v for v in cands if v.get("init")] or cands
        if not defs:
            rep.violation("C14.static", ln + ":missing", "extern static %s binds %s, which no compiled C file defines" % (e["path"], ln), "%s:%s" % tuple(e["span"][:2]))
            continue
        notes = []
        m = abi_compatible(rust_abi_canon(e["ty"]), c_type_canon(defs[0]["type"], C), notes, ln)
        if isinstance(m, tuple):
            m = "width %d vs C %d" % m[1:]
        if not m and e.get("mutable") and defs[0].get("const"):
            m = "declared `static mut` but C defines it const"
        for nt in notes:
            advisory.add(nt)
        if m:
            rep.violation("C14.static", ln, "extern static %s does not have the type of C's `%s %s`: %s" % (e["path"], defs[0]["type"], ln, m), "%s:%s" % tuple(e["span"][:2]))
        else:
            rep.ok("C14.static", ln, defs[0]["type"])
    rep.count("extern_statics", n_st)
    rep.floor("C14.static", n_st, 91)
    rep.floor("C14.extern", n_ext, 497)
    # layouts of the mirrored #[repr(C)] types
    import layout
    rl, cl = layout.RLayout(F), layout.CLayout(C)
    by_name = {}
    for pth, a in F.adts.items():
        if pth.startswith("simplicity_sys::"):
            by_name.setdefault(pth.rsplit("::", 1)[1], []).append(pth)
    work = []
    for rn, cnm in sorted(STRUCT_MAP.items()):
        ps = by_name.get(rn) or []
        if len(ps) != 1:
            rep.anchor("C14.layout", "#[repr(C)] type %s (%d candidates)" % (rn, len(ps)))
            continue
        work.append((ps[0], cnm))
    done = set()
    while work:
        rp, cnm = work.pop(0)
        if (rp, cnm) in done:
            continue
        done.add((rp, cnm))
        try:
            d = layout.compare(rl, cl, rp, cnm)
            work.extend(layout.nested_pairs(rl, cl, rp, cnm))
        except layout.LayoutError as ex:
            rep.violation("C14.layout", rp.rsplit("::", 1)[1] + ":unreadable", "layout of %s / C %s could not be computed: %s" % (rp, cnm, ex))
            continue
        nm = rp.rsplit("::", 1)[1]
        if d is None:
            rep.note("%s is an opaque handle for C's %s (zero-sized placeholder; only used behind pointers)" % (nm, cnm))
        elif d:
            rep.violation("C14.layout", nm, "#[repr(C)] %s does not have the layout of C's %s: %s" % (rp, cnm, "; ".join(d[:4])))
        elif layout.name_swaps(rl, cl, rp, cnm):
            sw = layout.name_swaps(rl, cl, rp, cnm)[0]
            rep.violation("C14.layout", nm + ":order", "#[repr(C)] %s: same-typed fields `%s` and `%s` sit where C's %s has `%s` and `%s` — exchanged order"
                          % (rp, sw[0], sw[2], cnm, sw[1], sw[3]))
        else:
            rep.ok("C14.layout", nm, "= C %s (%d bytes)" % (cnm, rl.adt(rp)[0]))
    rep.floor("C14.layout", rep.instances("C14.layout"), 15)
    for nt in sorted(advisory)[:12]:
        rep.note(nt)
    # repr(C) enums against C enumerators (the enum is located by one of its enumerators: simplicity_err is anonymous)
    def c_enum_with(enumerator):
        for nm, vals in C["enums"].items():
            if any(e == enumerator for e, _ in vals):
                return nm, vals
        return None, None
    for rust_path, probe in (("simplicity_sys::tests::ffi::SimplicityErr", "SIMPLICITY_NO_ERROR"),
                             ("simplicity_sys::tests::ffi::dag::CTag", "COMP"),
                             ("simplicity_sys::tests::ffi::ty::CTypeName", "ONE")):
        a = F.adts.get(rust_path)
        cname, cvals = c_enum_with(probe)
        if a is None or not cvals:
            rep.anchor("C14.extern", "enum pair %s / C enum with %s" % (rust_path, probe))
            continue
        def sgn(x):
            x = int(x)
            return x - 2 ** 64 if x >= 2 ** 63 else (x - 2 ** 32 if 2 ** 31 <= x < 2 ** 32 else x)
        rv = {v["name"]: sgn(v["discr"]) for v in a["variants"]}
        cv = {}
        for en, val in cvals:
            cv.setdefault(val, []).append(en)
        def norm(s):
            return re.sub(r"[^a-z0-9]", "", re.sub(r"^SIMPLICITY_(ERR_)?", "", s).lower())
        bad = []
        for vn, d in rv.items():
            names = cv.get(d)
            if not names:
                bad.append("%s = %d is not a value of the C enum" % (vn, d))
            elif norm(vn) not in [norm(x) for x in names]:
                rep.note("%s::%s = %d is named %s in C (names are not part of the ABI)" % (rust_path.rsplit("::", 1)[1], vn, d, "/".join(names)))
        missing = [en for val, ens in cv.items() if val not in rv.values() for en in ens]
        if missing:
            bad.append("C enumerators without a Rust variant (a C return value would be an invalid enum): %s" % missing[:6])
        if bad:
            rep.violation("C14.extern", "enum:" + rust_path.rsplit("::", 1)[1], "%s vs C %s: %s" % (rust_path, cname, "; ".join(bad)))
        else:
            rep.ok("C14.extern", "enum:" + rust_path.rsplit("::", 1)[1], "%d variants = C's %d enumerators (value and name)" % (len(rv), len(cvals)))
    return FINISH
