"""C12 — redemption programs only ever carry well-typed witnesses.

Typestate rule over the producers of witness values for Redeem nodes:
  C12.check    every Converter<_, Redeem>::convert_witness returns, on each Ok path, a value that is either
               produced by a type-directed source applied to the finalised target type of the same node
               (Value::from_compact_bits/from_padded_bits/zero/prune(.., ty)) or an incoming value guarded by a
               successful is_of_type(ty) test (SimpleFinalizer is excluded by the property and only listed)
  C12.callers  RedeemData::new is only called from Converter<_, Redeem>::convert_data implementations and is
               handed the `inner` it was given (so the witness it stores is the one convert_witness returned)
  C12.nopanic  on those routes a failed type test reaches an Err, not expect/unwrap: `prune(..).expect(..)` in
               the pruning finaliser is acceptable only while every route into RedeemNode satisfies C12.check
  C12.routes   the public routes named by the property reach RedeemNode only through those producers
               (finalize_unpruned, prune_with_tracker, RedeemNode::decode; human-readable map via to_witness_node
               then finalize_unpruned)
"""
import facts as fm
from facts import Terms, show, leaves, calls_in
import vcc
import roles

CONVERTER = "simplicity::node::convert::Converter"
REDEEM = "simplicity::node::redeem::Redeem"
VALUE = "simplicity::value::Value::"
TYPE_DIRECTED = {"from_compact_bits": 1, "from_padded_bits": 1, "zero": 0, "prune": 1}
EXCLUDED = {"simplicity::node::convert::SimpleFinalizer<W>": "excluded by the property's wording (documented as unchecked helper for tests)"}

FINISH = dict(level="other",
              explanation="Typestate/provenance analysis over MIR of every producer of a witness value for a Redeem "
                          "node (trait-impl query), with a dominance test for is_of_type guards and a who-may-call rule "
                          "for RedeemData::new.",
              assumptions=["Value::from_compact_bits/zero/prune return values of exactly the type they are given (C10)",
                           "Node::convert stores in the new node the witness convert_witness returned (structural, reviewed)"])


def split_generics(s):
    """top-level generic arguments of the last <...> group of a path string."""
    depth = 0
    start = None
    for i, ch in enumerate(s):
        if ch == "<":
            if depth == 1 and start is None:
                pass
            depth += 1
        elif ch == ">":
            depth -= 1
    # find the generic list of the trait: `<Self as Trait<A, B>>`
    i = s.find(" as ")
    if i < 0:
        return []
    rest = s[i + 4:]
    j = rest.find("<")
    if j < 0:
        return []
    depth = 0
    args = []
    cur = ""
    for ch in rest[j:]:
        if ch == "<":
            depth += 1
            if depth == 1:
                continue
        elif ch == ">":
            depth -= 1
            if depth == 0:
                args.append(cur.strip())
                break
        elif ch == "," and depth == 1:
            args.append(cur.strip())
            cur = ""
            continue
        cur += ch
    return args


def target_marker(f):
    ref = f.d.get("impl_trait_ref") or ""
    a = split_generics(ref)
    return a[-1] if a else None


def is_finalised_target(t):
    """term = finalize(<...>.target) rooted in parameter 2 (the node being converted)."""
    for c in calls_in(t):
        if c[2] == "finalize" and c[3]:
            r = repr(c[3][0])
            if "'target'" in r and vcc.param_roots(c[3][0], fm) == {2}:
                return True
    return False


def guarded_by_type_test(f, T, block):
    """Is `block` reachable only through the true edge of a switch on is_of_type(v, finalised target)?"""
    for cs in f.calls():
        if cs.name != "is_of_type" or not cs.callee.startswith(VALUE):
            continue
        if len(cs.args) != 2 or not is_finalised_target(T.operand(cs.args[1])):
            continue
        d = cs.dest[0]
        # find the switch consuming d (possibly through a Not)
        for b in f.rpo():
            t = f.blocks[b]["t"]
            if t["k"] != "switch":
                continue
            dl = t["discr"]["p"][0] if t["discr"]["k"] in ("copy", "move") else None
            neg = False
            if dl != d:
                # _x = Not(_d)
                ok = False
                for (bb, i, kind, pl) in f.defs().get(dl, []):
                    if kind == "assign" and pl[2].get("k") == "un" and pl[2]["op"] == "Not" and \
                            pl[2]["a"].get("k") in ("copy", "move") and pl[2]["a"]["p"][0] == d:
                        ok = True
                        neg = True
                if not ok:
                    continue
            false_t = [tg for v, tg in t["targets"] if v == "0"]
            true_t = t["otherwise"]
            if neg:
                # switch on !test: value 0 means test true
                true_edges = false_t
            else:
                true_edges = [true_t]
            bad_edges = [x for x in f.succ_map()[b] if x not in true_edges]
            # block must be unreachable once only the non-true edges of this switch are kept out... i.e.
            # every path entry->block uses a true edge: remove true edges and test reachability
            succ = f.succ_map()
            seen = set()
            stack = [0]
            while stack:
                x = stack.pop()
                if x in seen:
                    continue
                seen.add(x)
                for s in succ[x]:
                    if x == b and s in true_edges and s not in bad_edges:
                        continue
                    stack.append(s)
            if block not in seen:
                return True
    return False


def run(ctx, rep):
    F = ctx.facts("full")
    rep.rule("C12.check", "each witness producer for Redeem nodes is type-directed or type-tested")
    rep.rule("C12.callers", "RedeemData::new only from convert_data of Converter<_, Redeem>, given its own `inner`")
    rep.rule("C12.nopanic", "a failed type test is an error, not a panic, on routes that can carry unchecked values")
    rep.rule("C12.routes", "public routes reach RedeemNode through the reviewed producers")

    producers = [f for f in F.fns.values()
                 if f.name == "convert_witness" and f.impl_trait == CONVERTER and target_marker(f) == REDEEM]
    rep.count("redeem_witness_producers", len(producers))
    rep.floor("C12.check(producers)", len(producers), 4)
    check_viol = 0
    for f in sorted(producers, key=lambda x: x.path):
        f = F.inlined(f, ("is_of_type", "prune", "zero", "from_compact_bits", "from_padded_bits", "finalize", "arrow"))
        who = roles.who(F, f)
        if f.impl_self in EXCLUDED:
            rep.note("producer %s not checked: %s" % (who, EXCLUDED[f.impl_self]))
            continue
        T = Terms(f)
        n_paths = 0
        for (b, i, kind, pl) in f.defs().get(0, []):
            if kind == "call":
                t = T.call(pl, 0, ())
            else:
                t = T.rvalue(pl[2], 0, ())
            if t[0] == "residual":
                continue  # error return of `?`
            if t[0] == "adt" and t[2] == "Err":
                continue
            v = t[4][0] if (t[0] == "adt" and t[2] == "Ok") else t
            n_paths += 1
            key = "%s:path%d" % (who, n_paths)
            kind_s = None
            if v[0] == "call" and v[1].startswith(VALUE) and v[2] in TYPE_DIRECTED:
                tyarg = v[3][TYPE_DIRECTED[v[2]]]
                if is_finalised_target(tyarg):
                    kind_s = "type-directed %s(.., finalize(target))" % v[2]
                else:
                    rep.violation("C12.check", "%s:%s:type" % (who, v[2]),
                                  "Value::%s is given the type %s, not the finalised target type of the node being converted"
                                  % (v[2], show(tyarg)), f.where())
                    check_viol += 1
                    continue
            else:
                roots = vcc.param_roots(v, fm)
                if 3 in roots or roots:
                    if guarded_by_type_test(f, T, b):
                        kind_s = "incoming value guarded by is_of_type(finalize(target))"
                    else:
                        rep.violation("C12.check", "%s:unchecked" % who,
                                      "returns the incoming witness value %s without testing it against the node's "
                                      "finalised target type: an ill-typed value reaches a RedeemNode" % show(v), f.where())
                        check_viol += 1
                        continue
                else:
                    rep.violation("C12.check", "%s:UNREVIEWED" % who, "returns %s: not a reviewed type-directed source" % show(v), f.where())
                    check_viol += 1
                    continue
            rep.ok("C12.check", key, kind_s)
        if n_paths == 0:
            rep.violation("C12.check", who + ":noreturn", "no Ok return found", f.where())

    # ---------- who may call RedeemData::new ----------
    new = "simplicity::node::redeem::RedeemData::new"
    if F.fn(new) is None:
        rep.anchor("C12.callers", new)
    n_call = 0
    for f in F.fns.values():
        for cs in f.calls():
            if cs.callee != new:
                continue
            n_call += 1
            who = f.path
            okk = f.name == "convert_data" and f.impl_trait == CONVERTER and target_marker(f) == REDEEM
            if not okk:
                rep.violation("C12.callers", "caller:" + who, "RedeemData::new called outside a Converter<_, Redeem>::convert_data", cs.where())
                continue
            T = Terms(f)
            roots = vcc.param_roots(T.operand(cs.args[1]), fm)
            if roots != {3}:
                rep.violation("C12.callers", "inner:" + who, "RedeemData::new is given an `inner` derived from parameters %s, expected the converted inner (3)" % sorted(roots), cs.where())
            else:
                rep.ok("C12.callers", (f.impl_self or who).replace("simplicity::", ""), "RedeemData::new(finalised arrow, inner)")
    rep.floor("C12.callers", n_call, 4)

    # ---------- panics behind the type test ----------
    for f in sorted(producers, key=lambda x: x.path):
        if f.impl_self in EXCLUDED:
            continue
        who = roles.who(F, f)
        T = Terms(f)
        for cs in f.calls():
            if cs.name in ("expect", "unwrap") and cs.args:
                # is the unwrapped value the result of a type-dependent operation on an incoming value?
                inner_t = Terms(f, transparent={k: v for k, v in fm.TRANSPARENT_CALLS.items() if k not in ("expect", "unwrap")}).operand(cs.args[0])
                names = {c[2] for c in calls_in(inner_t)}
                if "prune" in names or "is_of_type" in names:
                    if check_viol:
                        rep.violation("C12.nopanic", who + ":" + cs.name,
                                      "%s() on the result of Value::prune: with an unchecked producer upstream (C12.check) an "
                                      "ill-typed witness reaches this point and panics instead of returning an error" % cs.name, cs.where())
                    else:
                        rep.ok("C12.nopanic", who + ":" + cs.name, "unreachable: every producer is type-checked")
    # ---------- a failed finalisation is an error, not a panic, wherever the types come from outside ----------
    n_fin = 0
    for f in sorted(F.fns.values(), key=lambda x: x.path):
        if not (f.impl_trait == CONVERTER and target_marker(f) == REDEEM):
            continue
        if (roles.role_of(F, f.impl_self) or "").startswith("prune_with_tracker::"):
            continue   # starts from a finalised RedeemNode; its re-inference is C08's business (findings/NOTES.md)
        who = roles.who(F, f) + "::" + f.name
        fi = F.inlined(f)
        Tn = Terms(fi, transparent={k: v for k, v in fm.TRANSPARENT_CALLS.items() if k not in ("expect", "unwrap")})
        fin_calls = [cs for cs in fi.calls() if cs.name == "finalize" and "simplicity::types" in (cs.callee or "")]
        for cs in fi.calls():
            if cs.name in ("expect", "unwrap") and cs.args:
                inner_t = Tn.operand(cs.args[0])
                if any(c[2] == "finalize" and "simplicity::types" in c[1] for c in calls_in(inner_t)):
                    n_fin += 1
                    rep.violation("C12.nopanic", who + ":finalize:" + cs.name, "%s() on the result of Type/Arrow::finalize in %s: the occurs check runs only at "
                                  "finalisation, so a program (from bytes or from the construction API) whose type is infinite panics here "
                                  "instead of being reported" % (cs.name, who), cs.where())
        for cs in fin_calls:
            if not any(c.name in ("expect", "unwrap") and cs.dest[0] in {x[0] for x in [a.get("p", [None]) for a in c.args] if x} for c in fi.calls()):
                n_fin += 1
                rep.ok("C12.nopanic", who + ": finalize result propagated", None)
    rep.count("finalize_results_in_redeem_converters", n_fin)
    # ---------- routes ----------
    routes = {
        "simplicity::node::construct::<impl simplicity::node::Node<simplicity::node::construct::Construct<'brand>>>::finalize_unpruned": ["convert"],
        "simplicity::node::construct::<impl simplicity::node::Node<simplicity::node::construct::Construct<'brand>>>::finalize_pruned": ["finalize_unpruned", "prune"],
        "simplicity::node::redeem::<impl simplicity::node::Node<simplicity::node::redeem::Redeem>>::prune": ["prune_with_tracker"],
        "simplicity::node::redeem::<impl simplicity::node::Node<simplicity::node::redeem::Redeem>>::prune_with_tracker": ["exec_with_tracker", "with_context"],
    }
    for path, need in routes.items():
        f = F.fn(path)
        if f is None:
            rep.anchor("C12.routes", path)
            continue
        f = F.inlined(f)
        names = [cs.name for cs in f.calls()]
        for c in F.closures_of(f):      # a call made inside a closure of the route (e.g. `TLS.with(|t| ..)`) is on the route
            names += [cs.name for cs in c.calls()]
        miss = [n for n in need if n not in names]
        if miss:
            rep.violation("C12.routes", f.name, "%s no longer goes through %s (calls %s)" % (f.name, miss, names), f.where())
        else:
            rep.ok("C12.routes", f.name, "→ " + ", ".join(need))
    # the human-readable witness map produces ConstructNodes only (Option<Value>), finalised by finalize_unpruned
    tw = [f for f in F.fns.values() if f.name == "to_witness_node" and "human_encoding" in f.path and f.kind != "Closure"]
    if not tw:
        rep.anchor("C12.routes", "Forest::to_witness_node")
    for f in tw:
        rt = f.locals[0]
        if "Construct" in rt and "Redeem" not in rt:
            rep.ok("C12.routes", "Forest::to_witness_node", "returns a ConstructNode: must pass finalize_unpruned")
        else:
            rep.violation("C12.routes", "Forest::to_witness_node", "returns %s" % rt, f.where())
    # ---------- C12.sharing: nodes that already carry witness values are converted with their sharing kept ----------
    rep.rule("C12.sharing", "conversions of redeem-time nodes keep pointer-shared nodes shared (never NoSharing)")
    n_sh = 0
    for p_, f_ in sorted(F.fns.items()):
        if "Node<simplicity::node::redeem::Redeem>" not in p_:
            continue
        for cs in f_.calls():
            if cs.name == "convert" and "node::Node" in (cs.callee or "") and len(cs.f.get("args", [])) >= 4:
                n_sh += 1
                S = cs.f["args"][1]
                who_ = p_.split(">>::", 1)[-1]
                if S.endswith("dag::NoSharing"):
                    rep.violation("C12.sharing", who_ + ":NoSharing", "%s converts a redeem-time program under NoSharing: a witness node referenced from several places "
                                  "is copied once per reference; each copy is re-typed on its own but keeps the one old value, so finalising again "
                                  "attaches a value to a node of another type (and the DAG is unfolded into a tree)" % who_, cs.where())
                else:
                    rep.ok("C12.sharing", who_, S.rsplit("::", 1)[-1])
    rep.floor("C12.sharing", n_sh, 5)
    return FINISH
