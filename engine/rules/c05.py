"""C05 — Bit Machine execution equals the denotational semantics: interpreter-shape clause.

Does not decide outputs, jet functions or Frame cursor arithmetic.  Decides that each arm of the interpreter
is the Bit Machine instruction template of its combinator (operational semantics of the Simplicity tech
report, non-TCO machine):
  C05.template  per (combinator, decision path) the ordered machine operations with the provenance of every
                width argument equal the spec row
  C05.pairing   in every arm #newFrame = #moveFrame... precisely: frames created = frames dropped, every
                fwd(x) is undone by a Back(x) with the same expression
  C05.unwinder  the call-stack unwinder maps each deferred operation to the machine operation of the same name
  C05.jet       exec_jet sizes its input/output frames from source_ty()/target_ty() of the same jet and copies
                the output back with the output width
"""
import tmpl
import expr
from facts import Terms, calls_in, show
import vcc
import facts as fm

S, T = "self.source", "self.target"


def _sum(x):
    return "as_sum(%s).0,as_sum(%s).1" % (x, x)


P0 = "as_product(%s).0" % S
CASE_L = "1 + pad_left(%s)" % _sum(P0)
CASE_R = "1 + pad_right(%s)" % _sum(P0)

SPEC = {
    ("Unit",): ([], None),
    ("Iden",): ([("copy", ["bit_width(%s)" % S])], None),
    ("InjL",): ([("write_bit", ["0"]), ("skip", ["pad_left(%s)" % _sum(T)]), ("run", ["c0"])], None),
    ("InjR",): ([("write_bit", ["1"]), ("skip", ["pad_right(%s)" % _sum(T)]), ("run", ["c0"])], None),
    ("Take",): ([("run", ["c0"])], None),
    ("Drop",): ([("fwd", ["bit_width(%s)" % P0]), ("run", ["c0"]), ("back", ["bit_width(%s)" % P0])], None),
    ("Pair",): ([("run", ["c0"]), ("run", ["c1"])], None),
    ("Comp",): ([("new_write_frame", ["bit_width(c0.target)"]), ("run", ["c0"]), ("move_write_frame_to_read", []),
                 ("run", ["c1"]), ("drop_read_frame", [])], None),
    ("Case", "0"): ([("fwd", [CASE_L]), ("run", ["c0"]), ("back", [CASE_L])], None),
    ("Case", "1"): ([("fwd", [CASE_R]), ("run", ["c1"]), ("back", [CASE_R])], None),
    ("AssertL", "0"): ([("fwd", [CASE_L]), ("run", ["c0"]), ("back", [CASE_L])], None),
    ("AssertL", "1"): ([], "ExecutionError::ReachedPrunedBranch{c1}"),
    ("AssertR", "1"): ([("fwd", [CASE_R]), ("run", ["c1"]), ("back", [CASE_R])], None),
    ("AssertR", "0"): ([], "ExecutionError::ReachedPrunedBranch{c0}"),
    ("Disconnect",): ([("new_write_frame", ["bit_width(c0.source)"]), ("write_bytes", ["cmr(c1)"]),
                       ("copy", ["(bit_width(c0.source) - 256)"]), ("move_write_frame_to_read", []),
                       ("new_write_frame", ["bit_width(c0.target)"]), ("run", ["c0"]),
                       ("move_write_frame_to_read", []),
                       ("copyfwd", ["(bit_width(c0.target) - bit_width(c1.source))"]), ("run", ["c1"]),
                       ("drop_read_frame", []), ("drop_read_frame", [])], None),
    ("Witness",): ([("write_value", ["c0"])], None),
    ("Word",): ([("write_value", ["as_value(c0)"])], None),
    ("Fail",): ([], "ExecutionError::ReachedFailNode{c0}"),
}
UNWINDER = {
    "MoveWriteFrameToRead": ["move_write_frame_to_read"],
    "DropReadFrame": ["drop_read_frame"],
    "CopyFwd": ["copy", "fwd"],
    "Back": ["back"],
    "Goto": [],
}

FINISH = dict(level="other",
              explanation="Arm-by-arm extraction of the interpreter's instruction templates from MIR (arm regions, path "
                          "enumeration, constant propagation, expression reconstruction of width arguments) compared with "
                          "the Bit Machine's operational semantics, one row per combinator and decision path.  Shape only: "
                          "no program is executed.",
              assumptions=["the machine primitives (Frame cursor arithmetic, copy_from, write_bit) are correct (not decided)",
                           "jets compute their specified functions (C side; tables checked under C14)"])


def bit_of(conds):
    for c in conds:
        if c[0] == "bit":
            return "0" if c[1] == "0" else "1"
    return None



def input_frame(F, rep):
    """BitMachine::input: the input frame has the padded width of the value (write_value writes the padded encoding into it),
    and it exists exactly when that width is non-zero — the criterion exec uses (`read.is_empty() != source_ty.is_empty()`);
    a zero-width product is not `unit`."""
    f0 = F.fn(tmpl.BM + "input")
    if f0 is None:
        rep.anchor("C05.value", "BitMachine::input")
        return
    f = F.inlined(f0, tuple(tmpl.MACHINE_OPS) + ("padded_len", "compact_len", "bit_width", "is_empty", "is_unit", "is_of_type"))
    from facts import Terms, calls_in
    T = Terms(f)
    nw = [cs for cs in f.calls() if cs.name == "new_write_frame"]
    if len(nw) != 1:
        rep.anchor("C05.value", "BitMachine::input: one new_write_frame")
        return
    names = {c[2] for c in calls_in(T.operand(nw[0].args[1]))}
    if names & {"compact_len", "iter_compact"} or not names & {"padded_len", "bit_width"}:
        rep.violation("C05.value", "input:frame-size", "BitMachine::input sizes the input frame by %s; write_value writes the padded encoding, so the frame "
                      "needs the type's bit width (padded_len): with sum padding the value overruns the frame and later frames overlap it"
                      % (sorted(names) or "an unrecognised expression"), nw[0].where())
    else:
        rep.ok("C05.value", "input: frame of padded_len() cells", None)
    # the guard that decides whether a frame is pushed at all
    idom = f.idom()
    x, guard = nw[0].bb, None
    while x in idom and idom[x] != x and guard is None:
        x = idom[x]
        t = f.blocks[x]["t"]
        if t["k"] == "switch":
            gn = {c[2] for c in calls_in(T.operand(t["discr"]))}
            if gn & {"is_empty", "is_unit", "padded_len", "bit_width", "compact_len"}:
                guard = gn
    if guard is None:
        rep.note("BitMachine::input pushes the input frame unconditionally or under an unrecognised guard: not decided")
    elif "is_unit" in guard:
        rep.violation("C05.value", "input:guard", "BitMachine::input decides whether to push the input frame with is_unit(): a value of a zero-width "
                      "non-unit type (1 x 1) then gets an empty frame, and exec, which tests the source type's width, rejects the input", nw[0].where())
    else:
        rep.ok("C05.value", "input: frame pushed iff the value has non-zero width", sorted(guard))

def run(ctx, rep):
    F = ctx.facts("full")
    rep.rule("C05.template", "each interpreter arm = Bit Machine template of its combinator (ops in order, width provenance)")
    rep.rule("C05.pairing", "frames created = dropped; every fwd(x) undone by Back(x) with the same expression")
    rep.rule("C05.unwinder", "deferred CallStack::V runs the machine operation of the same name")
    rep.rule("C05.jet", "exec_jet frame widths come from source_ty/target_ty of the same jet")
    rep.rule("C05.value", "values enter machine memory in the padded encoding (one cell per bit of the type's width)")
    wv = F.fn(tmpl.BM + "write_value")
    if wv is None:
        rep.anchor("C05.value", "BitMachine::write_value")
    else:
        wv = F.inlined(wv, ("iter_padded", "iter_compact", "write_bit", "write_u8"))
        forms = {cs.name for cs in wv.calls() if cs.name in ("iter_padded", "iter_compact")}
        for c in F.closures_of(wv):
            forms |= {cs.name for cs in c.calls() if cs.name in ("iter_padded", "iter_compact")}
        if forms == {"iter_padded"}:
            rep.ok("C05.value", "write_value writes iter_padded()", None)
        else:
            rep.violation("C05.value", "write_value", "BitMachine::write_value writes %s: frames are sized by the type's bit width (the padded layout), so a witness, word "
                          "or input whose type has sum padding would be laid out wrongly" % (sorted(forms) or "no value iterator"), wv.where())
    input_frame(F, rep)
    try:
        r = tmpl.extract(F)
    except tmpl.TemplateError as e:
        rep.anchor("C05.template", "interpreter template extraction: %s" % e)
        return FINISH
    fn = r["fn"]
    seen = set()
    for key, ent in sorted(r["arms"].items(), key=str):
        v = key[0]
        conds = key[1:]
        if v == "Jet":
            continue
        b = bit_of(conds)
        skey = (v, b) if (v, b) in SPEC else (v,)
        kname = v + (":bit=" + b if b is not None and (v, b) in SPEC else "")
        if any(c[0] == "path" for c in conds):
            rep.violation("C05.template", kname + ":ambiguous", "several different operation sequences for %s: %s" % (kname, ent["ops"]), fn.where())
            continue
        if skey not in SPEC:
            rep.violation("C05.template", kname + ":UNREVIEWED", "no spec row for interpreter arm %s (ops %s)" % (key, ent["ops"]), fn.where())
            continue
        seen.add(skey)
        want_ops, want_err = SPEC[skey]
        got_ops = [(n, list(a)) for n, a in ent["ops"]]
        if want_err is not None:
            if ent["err"] != want_err or got_ops:
                rep.violation("C05.template", kname, "expected failure %s with no machine operation, found err=%s ops=%s"
                              % (want_err, ent["err"], got_ops), fn.where())
            else:
                rep.ok("C05.template", kname, "fails with " + want_err)
            continue
        if ent["err"] is not None:
            rep.violation("C05.template", kname + ":err", "arm returns %s; the semantics do not fail here" % ent["err"], fn.where())
            continue
        if got_ops != [(n, list(a)) for n, a in want_ops]:
            # find first difference for a readable report
            i = 0
            while i < min(len(got_ops), len(want_ops)) and got_ops[i] == (want_ops[i][0], list(want_ops[i][1])):
                i += 1
            rep.violation("C05.template", kname,
                          "operation #%d differs: interpreter does %s, the Bit Machine template of %s requires %s (full: %s)"
                          % (i, got_ops[i] if i < len(got_ops) else "nothing", v.lower(),
                             want_ops[i] if i < len(want_ops) else "nothing", got_ops), fn.where())
        else:
            rep.ok("C05.template", kname, got_ops)
        # pairing, independent of the spec
        news = sum(1 for n, a in got_ops if n == "new_write_frame")
        drops = sum(1 for n, a in got_ops if n == "drop_read_frame")
        moves = sum(1 for n, a in got_ops if n == "move_write_frame_to_read")
        fw = [a[0] for n, a in got_ops if n == "fwd"]
        bk = [a[0] for n, a in got_ops if n == "back"]
        if news != drops or news != moves or fw != bk[::-1]:
            rep.violation("C05.pairing", kname, "new=%d move=%d drop=%d fwd=%s back=%s" % (news, moves, drops, fw, bk), fn.where())
        else:
            rep.ok("C05.pairing", kname, "new=move=drop=%d, fwd/back balanced" % news)
    missing = set(SPEC) - seen
    for m in sorted(missing, key=str):
        rep.violation("C05.template", ":".join(x for x in m if x) + ":missing", "no interpreter path found for %s" % (m,), fn.where())
    # Jet arm: exec_jet on the node's jet, failure propagated
    jet_keys = [k for k in r["arms"] if k[0] == "Jet"]
    execs = [k for k in jet_keys if any(n == "exec_jet" for n, a in r["arms"][k]["ops"])]
    if len(execs) != 1:
        rep.violation("C05.template", "Jet", "expected exactly one path calling exec_jet, found %d" % len(execs), fn.where())
    else:
        ops = r["arms"][execs[0]]["ops"]
        a = [x for x in ops if x[0] == "exec_jet"][0][1]
        if len(ops) == 1 and "c0" in a[0] and a[1] == "env":
            rep.ok("C05.template", "Jet", ops)
        else:
            rep.violation("C05.template", "Jet", "jet arm does %s" % ops, fn.where())
    rep.floor("C05.template", rep.instances("C05.template"), 19)

    # ---------- unwinder ----------
    # the deferred-action enum is found by its use (pushed on the interpreter's Vec), and what each variant means is read off
    # the unwinder; the templates above were compared with the semantics through that derived meaning, so a variant wired to
    # the wrong operation shows there.  Here: every variant is unwound, to one recognised operation applied to its own payload.
    unw = r["unwinder"]
    if not unw:
        rep.anchor("C05.unwinder", "switch on the deferred-action enum in exec_with_tracker")
    dadt = F.adts.get(r.get("deferred"))
    variants = [v["name"] for v in dadt["variants"]] if dadt else sorted(unw)
    seen_ops = {}
    for v in variants:
        got = unw.get(v)
        if got is None:
            rep.violation("C05.unwinder", v, "deferred action %s is pushed but never unwound" % v, fn.where())
            continue
        names = [n for n, a in got["ops"]]
        op = r["push_op"].get(v, "?")
        argok = all(("@%s.0" % v) in a[0] for n, a in got["ops"] if a)
        known = (got["sets_ip"] and not names) or names in (["move_write_frame_to_read"], ["drop_read_frame"], ["copy", "fwd"], ["back"], ["fwd"], ["skip"])
        if not known or not argok or got["sets_ip"] and names:
            rep.violation("C05.unwinder", v, "deferred action %s runs %s (continues with a node: %s) — not one machine operation applied to the action's own "
                          "payload" % (v, got["ops"], got["sets_ip"]), fn.where())
        elif op in seen_ops:
            rep.violation("C05.unwinder", v, "deferred actions %s and %s are unwound to the same operation %s" % (seen_ops[op], v, op), fn.where())
        else:
            seen_ops[op] = v
            rep.ok("C05.unwinder", "%s → %s" % (v, op), None)
    need = {"run", "move_write_frame_to_read", "drop_read_frame", "copyfwd", "back"}
    miss = need - set(seen_ops)
    if miss and unw:
        rep.violation("C05.unwinder", "missing:" + ",".join(sorted(miss)), "no deferred action is unwound to %s" % sorted(miss), fn.where())

    # ---------- exec_jet ----------
    # Stated over what the code does, not over the names of its local helpers: the C jet is called with (a write frame
    # created by CFrameItem::new_write, a read frame created by CFrameItem::new_read, env); those frames and their buffers
    # are sized from target_ty / source_ty of this very jet; the jet's boolean decides between Err(JetFailed) without
    # touching the machine and writing the output into the machine (a machine write operation) followed by Ok.
    ej0 = F.fn("simplicity::bit_machine::BitMachine::exec_jet")
    if ej0 is None:
        rep.anchor("C05.jet", "BitMachine::exec_jet")
        return FINISH
    JV = tuple(tmpl.MACHINE_OPS) + ("new_read", "new_write", "uword_width", "to_bit_width", "source_ty", "target_ty", "c_jet_ptr", "c_jet_env",
                                   "sanity_checks", "c_readBit", "c_writeBit")
    ej = F.inlined(ej0, JV, depth=3)
    Tj = Terms(ej)
    ind = [b for b in ej.rpo() if ej.blocks[b]["t"]["k"] == "call" and "indirect" in ej.blocks[b]["t"]["f"]]
    if len(ind) != 1:
        rep.violation("C05.jet", "call", "expected one indirect call of the C jet, found %d" % len(ind), ej0.where())
        return FINISH
    t = ej.blocks[ind[0]]["t"]
    a = [Tj.operand(x) for x in t["args"]]

    def made_by(term, ctor):
        return any(c[2] == ctor and "CFrameItem" in c[1] for c in calls_in(term))
    if len(a) == 3 and made_by(a[0], "new_write") and not made_by(a[0], "new_read") and made_by(a[1], "new_read") and not made_by(a[1], "new_write"):
        rep.ok("C05.jet", "call(dst=output write frame, src=input read frame, env)", None)
    else:
        rep.violation("C05.jet", "call:args", "the C jet is not called with (write frame, read frame, env): (%s)" % ", ".join(show(x)[:60] for x in a), ej0.where())

    def width_of(term):
        names = {c[2] for c in calls_in(term)}
        if vcc.param_roots(term, fm) - {2}:
            return "?"
        if "to_bit_width" in names and "source_ty" in names and "target_ty" not in names:
            return "source"
        if "to_bit_width" in names and "target_ty" in names and "source_ty" not in names:
            return "target"
        return "?"
    # the frames handed to the jet
    for k, ctor, want_w, label in ((0, "new_write", "target", "get_output_frame"), (1, "new_read", "source", "get_input_frame")):
        cts = [c for c in calls_in(a[k]) if c[2] == ctor and "CFrameItem" in c[1]] if len(a) == 3 else []
        if len(cts) != 1:
            rep.violation("C05.jet", label + ":missing", "the %s frame handed to the C jet is not built by one CFrameItem::%s" % ("output" if k == 0 else "input", ctor), ej0.where())
            continue
        w = width_of(cts[0][3][0])
        if w == want_w:
            rep.ok("C05.jet", label, "%s frame of %s_ty().to_bit_width() bits" % ("write" if k == 0 else "read", want_w))
        else:
            rep.violation("C05.jet", label, "the %s frame's width is %s, expected %s_ty().to_bit_width() of the jet"
                          % ("output" if k == 0 else "input", show(cts[0][3][0])[:80], want_w), ej0.where())
    # buffers: every uword_width(..) is taken of one of the two widths
    for cs in ej.calls():
        if cs.name == "uword_width" and cs.args:
            w = width_of(Tj.operand(cs.args[0]))
            if w == "?":
                rep.violation("C05.jet", "uword_width", "a jet buffer is sized by %s, not by a width of the jet's own source or target type"
                              % show(Tj.operand(cs.args[0]))[:80], cs.where())
    # verdict
    dest = t.get("dest")
    sw = None
    for b in ej.rpo():
        tt = ej.blocks[b]["t"]
        if tt["k"] != "switch" or not ej.dominates(ind[0], b) or b == ind[0]:
            continue
        d = Tj.operand(tt["discr"])
        nots = 0
        while isinstance(d, tuple) and d and d[0] == "un" and d[1] == "Not":
            nots += 1
            d = d[2]
        if isinstance(d, tuple) and d and d[0] == "icall":
            sw = (b, tt, nots)
            break
    if sw is None:
        for b in ej.rpo():
            tt = ej.blocks[b]["t"]
            if tt["k"] == "switch" and ej.dominates(ind[0], b) and b != ind[0]:
                nots = 0
                cur = tt["discr"]
                if cur.get("k") in ("copy", "move"):
                    for (bb, i_, kind, pl) in ej.defs().get(cur["p"][0], []):
                        if kind == "assign" and pl[2].get("k") == "un" and pl[2].get("op") == "Not":
                            nots = 1
                sw = (b, tt, nots)
                break
    if sw is None:
        rep.violation("C05.jet", "verdict", "the boolean returned by the C jet is not branched on: a failing jet would be treated as success", ej0.where())
    else:
        b, tt, nots = sw
        zero = [tg for v, tg in tt["targets"] if v == "0"]
        zero = zero[0] if zero else None
        other = tt["otherwise"] if zero is not None else None
        fail_target, ok_target = (zero, other) if nots % 2 == 0 else (other, zero)

        def region(x):
            return ej.dominated_by(x) if x is not None else set()
        WRITES = {"write_bit", "write_u8", "write_bytes", "write_value"}

        def commits(reg):
            return any(cs.name in WRITES and cs.callee.startswith(tmpl.BM) for cs in ej.calls(reg))

        def builds(reg, variant):
            for bb in reg:
                for st in ej.blocks[bb]["s"]:
                    if st[0] == "=" and st[2].get("k") == "agg" and st[2].get("variant") == variant and "Result" in str(st[2].get("adt")):
                        return True
            return False
        commits_ok, commits_fail = commits(region(ok_target)), commits(region(fail_target))
        if commits_ok and not commits_fail and builds(region(fail_target), "Err") and builds(region(ok_target), "Ok"):
            rep.ok("C05.jet", "verdict: false -> Err(JetFailed), true -> write the output into the machine and Ok", None)
        else:
            rep.violation("C05.jet", "verdict", "the C jet's verdict is mishandled: on success commit=%s Ok=%s, on failure commit=%s Err=%s"
                          % (commits_ok, builds(region(ok_target), "Ok"), commits_fail, builds(region(fail_target), "Err")), ej0.where())
        # what is written back is read from the buffer the jet wrote: a read frame of the target width
        for cs in ej.calls(region(ok_target)):
            if cs.name == "new_read" and "CFrameItem" in cs.callee:
                w = width_of(Tj.operand(cs.args[0]))
                if w == "target":
                    rep.ok("C05.jet", "update_active_write_frame", "reads back target_ty().to_bit_width() bits")
                else:
                    rep.violation("C05.jet", "update_active_write_frame", "the output is read back with width %s, expected target_ty().to_bit_width()"
                                  % show(Tj.operand(cs.args[0]))[:80], cs.where())
    return FINISH
    Tj = Terms(ej)
    want = {"get_input_frame": ("source_ty", 1), "get_output_frame": ("target_ty", 0), "update_active_write_frame": ("target_ty", 1)}
    found = set()
    for cs in ej.calls():
        if cs.name in want and cs.callee.startswith(ej.path):
            which, idx = want[cs.name]
            t = Tj.operand(cs.args[idx])
            names = [c[2] for c in calls_in(t)]
            roots = vcc.param_roots(t, fm)
            found.add(cs.name)
            if which in names and "to_bit_width" in names and roots == {2} and not ({"source_ty", "target_ty"} - {which}) & set(names):
                rep.ok("C05.jet", cs.name, show(t))
            else:
                rep.violation("C05.jet", cs.name, "width argument is %s, expected %s().to_bit_width() of the jet" % (show(t), which), cs.where())
    for n in want:
        if n not in found:
            rep.violation("C05.jet", n + ":missing", "exec_jet no longer calls %s" % n, ej.where())
    # the C function is called with (output write frame, input read frame, env) in this order
    for cs0 in ej.all_calls_incl_cleanup():
        pass
    ind = [b for b in ej.rpo() if ej.blocks[b]["t"]["k"] == "call" and "indirect" in ej.blocks[b]["t"]["f"]]
    if len(ind) != 1:
        rep.violation("C05.jet", "call", "expected one indirect call of the C jet, found %d" % len(ind), ej.where())
    else:
        t = ej.blocks[ind[0]]["t"]
        a = [Tj.operand(x) for x in t["args"]]
        s0, s1 = repr(a[0]), repr(a[1])
        if "get_output_frame" in s0 and "get_input_frame" in s1 and len(a) == 3:
            rep.ok("C05.jet", "call(dst=output frame, src=input frame, env)", None)
        else:
            rep.violation("C05.jet", "call:args", "C jet called with (%s)" % ", ".join(show(x) for x in a), ej.where())
    # the jet's verdict is consumed: failure (false) returns Err(JetFailed) without committing the output, success
    # commits the output frame (update_active_write_frame) — polarity included
    if len(ind) == 1:
        t = ej.blocks[ind[0]]["t"]
        dest = t.get("dest")
        sw = None
        for b in ej.rpo():
            tt = ej.blocks[b]["t"]
            if tt["k"] != "switch":
                continue
            d = Tj.operand(tt["discr"])
            nots = 0
            while isinstance(d, tuple) and d and d[0] == "un" and d[1] == "Not":
                nots += 1
                d = d[2]
            if isinstance(d, tuple) and d and d[0] == "call" and "indirect" in repr(d[:3]):
                sw = (b, tt, nots)
            elif dest and isinstance(d, tuple) and d[:1] == ("local",) and d[1] == dest[0]:
                sw = (b, tt, nots)
        if sw is None:
            # fall back: the switch whose discriminant derives from the call's destination local
            for b in ej.rpo():
                tt = ej.blocks[b]["t"]
                if tt["k"] == "switch" and ej.dominates(ind[0], b) and b != ind[0]:
                    d = tt["discr"]
                    nots = 0
                    cur = d
                    # follow `_x = Not(_y)` definitions
                    if cur.get("k") in ("copy", "move"):
                        for (bb, i, kind, pl) in ej.defs().get(cur["p"][0], []):
                            if kind == "assign" and pl[2].get("k") == "un" and pl[2].get("op") == "Not":
                                nots = 1
                    sw = (b, tt, nots)
                    break
        if sw is None:
            rep.violation("C05.jet", "verdict", "the boolean returned by the C jet is not branched on: a failing jet would be treated as success", ej.where())
        else:
            b, tt, nots = sw
            zero = [tg for v, tg in tt["targets"] if v == "0"]
            zero = zero[0] if zero else None
            other = tt["otherwise"] if zero is not None else None
            # discriminant 0 <=> (success if nots even else !success) is false
            fail_target, ok_target = (zero, other) if nots % 2 == 0 else (other, zero)
            def region(x):
                return ej.dominated_by(x) if x is not None else set()
            commits_ok = any(cs.name == "update_active_write_frame" for cs in ej.calls(region(ok_target)))
            commits_fail = any(cs.name == "update_active_write_frame" for cs in ej.calls(region(fail_target)))
            def builds(reg, variant):
                for bb in reg:
                    for st in ej.blocks[bb]["s"]:
                        if st[0] == "=" and st[2].get("k") == "agg" and st[2].get("variant") == variant and "Result" in str(st[2].get("adt")):
                            return True
                return False
            if commits_ok and not commits_fail and builds(region(fail_target), "Err") and builds(region(ok_target), "Ok"):
                rep.ok("C05.jet", "verdict: false -> Err(JetFailed), true -> commit the output frame and Ok", None)
            else:
                rep.violation("C05.jet", "verdict", "the C jet's verdict is mishandled: on success commit=%s Ok=%s, on failure commit=%s Err=%s"
                              % (commits_ok, builds(region(ok_target), "Ok"), commits_fail, builds(region(fail_target), "Err")), ej.where())
    # both local frame builders size their buffer with uword_width of the same width they give the frame
    for helper in ("get_input_frame", "get_output_frame"):
        h = F.fn(ej.path + "::" + helper)
        if h is None:
            rep.anchor("C05.jet", helper)
            continue
        Th = Terms(h)
        widx = 2 if helper == "get_input_frame" else 1
        okk = True
        for cs in h.calls():
            if cs.name in ("new_write", "new_read") and "CFrameItem" in cs.callee:
                r0 = vcc.param_roots(Th.operand(cs.args[0]), fm)
                if r0 != {widx}:
                    okk = False
                    rep.violation("C05.jet", helper + ":" + cs.name, "frame width derives from parameters %s" % sorted(r0), cs.where())
            if cs.name == "uword_width":
                r0 = vcc.param_roots(Th.operand(cs.args[0]), fm)
                if r0 != {widx}:
                    okk = False
                    rep.violation("C05.jet", helper + ":uword_width", "buffer size derives from parameters %s" % sorted(r0), cs.where())
        if okk:
            rep.ok("C05.jet", helper + " sizes buffer and frame from the same width", None)
    return FINISH
