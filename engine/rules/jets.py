"""Extraction of the generated jet tables from MIR (Rust side) and from the vendored C sources."""
import os
import re
import facts as fm
from facts import Terms, enum_switches, calls_in, switch_info
import extract

FAMILIES = {
    "Core": "simplicity::jet::init::core::Core",
    "Elements": "simplicity::jet::init::elements::Elements",
    "Bitcoin": "simplicity::jet::init::bitcoin::Bitcoin",
}
SYS = os.path.join(extract.REPO, "simplicity-sys")


class TableError(Exception):
    pass


def _variants(F, adt):
    a = F.adts.get(adt)
    if a is None:
        raise TableError("enum %s not found" % adt)
    return {int(v["discr"]): v["name"] for v in a["variants"]}, [v["name"] for v in a["variants"]]


def _jet_fn(F, adt, name):
    fs = [f for f in F.fns.values() if f.name == name and f.impl_adt == adt and f.impl_trait in ("simplicity::jet::Jet", "std::fmt::Display", "std::str::FromStr")]
    if len(fs) != 1:
        raise TableError("%s::%s not found (%d candidates)" % (adt.rsplit("::", 1)[1], name, len(fs)))
    return fs[0]


def _main_switch(f, adt):
    best = None
    for b, si in enum_switches(f, adt.rsplit("::", 2)[-2] + "::" + adt.rsplit("::", 1)[-1]):
        if best is None or len(si[2]) > len(best[1][2]):
            best = (b, si)
    if best is None:
        raise TableError("no switch on %s in %s" % (adt, f.path))
    return best


def per_arm(f, adt, extractor):
    """variant -> extractor(region blocks)"""
    b, si = _main_switch(f, adt)
    out = {}
    for v, tgt in si[2].items():
        out[v] = extractor(f.dominated_by(tgt), tgt)
    return out, si[4]


def rust_tables(F, fam):
    adt = FAMILIES[fam]
    discr, order = _variants(F, adt)
    T = {}
    # ALL
    allc = F.consts.get(adt + "::ALL")
    if allc is None or "bytes" not in allc:
        raise TableError("%s::ALL constant not found" % fam)
    raw = bytes.fromhex(allc["bytes"])
    m = re.search(r"; (\d+)\]", allc["ty"])
    n = int(m.group(1))
    w = len(raw) // n if n else 0
    T["ALL"] = [discr.get(int.from_bytes(raw[i * w:(i + 1) * w], "little"), "?") for i in range(n)]
    T["variants"] = order

    # cmr
    def arr(f):
        def ex(reg, tgt):
            for bb in sorted(reg):
                for s in f.blocks[bb]["s"]:
                    if s[0] == "=" and s[2].get("k") == "agg" and s[2].get("agg") == "array":
                        return bytes(o.get("int", 0) & 0xff for o in s[2]["ops"]).hex()
                    if s[0] == "=" and s[2].get("k") == "use" and s[2]["a"].get("k") == "const" and "bytes" in s[2]["a"] and len(s[2]["a"]["bytes"]) == 64:
                        return s[2]["a"]["bytes"]
            return None
        return ex
    f = _jet_fn(F, adt, "cmr")
    try:
        T["cmr"], _ = per_arm(f, adt, arr(f))
    except TableError:
        T["cmr"] = None   # family without roots (unimplemented)

    def tyname(f):
        def ex(reg, tgt):
            for bb in sorted(reg):
                for s in f.blocks[bb]["s"]:
                    if s[0] == "=" and s[2].get("k") == "use" and s[2]["a"].get("k") == "const" and "bytes" in s[2]["a"]:
                        return bytes.fromhex(s[2]["a"]["bytes"]).decode("ascii", "replace")
            return None
        return ex
    for nm in ("source_ty", "target_ty"):
        f = _jet_fn(F, adt, nm)
        T[nm], _ = per_arm(f, adt, tyname(f))

    f = _jet_fn(F, adt, "encode")

    def enc(reg, tgt):
        for bb in sorted(reg):
            for s in f.blocks[bb]["s"]:
                if s[0] == "=" and s[2].get("k") == "agg" and s[2].get("agg") == "tuple" and len(s[2]["ops"]) == 2:
                    a, b2 = s[2]["ops"]
                    if "int" in a and "int" in b2:
                        return (a["int"], b2["int"])
        return None
    T["code"], _ = per_arm(f, adt, enc)

    f = _jet_fn(F, adt, "cost")

    def cost(reg, tgt):
        for cs in f.calls(reg):
            if cs.name == "from_milliweight" and "int" in cs.args[0]:
                return cs.args[0]["int"]
        return None
    try:
        T["cost"], _ = per_arm(f, adt, cost)
    except TableError:
        T["cost"] = None

    f = [g for g in F.fns.values() if g.impl_adt == adt and g.impl_trait == "std::fmt::Display" and g.name == "fmt"]
    if len(f) != 1:
        raise TableError("Display for %s not found" % fam)
    f = f[0]

    Td = Terms(f)

    def disp(reg, tgt):
        for cs in f.calls(reg):
            if cs.name == "write_str":
                t = Td.operand(cs.args[1])
                if t[0] == "str":
                    return t[1]
        return None
    T["name"], _ = per_arm(f, adt, disp)

    # FromStr: chain of string comparisons
    f = [g for g in F.fns.values() if g.impl_adt == adt and g.impl_trait == "std::str::FromStr" and g.name == "from_str"]
    if len(f) != 1:
        raise TableError("FromStr for %s not found" % fam)
    f = f[0]
    parse = {}
    for cs in f.calls():
        if cs.name in ("eq", "ne") and len(cs.args) == 2 and any("str" in a for a in cs.args):
            s_const = [a["str"] for a in cs.args if "str" in a][0]
            d = cs.dest[0]
            tgt = cs.t.get("target")
            # follow to the switch on the comparison result
            sw = None
            cur = tgt
            for _ in range(6):
                t = f.blocks[cur]["t"]
                if t["k"] == "switch":
                    sw = t
                    break
                if t["k"] == "goto":
                    cur = t["target"]
                else:
                    break
            if sw is None:
                continue
            true_b = sw["otherwise"] if cs.name == "eq" else [tg for v, tg in sw["targets"] if v == "0"][0]
            # the variant built on the true branch
            v = None
            seen = set()
            q = [true_b]
            while q and v is None and len(seen) < 6:
                x = q.pop(0)
                if x in seen:
                    continue
                seen.add(x)
                for s in f.blocks[x]["s"]:
                    if s[0] == "=":
                        if s[2].get("k") == "agg" and s[2].get("adt") == adt:
                            v = s[2]["variant"]
                        for o in [s[2].get("a")] + s[2].get("ops", []):
                            if isinstance(o, dict) and o.get("k") == "const" and o.get("ty") == adt and "int" in o:
                                v = discr.get(o["int"])
                if f.blocks[x]["t"]["k"] == "goto":
                    q.append(f.blocks[x]["t"]["target"])
            parse[s_const] = v
    T["parse"] = parse
    pf = _jet_fn(F, adt, "parse")
    T["parse_delegates"] = any(cs.name == "from_str" for cs in pf.calls())

    # decode tree
    f = _jet_fn(F, adt, "decode")
    Tm = Terms(f)
    bits = {0: ""}
    leaves = {}
    dead_leaves = []
    order_b = [0]
    seen = set()
    while order_b:
        b = order_b.pop()
        if b in seen:
            continue
        seen.add(b)
        cur = bits[b]
        for s in f.blocks[b]["s"]:
            if s[0] == "=" and s[2].get("k") == "agg" and s[2].get("adt") == adt:
                leaves.setdefault(cur, []).append(s[2]["variant"])
            if s[0] == "=" and s[2].get("k") == "agg" and s[2].get("variant") == "Ok" and "Result" in s[2].get("adt", ""):
                o = s[2]["ops"][0]
                if o.get("k") == "const" and o.get("ty") == adt and "int" in o:
                    leaves.setdefault(cur, []).append(discr.get(o["int"], "?"))
        t = f.blocks[b]["t"]
        succ = f.succ_map()[b]
        if t["k"] == "switch":
            si = switch_info(f, b)
            if si is not None:
                for v, tg in si[2].items():
                    if v == "Some" and tg not in bits:
                        bits[tg] = cur
                        order_b.append(tg)
                continue
            dt = Tm.operand(t["discr"])
            if any(c[2] == "next" for c in calls_in(dt)):
                for v, tg in t["targets"]:
                    if tg not in bits:
                        bits[tg] = cur + ("0" if v == "0" else "1")
                        order_b.append(tg)
                if t["otherwise"] not in bits:
                    bits[t["otherwise"]] = cur + "1"
                    order_b.append(t["otherwise"])
                continue
        for s2 in succ:
            if s2 not in bits:
                bits[s2] = cur
                order_b.append(s2)
    T["decode"] = leaves

    # c_jet_ptr (Core / Elements only)
    mod = adt.rsplit("::", 1)[0]
    g = F.fn(mod + "::c_jet_ptr")
    if g is not None:
        def ptr(reg, tgt):
            for bb in sorted(reg):
                for s in g.blocks[bb]["s"]:
                    if s[0] == "=":
                        for o in [s[2].get("a")] + s[2].get("ops", []):
                            if isinstance(o, dict) and o.get("k") == "const" and "fn" in o:
                                return o["fn"].get("res") or o["fn"]["path"]
            return None
        try:
            T["cptr"], _ = per_arm(g, adt, ptr)
        except TableError:
            T["cptr"] = None
    return T


# ------------------------------------------------------------------------------------------------------------------
# C side (generated .inc tables are data files in a regular format; row counts are cross-checked with clang's enum)
# ------------------------------------------------------------------------------------------------------------------

def c_jet_nodes():
    txt = open(os.path.join(SYS, "depend/simplicity/elements/primitiveJetNode.inc")).read()
    rows = {}
    for m in re.finditer(r"\[(\w+)\]\s*=\s*\{(.*?)\n\}", txt, re.S):
        name, body = m.group(1), m.group(2)
        ent = {}
        for fm2 in re.finditer(r"\.(\w+)\s*=\s*(\{\{.*?\}\}|[^\n,/]+)", body):
            ent[fm2.group(1)] = fm2.group(2).strip()
        if "cmr" in ent:
            words = re.findall(r"0x([0-9a-fA-F]+)u?", ent["cmr"])
            ent["cmr_hex"] = "".join(w.rjust(8, "0") for w in words).lower()
        if "cost" in ent:
            ent["cost"] = int(re.match(r"\d+", ent["cost"]).group(0))
        rows[name] = ent
    return rows


def c_type_table():
    txt = open(os.path.join(SYS, "depend/simplicity/elements/primitiveInitTy.inc")).read()
    tys = {}
    for m in re.finditer(r"\(\*bound_var\)\[(\w+)\]\s*=\s*\(unification_var\)\{(.*?)\};", txt, re.S):
        name, body = m.group(1), m.group(2)
        k = re.search(r"\.kind\s*=\s*(\w+)", body).group(1)
        args = re.findall(r"&\(\*bound_var\)\[(\w+)\]", body)
        tys[name] = (k, args)
    return tys


def c_expand_type(tys, name, memo=None):
    memo = {} if memo is None else memo
    if name in memo:
        return memo[name]
    k, args = tys[name]
    if k == "ONE":
        r = "1"
    elif k == "SUM":
        r = "+" + c_expand_type(tys, args[0], memo) + c_expand_type(tys, args[1], memo)
    elif k == "PRODUCT":
        r = "*" + c_expand_type(tys, args[0], memo) + c_expand_type(tys, args[1], memo)
    else:
        raise TableError("unknown C type kind " + k)
    memo[name] = r
    return r


RUST_ABBREV = {"2": "+11"}


def rust_expand_type(s):
    """Expand the abbreviations of a Rust TypeName string (prefix notation) to 1/+/* only; returns None if malformed."""
    W = {}
    W["2"] = "+11"
    cur = W["2"]
    widths = {"2": 1}
    # 2^(2^k): c=8 (k=3), s=16, i=32, l=64, h=256
    pows = [W["2"]]
    for k in range(1, 9):
        pows.append("*" + pows[-1] + pows[-1])
    ab = {"1": "1", "2": pows[0], "c": pows[3], "s": pows[4], "i": pows[5], "l": pows[6], "h": pows[8]}
    out = []
    for ch in s:
        if ch in "+*":
            out.append(ch)
        elif ch in ab:
            out.append(ab[ch])
        else:
            return None
    r = "".join(out)
    # well-formedness of the prefix expression
    need = 1
    for ch in r:
        if need == 0:
            return None
        need += 1 if ch in "+*" else -1
    return r if need == 0 else None


def prefix_code(n):
    """bit string of the positive integer n in Simplicity's self-delimiting code (encode_natural / decodeUptoMaxInt)."""
    assert n > 0
    suffix = []
    out = ""
    while True:
        ln = n.bit_length() - 1
        if ln == 0:
            out += "0"
            break
        out += "1"
        suffix.append((n, ln))
        n = ln
    while suffix:
        v, ln = suffix.pop()
        out += format(v & ((1 << ln) - 1), "0%db" % ln)
    return out


def c_decode_tree(path):
    """Parse a decode*Jets.inc nested switch into {jet enumerator: [codes along the path]}."""
    txt = open(path).read()
    toks = re.findall(r"switch \(code\) \{|case (\d+):|\*result = (\w+);|break;|\}|\{", txt)
    out = {}
    stack = []      # case numbers of enclosing switches
    cur_case = []   # per open switch: current case
    depth_kind = []
    for m in re.finditer(r"(switch \(code\) \{)|case (\d+):|\*result = (\w+);|(\})|(\{)", txt):
        if m.group(1):
            depth_kind.append("switch")
            cur_case.append(None)
        elif m.group(2):
            if not cur_case:
                raise TableError("case outside switch")
            cur_case[-1] = int(m.group(2))
        elif m.group(3):
            out[m.group(3)] = [c for c in cur_case if c is not None]
        elif m.group(4):
            if depth_kind:
                k = depth_kind.pop()
                if k == "switch":
                    cur_case.pop()
        elif m.group(5):
            depth_kind.append("block")
    return out
