"""Path rules on MIR: must-pass-through (every success path goes through a call), verdict consumption
(a call's result reaches a branch decision or is returned), error-exit recognition."""
from facts import local_uses, switch_info

PASS_THROUGH = {"branch", "map_err", "map", "into", "from", "ok_or", "ok_or_else", "and_then", "not", "clone"}


def error_blocks(fn):
    """Blocks on which the function's result is set to an error: `_0 = Err(..)` aggregates and
    `_0 = from_residual(..)` calls (the error exit of `?`)."""
    out = set()
    for b in fn.rpo():
        for s in fn.blocks[b]["s"]:
            if s[0] == "=" and s[1][0] == 0 and not s[1][1]:
                rv = s[2]
                if rv.get("k") == "agg" and rv.get("variant") in ("Err", "None") and (
                        "Result" in rv.get("adt", "") or "Option" in rv.get("adt", "")):
                    out.add(b)
        t = fn.blocks[b]["t"]
        if t["k"] == "call" and t["f"].get("name") == "from_residual" and t["dest"][0] == 0:
            out.add(b)
    # error exits of helpers spliced in by Facts.inlined whose result the caller propagates with `?`
    out |= set(fn.d.get("inlined_error_blocks") or ())
    return out


def diverging_blocks(fn):
    out = set()
    for b in fn.rpo():
        t = fn.blocks[b]["t"]
        if t["k"] == "call" and t.get("target") is None:
            out.add(b)
        if t["k"] == "unreachable":
            out.add(b)
    return out


def success_bypasses(fn, through_blocks):
    """Is there a path entry -> return that avoids every block in `through_blocks` and every error block?
    Returns a witness list of blocks, or None."""
    avoid = set(through_blocks) | error_blocks(fn)
    succ = fn.succ_map()
    if 0 in avoid:
        return None
    prev = {0: None}
    stack = [0]
    while stack:
        b = stack.pop()
        if fn.blocks[b]["t"]["k"] == "return":
            path = []
            x = b
            while x is not None:
                path.append(x)
                x = prev[x]
            return path[::-1]
        for s in succ[b]:
            if s not in prev and s not in avoid:
                prev[s] = b
                stack.append(s)
    return None


def must_pass(fn, pred):
    """(call sites matching pred, bypass path or None)"""
    sites = [cs for cs in fn.calls() if pred(cs)]
    if not sites:
        return sites, [0]
    return sites, success_bypasses(fn, {cs.bb for cs in sites})


def wrapper_pred(F, pred, depth=3, _memo=None):
    """Wrapper recognition: a call satisfies the returned predicate if it satisfies `pred` or if its callee is a
    workspace function all of whose success paths pass through a call that does (inlining bound `depth`) and
    consume its verdict.  So `ConstructNode::decode` counts as 'calls BitIter::close' because it always does."""
    memo = {} if _memo is None else _memo

    def fn_always(path, d):
        if path in memo:
            return memo[path]
        memo[path] = False
        f = F.fns.get(path)
        if f is None or d <= 0:
            return False
        p2 = lambda cs: pred(cs) or fn_always(cs.callee, d - 1)
        sites, bypass = must_pass(f, p2)
        ok = bool(sites) and bypass is None and all(flows_to_branch(f, cs.dest[0]) for cs in sites)
        memo[path] = ok
        return ok

    return lambda cs: pred(cs) or fn_always(cs.callee, depth)


def flows_to_branch(fn, local, depth=0, seen=None):
    """Does the value of `local` reach a SwitchInt / Assert (a decision), or the function's own result
    (handed to the caller to decide)?  Follows copies, refs, discriminant reads, field reads, casts, negation
    and result adaptors (`?`'s Try::branch, map_err, ...)."""
    if seen is None:
        seen = set()
    if local in seen or depth > 40:
        return False
    seen.add(local)
    if local == 0:
        return True
    for (b, i, how) in local_uses(fn, local):
        if how in ("switch", "assert", "return"):
            return True
        if i >= 0:
            s = fn.blocks[b]["s"][i]
            if flows_to_branch(fn, s[1][0], depth + 1, seen):
                return True
        elif how == "callarg":
            t = fn.blocks[b]["t"]
            name = t["f"].get("name")
            if name in PASS_THROUGH or name in ("eq", "ne", "lt", "le", "gt", "ge", "is_some", "is_none", "is_ok", "is_err"):
                if flows_to_branch(fn, t["dest"][0], depth + 1, seen):
                    return True
    return False


def dropped_result(fn, cs):
    """True if the call's result is never read (only dropped / StorageDead)."""
    d = cs.dest[0]
    return not local_uses(fn, d) and d != 0


def edge_dominated(fn, switch_bb, taken_targets, block):
    """Is `block` reachable from entry only through one of the edges switch_bb -> t (t in taken_targets)?"""
    succ = fn.succ_map()
    seen = set()
    stack = [0]
    while stack:
        x = stack.pop()
        if x in seen:
            continue
        seen.add(x)
        for s in succ[x]:
            if x == switch_bb and s in taken_targets:
                continue
            stack.append(s)
    return block not in seen


def path_conditions(fn, start_blocks=None, skip_errors=False, limit=20000):
    """Enumerate acyclic paths from entry; yield (blocks, conds) with conds = [(kind, subject, value)]."""
    succ = fn.succ_map()
    out = []
    errs = error_blocks(fn) if skip_errors else set()

    def go(b, acc, conds):
        if len(out) > limit or b in errs:
            return
        acc = acc + [b]
        t = fn.blocks[b]["t"]
        nxt = succ[b]
        if not nxt:
            out.append((acc, conds))
            return
        if t["k"] == "switch":
            si = switch_info(fn, b)
            for s in nxt:
                if s in acc:
                    continue
                if si:
                    took = [v for v, tg in si[2].items() if tg == s] or ["other:" + ",".join(si[4])]
                    go(s, acc, conds + [("enum", si[1].rsplit("::", 1)[-1], si[0], tuple(took))])
                else:
                    val = [v for v, tg in t["targets"] if tg == s]
                    go(s, acc, conds + [("int", t["discr"], None, val[0] if val else "else")])
        else:
            for s in nxt:
                if s not in acc:
                    go(s, acc, conds)
    go(0, [], [])
    return out


