"""C02 — the decoder is total and accepts only the canonical encoding: structural clauses.

Does not decide totality in general nor that re-encoding returns the input.  Decides that each canonicity
mechanism exists, lies on every success path and has its verdict consumed; that decoder arithmetic on decoded
indices is guarded by the matching bound; that allocations sized by decoded numbers are clamped; and which
input-depth recursions exist.
  C02.must   must-pass-through + verdict-consumed rules on the three decode entry points, decode_expression and
             BitIter::close (canonical order, hidden-node set, close/padding, set_arrow_to_program, InternalSharing
             conversion, witness close, IHR sharing set, CommitNode sharing check)
  C02.bound  decode_node: every `index - x` has x = read_natural(Some(index)); word length from
             read_natural(Some(c)), c <= 32, and Word::from_bits(n - 1); read_natural: accumulator-length guard
             `len > k` with k <= 31 returns Overflow; bound violation returns BadIndex
  C02.alloc  allocations reachable from the entry points whose size derives from a decoded natural or a type width
             are clamped by min(_, const)
  C02.rec    recursion reachable from the entry points is reviewed (see rec.py)
"""
import flow
import rec
import facts as fm
import expr
from facts import Terms, show, calls_in, leaves, enum_switches
import vcc
import c01

DEC = "simplicity::bit_encoding::decode::"
CONSTRUCT_DECODE = "simplicity::node::construct::<impl simplicity::node::Node<simplicity::node::construct::Construct<'brand>>>::decode"
COMMIT_DECODE = "simplicity::node::commit::<impl simplicity::node::Node<simplicity::node::commit::Commit>>::decode"
REDEEM_DECODE = "simplicity::node::redeem::<impl simplicity::node::Node<simplicity::node::redeem::Redeem>>::decode"
CLOSE = "simplicity::bit_encoding::bititer::BitIter::<I>::close"
READ_NATURAL = "simplicity::bit_encoding::bititer::BitIter::<I>::read_natural"

FINISH = dict(level="other",
              explanation="Dominator/must-pass-through, verdict-use, provenance and call-graph rules over the decoders' MIR. "
                          "Each instance is a necessary condition of 'only the canonical encoding is accepted' or of "
                          "'terminates without panic/unbounded allocation'.",
              assumptions=["PostOrderIter visits nodes children-first with true indices (C18, not decided)",
                           "type inference terminates (C04)"])


def named(name, path_part=None):
    return lambda cs: cs.name == name and (path_part is None or path_part in cs.callee)


def req_pass(rep, fn, label, pred, consumed=True, want_args=None):
    sites, bypass = flow.must_pass(fn, pred)
    key = "%s:%s" % (fm.short(fn.path) if "{closure" not in fn.path else fm.short(fn.path.split("::{closure")[0]) + "{closure}", label)
    if not sites:
        rep.violation("C02.must", key + ":missing", "%s is never called in %s" % (label, fn.path), fn.where())
        return []
    if bypass is not None:
        rep.violation("C02.must", key + ":bypass", "a success path of %s avoids %s (blocks %s)" % (fn.path, label, bypass[:12]), sites[0].where())
        return sites
    if consumed:
        for cs in sites:
            if not flow.flows_to_branch(fn, cs.dest[0]):
                rep.violation("C02.must", key + ":dropped", "the verdict of %s is dropped" % label, cs.where())
                return sites
    if want_args:
        for cs in sites:
            ga = " ".join(cs.f.get("args", []))
            if want_args not in ga:
                rep.violation("C02.must", key + ":args", "%s is instantiated with <%s>, expected %s" % (label, ga, want_args), cs.where())
                return sites
    rep.ok("C02.must", key, "on every success path%s" % (", verdict consumed" if consumed else ""))
    return sites


DEC_ENUM = ["DecodeNode"]   # the decoder's private enum on the analysed tree (c01.codec_names), set in run()
DN_NAME = ["decode_node"]    # the name of the node decoder on the analysed tree (see c01.decode_node_fn), set in run()
VOCAB = ("decode_expression", "decode_node", "close", "read_natural", "finalize_types", "is_shared_as", "with_context", "convert",
         "set_arrow_to_program", "from_bits", "read_bit", "read_u2", "read_u8")



def eof_is_error(F, rep):
    """the value decoders read the witness stream bit by bit: wherever they pull an item straight from the iterator
    (`bits.next()`), running out of input is an error, never a 0 bit — `None` leads only to error exits (or is turned into
    one with ok_or + `?`).  Reads through BitIter's fallible readers (read_bit()?, read_u8()?) carry the error themselves."""
    n = 0
    for nm in ("from_compact_bits", "from_padded_bits"):
        f0 = F.fn("simplicity::value::Value::" + nm)
        if f0 is None:
            rep.anchor("C02.must", "Value::" + nm)
            continue
        f = F.inlined(f0, ("next", "ok_or", "ok_or_else", "read_bit"))
        T = Terms(f)
        errs = flow.error_blocks(f)
        for cs in f.calls():
            if cs.name != "next" or not cs.args or cs.trait != "std::iter::Iterator" and not (cs.decl or "").startswith("std::iter::Iterator"):
                continue
            if 1 not in vcc.param_roots(T.operand(cs.args[0]), fm):
                continue
            n += 1
            key = "Value::%s: end of stream" % nm
            d = cs.dest[0]
            # (a) handed to ok_or/ok_or_else whose result is propagated
            conv = [c for c in f.calls() if c.name in ("ok_or", "ok_or_else") and c.args and c.args[0].get("k") in ("move", "copy") and c.args[0]["p"][0] == d]
            if conv and all(flow.flows_to_branch(f, c.dest[0]) for c in conv):
                rep.ok("C02.must", key, "next().ok_or(..)?")
                continue
            # (b) matched: the None case reaches no successful return
            sws = [b for b in f.rpo() if (fm.switch_info(f, b) or [None, ""])[1].endswith("option::Option") and fm.switch_info(f, b)[0][0] == d]
            bad = None
            for b in sws:
                si = fm.switch_info(f, b)
                none_t = si[2].get("None", f.blocks[b]["t"]["otherwise"] if "None" in si[4] else None)
                if none_t is None:
                    continue
                reach = f.reachable(none_t, avoid=errs) if none_t not in errs else set()
                if any(f.blocks[x]["t"]["k"] == "return" for x in reach):
                    bad = b
            if sws and bad is None:
                rep.ok("C02.must", key, "None leads to an error exit")
            else:
                rep.violation("C02.must", "%s:eof" % nm, "Value::%s pulls a bit with Iterator::next() and goes on when the stream has ended (None is not turned into "
                              "an error): a truncated witness stream is read as if it were padded with zero bits, and decoding it does not re-encode "
                              "to the input" % nm, cs.where())
    return n


ITER_VERDICT = ("all", "any", "try_for_each", "try_fold", "find", "position")


def ihr_sharing(F, rep, rd):
    """sharing check of RedeemNode::decode: every node's IHR goes into one HashSet<Ihr>, the verdict of the insert decides
    between Err(SharingNotMaximal) and continuing, the nodes are those of post_order_iter::<InternalSharing>, and no success
    path avoids the check.  The check may be an explicit loop or an iterator adaptor taking a closure (`all(|d| set.insert(..))`),
    in decode itself or in a private helper spliced into it."""
    owners = [rd] + [F.fns[p] for p in getattr(rd, "inlined_helpers", ()) if p in F.fns]
    closures = []
    for o in ([rd.inlined_from] if getattr(rd, "inlined_from", None) is not None else [rd]) + owners[1:]:
        closures += [c for c in F.closures_of(o) if not c.path.endswith("decode::{closure#0}")]
    views = [(rd, None)] + [(c, c) for c in closures]
    ins = [(v, cs) for v, _c in views for cs in v.calls() if cs.name == "insert" and "HashSet" in cs.callee and "Ihr" in " ".join(cs.f.get("args", []))]
    other = [(v, cs) for v, _c in views for cs in v.calls() if cs.name == "insert" and "HashSet" in cs.callee and "Ihr" not in " ".join(cs.f.get("args", []))]
    if len(ins) != 1:
        if other:
            v, cs = other[0]
            rep.violation("C02.must", "RedeemNode::decode:ihr-key", "the sharing set is keyed on <%s>, expected the node's IHR: two unshared copies "
                          "of a node with equal IHR must be rejected" % " ".join(cs.f.get("args", [])), cs.where())
        else:
            rep.violation("C02.must", "RedeemNode::decode:ihr-set", "expected one HashSet<Ihr>::insert in the sharing check, found %d" % len(ins), rd.where())
        return
    v, cs = ins[0]
    Tv = Terms(v)
    t = Tv.operand(cs.args[1])
    names = [c[2] for c in calls_in(t)]
    okk = True
    if "ihr" not in names:
        rep.violation("C02.must", "RedeemNode::decode:ihr-key", "the sharing set is keyed on %s, expected the node's IHR: two unshared copies "
                      "of a node with equal IHR must be rejected" % show(t), cs.where())
        okk = False
    in_closure = v is not rd
    gate_blocks = None
    if not in_closure:
        if not rd.in_loop(cs.bb):
            rep.violation("C02.must", "RedeemNode::decode:ihr-loop", "the sharing insert is not inside the node loop", cs.where())
            okk = False
        if not flow.flows_to_branch(rd, cs.dest[0]):
            rep.violation("C02.must", "RedeemNode::decode:ihr-dropped", "the verdict of HashSet::insert is dropped", cs.where())
            okk = False
        nx = [c for c in rd.calls() if c.name == "next" and rd.in_loop(c.bb)]
        gate_blocks = {c.bb for c in nx}
        its = [c for c in rd.calls() if c.name == "post_order_iter"]
    else:
        # the closure returns the verdict, and the adaptor it is handed to (`all`, ...) has its result decided upon
        ret = Tv.local(0)
        if not any(c[2] == "insert" for c in calls_in(ret)) and not flow.flows_to_branch(v, cs.dest[0]):
            rep.violation("C02.must", "RedeemNode::decode:ihr-dropped", "the verdict of HashSet::insert is not the closure's result", cs.where())
            okk = False
        adaptors = []
        Tr = Terms(rd)
        for c in rd.calls():
            if c.name in ITER_VERDICT and any(cl == v.path for a in c.args for cl in _closures_in(Tr.operand(a))):
                adaptors.append(c)
        if len(adaptors) != 1:
            rep.violation("C02.must", "RedeemNode::decode:ihr-loop", "the closure holding the sharing insert is not handed to one iterator adaptor "
                          "whose verdict can be decided upon (%s)" % "/".join(ITER_VERDICT), cs.where())
            return
        ad = adaptors[0]
        if not flow.flows_to_branch(rd, ad.dest[0]):
            rep.violation("C02.must", "RedeemNode::decode:ihr-dropped", "the verdict of %s(..) over the sharing check is dropped" % ad.name, ad.where())
            okk = False
        gate_blocks = {ad.bb}
        recv = Tr.operand(ad.args[0])
        its = [c for c in rd.calls() if c.name == "post_order_iter" and any(x[2] == "post_order_iter" for x in calls_in(recv))]
    if not its or "InternalSharing" not in " ".join(its[0].f.get("args", [])):
        rep.violation("C02.must", "RedeemNode::decode:ihr-iter", "the sharing check does not iterate post_order_iter::<InternalSharing>", rd.where())
        okk = False
    if not gate_blocks or flow.success_bypasses(rd, gate_blocks) is not None:
        rep.violation("C02.must", "RedeemNode::decode:ihr-bypass", "a success path skips the sharing check", rd.where())
        okk = False
    # a failed insert leads to Err, not to Ok
    if okk:
        rep.ok("C02.must", "RedeemNode::decode: IHR sharing set", show(t))


def _closures_in(t, out=None):
    out = [] if out is None else out
    if isinstance(t, tuple):
        if t and t[0] == "closure" and len(t) > 1 and isinstance(t[1], str):
            out.append(t[1])
        for y in t:
            _closures_in(y, out)
    return out

def run(ctx, rep):
    global VOCAB
    F = ctx.facts("full")
    dnf = c01.decode_node_fn(F)
    DN_NAME[0] = dnf.name if dnf is not None else "decode_node"
    DEC_ENUM[0] = c01.codec_names(F)["dec_enum"]
    VOCAB = tuple(x for x in VOCAB if x != DN_NAME[0]) + (DN_NAME[0],)
    rep.rule("C02.must", "canonicity checks lie on every success path and their verdicts are consumed")
    rep.rule("C02.bound", "decoded indices/lengths are guarded by the matching bound before arithmetic")
    rep.rule("C02.alloc", "allocations sized by decoded numbers or type widths are clamped")
    rep.rule("C02.rec", "no unreviewed recursion reachable from the decoders")

    # ------------------------------------------------------------------ must
    cd = F.fn(CONSTRUCT_DECODE)
    cd = F.inlined(cd, VOCAB) if cd is not None else None   # private same-file helpers are spliced in
    if cd is None:
        rep.anchor("C02.must", CONSTRUCT_DECODE)
    else:
        req_pass(rep, cd, "decode_expression", named("decode_expression"))
        req_pass(rep, cd, "BitIter::close", lambda cs: cs.callee == CLOSE)
    cm = F.fn(COMMIT_DECODE)
    cm = F.inlined(cm, VOCAB) if cm is not None else None   # private same-file helpers are spliced in
    if cm is None:
        rep.anchor("C02.must", COMMIT_DECODE)
    else:
        req_pass(rep, cm, "with_context", named("with_context"))
        sites = req_pass(rep, cm, "is_shared_as::<MaxSharing<Commit>>", named("is_shared_as"), want_args="MaxSharing<simplicity::node::commit::Commit>")
        # Ok only on the true branch of the sharing verdict
        for cs in sites[:1]:
            d = cs.dest[0]
            sw = [b for b in cm.rpo() if cm.blocks[b]["t"]["k"] == "switch" and cm.blocks[b]["t"]["discr"].get("p", [None])[0] == d]
            if len(sw) == 1:
                t = cm.blocks[sw[0]]["t"]
                zero = [tg for v, tg in t["targets"] if v == "0"]
                errs = flow.error_blocks(cm)
                if zero and (cm.reachable(zero[0]) - cm.reachable(t["otherwise"])) & errs and not (cm.reachable(t["otherwise"]) - cm.reachable(zero[0])) & errs:
                    rep.ok("C02.must", "CommitNode::decode: not maximally shared → Err", None)
                else:
                    rep.violation("C02.must", "CommitNode::decode:sharing-branch", "the false verdict of is_shared_as does not lead to Err", cs.where())
        for c in [F.inlined(c_, VOCAB) for c_ in F.closures_of(cm)]:
            req_pass(rep, c, "decode_expression", flow.wrapper_pred(F, named("decode_expression")))
            req_pass(rep, c, "BitIter::close", flow.wrapper_pred(F, lambda cs: cs.callee == CLOSE))
            req_pass(rep, c, "finalize_types", named("finalize_types"))
    rd = F.fn(REDEEM_DECODE)
    rd = F.inlined(rd, VOCAB) if rd is not None else None   # private same-file helpers are spliced in
    if rd is None:
        rep.anchor("C02.must", REDEEM_DECODE)
    else:
        req_pass(rep, rd, "with_context", named("with_context"))
        Tr = Terms(rd)
        sites = req_pass(rep, rd, "witness.close()", lambda cs: cs.callee == CLOSE)
        for cs in sites[:1]:
            roots = vcc.param_roots(Tr.operand(cs.args[0]), fm)
            if roots != {2}:
                rep.violation("C02.must", "RedeemNode::decode:close-arg", "close() is applied to %s, expected the witness stream" % show(Tr.operand(cs.args[0])), cs.where())
        ihr_sharing(F, rep, rd)
        for c in [F.inlined(c_, VOCAB) for c_ in F.closures_of(rd.inlined_from if getattr(rd, "inlined_from", None) is not None else rd)]:
            if c.path.endswith("decode::{closure#0}"):
                req_pass(rep, c, "decode_expression", flow.wrapper_pred(F, named("decode_expression")))
                req_pass(rep, c, "BitIter::close (program)", flow.wrapper_pred(F, lambda cs: cs.callee == CLOSE))
                req_pass(rep, c, "set_arrow_to_program", named("set_arrow_to_program"))
                req_pass(rep, c, "convert::<InternalSharing>", named("convert"), consumed=False, want_args="InternalSharing")
                # order: decode, then set_arrow_to_program, then convert
                sa = [cs for cs in c.calls() if cs.name == "set_arrow_to_program"]
                cv = [cs for cs in c.calls() if cs.name == "convert"]
                if sa and cv and not all(c.dominates(sa[0].bb, x.bb) and sa[0].bb != x.bb for x in cv):
                    rep.violation("C02.must", "RedeemNode::decode:order", "convert is not preceded by set_arrow_to_program on every path", cv[0].where())

    de = F.fn(DEC + "decode_expression")
    de = F.inlined(de, VOCAB) if de is not None else None   # private same-file helpers are spliced in
    if de is None:
        rep.anchor("C02.must", DEC + "decode_expression")
    else:
        Td = Terms(de)
        # (1) canonical order
        errs = _err_variant_blocks(de, "NotInCanonicalOrder")
        okk = False
        for b in de.rpo():
            t = de.blocks[b]["t"]
            if t["k"] != "switch":
                continue
            dt = Td.operand(t["discr"])
            if dt[0] == "bin" and dt[1] in ("Ne", "Eq"):
                s = repr(dt)
                if "'index'" in s and "'node'" in s and any(x in errs for x in de.succ_map()[b]):
                    pushes = [cs for cs in de.calls() if cs.name == "push" and de.in_loop(cs.bb)]
                    conv_push = [cs for cs in pushes if de.dominates(b, cs.bb)]
                    if conv_push and de.in_loop(b):
                        okk = True
                        rep.ok("C02.must", "decode_expression: canonical order", "%s → Err(NotInCanonicalOrder) before every converted.push" % fm.show(dt))
        if not okk:
            rep.violation("C02.must", "decode_expression:canonical-order", "no comparison of the iterator index with the node's own position "
                          "guarding Err(NotInCanonicalOrder) on every iteration", de.where())
        # (2) hidden set
        ins = [cs for cs in de.calls() if cs.name == "insert" and "HashSet" in cs.callee]
        errs = _err_variant_blocks(de, "SharingNotMaximal")
        if len(ins) != 1:
            rep.violation("C02.must", "decode_expression:hidden-set", "expected one HashSet::insert for hidden nodes, found %d" % len(ins), de.where())
        else:
            cs = ins[0]
            if not flow.flows_to_branch(de, cs.dest[0]):
                rep.violation("C02.must", "decode_expression:hidden-dropped", "the verdict of hidden_set.insert is dropped: repeated hidden nodes are accepted", cs.where())
            elif not errs or not (de.reachable(cs.bb) & errs):
                rep.violation("C02.must", "decode_expression:hidden-err", "a repeated hidden node does not lead to Err(SharingNotMaximal)", cs.where())
            else:
                # inside the Hidden arm of the DecodeNode switch
                inarm = False
                for b, si in enum_switches(de, "::" + c01.codec_names(F)["dec_enum"]):
                    tgt = si[2].get(_hidden_variant(F))
                    if tgt is not None and cs.bb in de.dominated_by(tgt):
                        inarm = True
                if inarm:
                    rep.ok("C02.must", "decode_expression: hidden-node set", "insert verdict → Err(SharingNotMaximal)")
                else:
                    rep.violation("C02.must", "decode_expression:hidden-arm", "hidden_set.insert is not in the Hidden arm", cs.where())
        # (3) every node is decoded at its own index
        dn = [cs for cs in de.calls() if cs.name == DN_NAME[0]]
        if len(dn) == 1 and "len" in [c[2] for c in calls_in(Td.operand(dn[0].args[1]))]:
            rep.ok("C02.must", "decode_expression: decode_node(bits, nodes.len())", None)
        elif len(dn) == 1 and _counts_pushes(de, Td, dn[0]):
            rep.ok("C02.must", "decode_expression: decode_node(bits, i) with i counting from 0 and one push per iteration", None)
        else:
            rep.violation("C02.must", "decode_expression:index", "decode_node is not given nodes.len() as the node's index", de.where())

    eof_is_error(F, rep)
    cl = F.fn(CLOSE)
    if cl is None:
        rep.anchor("C02.must", CLOSE)
    else:
        Tc = Terms(cl)
        nx = [cs for cs in cl.calls() if cs.name == "next"]
        okk = bool(nx) and flow.success_bypasses(cl, {c.bb for c in nx}) is None
        if okk:
            # Some(_) -> Err(TrailingBytes)
            tb = _err_variant_blocks(cl, "TrailingBytes")
            okk = bool(tb)
        if okk:
            rep.ok("C02.must", "BitIter::close: trailing-byte test", "iter.next() on every success path; Some → Err(TrailingBytes)")
        else:
            rep.violation("C02.must", "close:trailing", "close() does not test for trailing bytes on every success path", cl.where())
        pad_ok = False
        for b in cl.rpo():
            t = cl.blocks[b]["t"]
            if t["k"] != "switch":
                continue
            dt = Tc.operand(t["discr"])
            s = repr(dt)
            if dt[0] == "bin" and dt[1] in ("Ne", "Eq") and "BitAnd" in s and "cached_byte" in s:
                ill = _err_variant_blocks(cl, "IllegalPadding")
                oks = {bb for bb in cl.rpo() for st in cl.blocks[bb]["s"] if st[0] == "=" and st[1][0] == 0 and st[2].get("variant") == "Ok"}
                succs = cl.succ_map()[b]
                if len(succs) == 2 and ill and oks:
                    r0, r1 = cl.reachable(succs[0]), cl.reachable(succs[1])
                    if ((r0 & ill and not r0 & oks and r1 & oks) or (r1 & ill and not r1 & oks and r0 & oks)) and \
                            all(cl.dominates(b, o) for o in oks):
                        pad_ok = True
        if pad_ok:
            rep.ok("C02.must", "BitIter::close: padding test", "cached_byte & mask != 0 → Err(IllegalPadding); dominates Ok(())")
        else:
            rep.violation("C02.must", "close:padding", "close() does not reject non-zero padding bits before returning Ok", cl.where())

    # ------------------------------------------------------------------ bound
    dn = c01.decode_node_fn(F)
    dn = F.inlined(dn, VOCAB + (dn.name,)) if dn is not None else None   # private same-file helpers are spliced in
    if dn is None:
        rep.anchor("C02.bound", DEC + "decode_node")
    else:
        Tn = Terms(dn)
        nsub = 0
        for b in dn.rpo():
            for s in dn.blocks[b]["s"]:
                if s[0] == "=" and s[2].get("k") == "bin" and s[2]["op"] in ("Sub", "SubWithOverflow", "SubUnchecked"):
                    a = Tn.operand(s[2]["a"])
                    x = Tn.operand(s[2]["b"])
                    key = "decode_node:sub@%s" % _ctor_after(dn, b)
                    if x[0] == "int":
                        # n - 1 of the word length
                        if a[0] == "call" and a[2] == "read_natural":
                            bound = _some_const(a[3][1])
                            if bound is not None and bound <= 32 and x[1] == 1:
                                rep.ok("C02.bound", "decode_node: word length n-1, n <= %d" % bound, None)
                            else:
                                rep.violation("C02.bound", "decode_node:word-bound", "word length is read with bound %s (must be a constant <= 32: "
                                              "Word::from_bits panics for n > 31)" % show(a[3][1]), "%s:%s" % (dn.file, s[3]))
                        continue
                    nsub += 1
                    good = False
                    if x[0] == "call" and x[2] == "read_natural" and len(x[3]) == 2:
                        bd = x[3][1]
                        if bd[0] == "adt" and bd[2] == "Some" and vcc.param_roots(bd[4][0], fm) == vcc.param_roots(a, fm) and a[0] == "param":
                            good = True
                    if good:
                        rep.ok("C02.bound", key, "index - read_natural(Some(index))")
                    else:
                        rep.violation("C02.bound", key, "subtraction %s - %s: the subtrahend is not bounded by the minuend" % (show(a), show(x)),
                                      "%s:%s" % (dn.file, s[3]))
        rep.floor("C02.bound(index subtractions)", nsub, 4)
        # word: from_bits(bits, n-1)
        fb = [cs for cs in dn.calls() if cs.name == "from_bits"]
        if len(fb) != 1:
            rep.anchor("C02.bound", "Word::from_bits call in decode_node")
    rn = F.fn(READ_NATURAL)
    if rn is None:
        rep.anchor("C02.bound", READ_NATURAL)
    else:
        Tn = Terms(rn)
        okk = False
        for b in rn.rpo():
            t = rn.blocks[b]["t"]
            if t["k"] != "switch":
                continue
            dt = Tn.operand(t["discr"])
            if dt[0] == "bin" and dt[1] in ("Gt", "Ge") and dt[3][0] == "int" and "try_into" in repr(dt[2]):
                k = dt[3][1] + (0 if dt[1] == "Gt" else -1)
                ov = _err_variant_blocks(rn, "Overflow")
                if k <= 31 and any(x in ov or (rn.reachable(x) & ov and not rn.in_loop(x)) for x in rn.succ_map()[b]):
                    okk = True
                    rep.ok("C02.bound", "read_natural: length guard", "len > %d → Err(Overflow) (accumulator is u32)" % k)
                    # ... and it guards *every* level: from the conversion that produces a level's length no accumulation step
                    # (n = 2n + bit) is reachable on a path that avoids the comparison
                    conv = [cs.bb for cs in rn.calls() if cs.name in ("try_into", "try_from") and rn.dominates(cs.bb, b) and cs.bb != b]
                    muls = {bb for bb in rn.rpo() for st in rn.blocks[bb]["s"] if st[0] == "=" and st[2].get("k") == "bin"
                            and st[2].get("op") in ("Mul", "MulWithOverflow", "Shl") and rn.in_loop(bb)}
                    if conv and muls:
                        src = max(conv, key=lambda x: len(rn.dominated_by(x)) * -1)
                        if muls & rn.reachable(src, avoid=(b,)):
                            rep.violation("C02.bound", "read_natural:len-guard:bypass", "the length guard can be bypassed: from the conversion of a level's length "
                                          "an accumulation step is reachable without the comparison (a length above 31 at an inner level overflows the "
                                          "32-bit accumulator)", rn.where())
                        else:
                            rep.ok("C02.bound", "read_natural: length guard on every level", None)
                else:
                    rep.violation("C02.bound", "read_natural:len-guard", "the length guard allows %d bits in a 32-bit accumulator" % (k + 1), rn.where())
                    okk = True
        if not okk:
            rep.violation("C02.bound", "read_natural:len-guard:missing", "no guard on the number of bits accumulated into the u32", rn.where())
        bi = _err_variant_blocks(rn, "BadIndex")
        gt = False
        for b in rn.rpo():
            t = rn.blocks[b]["t"]
            if t["k"] == "call" and t["f"].get("name") in ("gt", "ge") and rn.reachable(b) & bi:
                gt = True
        if gt and bi:
            rep.ok("C02.bound", "read_natural: bound check", "ret > bound → Err(BadIndex)")
        else:
            rep.violation("C02.bound", "read_natural:bound", "a value above the bound does not lead to Err(BadIndex)", rn.where())

    # ------------------------------------------------------------------ alloc
    entries = [p for p in (CONSTRUCT_DECODE, COMMIT_DECODE, REDEEM_DECODE) if p in F.fns]
    reach = F.reach_from(entries)
    rep.count("functions_reachable_from_decoders", len(reach))
    n_alloc = 0
    for p in sorted(reach):
        f0 = F.fns[p]
        f = F.inlined(f0, VOCAB) if f0.kind in ("Fn", "AssocFn") else f0   # sizes computed by the caller of a private helper are seen through it
        T = None
        seen_keys = set()
        for cs in f.calls():
            if cs.name in ("with_capacity", "from_elem", "reserve", "resize", "with_capacity_in", "reserve_exact"):
                T = T or Terms(f)
                a = cs.args[1] if cs.name in ("from_elem", "reserve", "resize", "reserve_exact") else cs.args[-1]
                t = T.operand(a)
                names = {c[2] for c in calls_in(t)}
                tainted = names & {"read_natural", "bit_width", "padded_len", "compact_len"}
                if not tainted:
                    continue
                origin = f.blocks[cs.bb].get("origin")
                key = "%s:%s" % (fm.short(origin or p), cs.name)
                if origin and key in seen_keys:
                    continue
                seen_keys.add(key)
                n_alloc += 1
                if t[0] == "call" and t[2] == "min" and any(x[0] == "int" for x in t[3]):
                    rep.ok("C02.alloc", key, show(t))
                elif p == DEC + "decode_expression" and not origin and _after_node_loop(f, cs):
                    rep.ok("C02.alloc", key + " (after decoding len nodes)", "capacity len is reached only after len nodes were decoded from the input, so it is bounded by the input length")
                elif t[0] == "call" and t[2] == "len" and ("[T]>::len" in str(t[1]) or "Vec" in str(t[1])):
                    # the length of a vector/slice that already exists (the decoded nodes): bounded by memory already held
                    rep.ok("C02.alloc", key + " (length of an existing vector)", show(t)[:80])
                elif (origin or p).startswith("simplicity::value::") and (cs.name == "from_elem" or tainted == {"bit_width"}):
                    # building a Value of a given type allocates its width: callers on the decode path are
                    # Value::zero (not reachable from decoders in practice) and product (inputs already exist)
                    rep.ok("C02.alloc", key + " (value construction)", "allocates the width of values that already exist: " + show(t)[:80])
                else:
                    rep.violation("C02.alloc", key, "allocation of %s is sized by a decoded quantity without a clamp" % show(t), cs.where())
    rep.floor("C02.alloc", n_alloc, 3)

    # ------------------------------------------------------------------ recursion
    comps, nreach, dropped = rec.classify(F, entries)
    rep.count("recursive_components_type_bounded", dropped)
    for c in comps:
        key = "scc:" + c["sig"][:150]
        if c["kind"] is None:
            rep.violation("C02.rec", "UNREVIEWED:" + c["sig"][:150], "unreviewed recursion reachable from the decoders: %s" % c["sig"], F.fns[c["members"][0]].where())
        elif c["kind"] == "input-depth":
            rep.violation("C02.rec", "input-depth:bind-unify", "%s: a crafted program overflows the stack (no depth limit, no explicit stack)" % c["reason"],
                          F.fns[c["members"][0]].where())
        else:
            rep.ok("C02.rec", key, "%s: %s" % (c["kind"], c["reason"]))
    # ---------- C02.nopanic: the decode route's converter turns what the bytes may lack into errors, not panics ----------
    import roles
    rep.rule("C02.nopanic", "the decode route's Converter methods do not unwrap/expect a value that comes from their arguments")
    n_np = 0
    for name in ("convert_witness", "convert_disconnect", "convert_data", "prune_case", "visit_node"):
        for m in roles.methods(F, "decode::DecodeFinalizer", name):
            mi = F.inlined(m)
            Tn = Terms(mi, transparent={k: v for k, v in fm.TRANSPARENT_CALLS.items() if k not in ("expect", "unwrap")})
            n_np += 1
            bad = False
            for b in [mi] + F.closures_of(m):
                Tb = Tn if b is mi else Terms(b, transparent={k: v for k, v in fm.TRANSPARENT_CALLS.items() if k not in ("expect", "unwrap")})
                for cs in b.calls():
                    if cs.name in ("expect", "unwrap") and cs.args and ("option::Option" in (cs.callee or "") or "result::Result" in (cs.callee or "")):
                        t = Tb.operand(cs.args[0])
                        from_param = [x for x in leaves(t) if x[0] in ("param", "parampath") and (x[1] if x[0] == "param" else x[1]) not in (1, "self")]
                        if from_param:
                            bad = True
                            rep.violation("C02.nopanic", "decode::DecodeFinalizer::%s:%s" % (name, cs.name),
                                          "%s() in the decoder's %s is applied to %s, which comes from the method's arguments, i.e. from the decoded bytes: "
                                          "a program that lacks it makes RedeemNode::decode panic instead of returning an error" % (cs.name, name, show(t)[:160]), cs.where())
            if not bad:
                rep.ok("C02.nopanic", "decode::DecodeFinalizer::" + name, None)
    rep.floor("C02.nopanic", n_np, 3)
    return FINISH


def _err_variant_blocks(fn, variant):
    out = set()
    for b in fn.rpo():
        for s in fn.blocks[b]["s"]:
            if s[0] == "=" and s[2].get("k") == "agg" and s[2].get("variant") == variant:
                out.add(b)
    return out


def _some_const(t):
    if t[0] == "adt" and t[2] == "Some" and t[4] and t[4][0][0] == "int":
        return t[4][0][1]
    return None


def _hidden_variant(F):
    """the decoder enum's variant for a hidden node: the one whose payload is a CMR"""
    dn = c01.codec_names(F)["dec_enum"]
    for a in F.adts.values():
        if a["path"].startswith("simplicity::bit_encoding::") and a["path"].endswith("::" + dn):
            hv = [v["name"] for v in a["variants"] if any(fld["ty"].endswith("merkle::cmr::Cmr") for fld in v["fields"])]
            if len(hv) == 1:
                return hv[0]
    return "Hidden"


def _ctor_after(fn, b):
    """name of the first DecodeNode variant built after block b (to label a subtraction site)."""
    seen = set()
    stack = [b]
    names = []
    while stack and len(seen) < 40:
        x = stack.pop(0)
        if x in seen:
            continue
        seen.add(x)
        for s in fn.blocks[x]["s"]:
            if s[0] == "=" and s[2].get("k") == "agg" and s[2].get("adt", "").endswith(DEC_ENUM[0]):
                names.append(s[2]["variant"])
        stack.extend(fn.succ_map()[x])
    return "/".join(sorted(set(names))[:4]) or "?"


def _counts_pushes(de, Td, dn):
    """the index handed to decode_node is the counter of a `0..n` loop in which every iteration that goes on pushes exactly
    one node (the decoded one), so the counter equals nodes.len()"""
    t = Td.operand(dn.args[1])
    if not (isinstance(t, tuple) and t[0] == "field" and t[2] == "0" and t[1][0] == "as" and t[1][2] == "Some"):
        return False
    nx = t[1][1]
    if not (nx[0] == "call" and nx[2] == "next" and nx[3] and nx[3][0][0] == "adt" and nx[3][0][1] == "std::ops::Range"):
        return False
    rng = dict(zip(nx[3][0][3], nx[3][0][4]))
    if rng.get("start") != ("int", 0, "usize"):
        return False
    pushes = [c for c in de.calls() if c.name == "push" and c.bb in de.reachable(dn.bb) and dn.bb in de.reachable(c.bb)]
    if len(pushes) != 1 or not any(c[2] == DN_NAME[0] for c in calls_in(Td.operand(pushes[0].args[1]))):
        return False
    avoid = {pushes[0].bb} | flow.error_blocks(de)
    for s_ in de.succs(dn.bb):
        if s_ not in avoid and dn.bb in de.reachable(s_, avoid=avoid):
            return False
    return True


def _after_node_loop(f, cs):
    """the allocation happens after the loop that calls decode_node"""
    dn = [c for c in f.calls() if c.name == DN_NAME[0]]
    if not dn:
        return False
    return cs.bb in f.reachable(dn[0].bb) and not f.in_loop(cs.bb) and f.in_loop(dn[0].bb)
