"""Check framework: reports, known findings, evidence, violation/replay files."""
import json
import os
import re
import sys
import time

VERIF = os.path.dirname(os.path.dirname(os.path.dirname(os.path.abspath(__file__))))
OUT = os.path.join(VERIF, "out")
EVID = os.path.join(VERIF, "evidence")
KNOWN = os.path.join(VERIF, "known_findings.json")


def _print(*a):
    """print that survives a closed pipe (`./check C14 | head -1` must still write the evidence file)"""
    try:
        print(*a)
    except BrokenPipeError:
        try:
            sys.stdout = open(os.devnull, "w")
        except Exception:
            pass


def slug(s):
    return re.sub(r"[^A-Za-z0-9_.-]+", "_", s)[:120]


class Report:
    def __init__(self, pid, tier):
        self.pid = pid
        self.tier = tier
        self.rules = {}          # name -> description
        self.oks = []            # (rule, instance, detail)
        self.viols = []          # dict
        self.notes = []
        self.analysed = {}       # free-form counters
        self.floors = []         # (rule, found, floor)
        self.t0 = time.time()

    # -- declaring and discharging obligations
    def rule(self, name, desc):
        self.rules[name] = desc

    def ok(self, rule, instance, detail=None):
        self.oks.append((rule, instance, detail))

    def violation(self, rule, key, msg, where=None, detail=None):
        self.viols.append({"rule": rule, "key": key, "msg": msg, "where": where, "detail": detail})

    def anchor(self, rule, what):
        """Fail closed: a construct the rule is anchored in was not found."""
        self.violation(rule, "ANCHOR:" + what, "anchor not found: %s (renamed or removed? the rule cannot "
                       "certify what it cannot find; update the rule's table)" % what)

    def floor(self, rule, found, floor):
        self.floors.append((rule, found, floor))
        if found < floor:
            self.violation(rule, "FLOOR", "rule %s matched %d instances, fewer than the %d confirmed by hand: "
                           "a rule matching less than before passes vacuously" % (rule, found, floor))

    def instances(self, rule):
        """number of instances of `rule` evaluated so far (held + violated)."""
        return sum(1 for o in self.oks if o[0] == rule) + sum(1 for v in self.viols if v["rule"] == rule and not v["key"].startswith(("ANCHOR", "FLOOR")))

    def note(self, msg):
        self.notes.append(msg)

    def count(self, key, n=1):
        self.analysed[key] = self.analysed.get(key, 0) + n

    # -- finishing
    def finish(self, level="other", extra_cov=None, assumptions=None, trusted=None, explanation=""):
        if os.environ.get("VERIF_SELFTEST"):
            # run by the thorough tier on a scratch copy with a seeded change: report on stdout only
            known = {(k["property"], k["rule"], k["key"]) for k in load_known().get("findings", [])}
            n = 0
            for v in self.viols:
                if (self.pid, v["rule"], v["key"]) not in known:
                    _print("SELFTEST-VIOLATION %s %s -- %s" % (v["rule"], v["key"], v["msg"][:300]))
                    n += 1
            _print("== selftest %s violations=%d obligations=%d" % (self.pid, n, len(self.oks) + len(self.viols)))
            return 1 if n else 0
        os.makedirs(OUT, exist_ok=True)
        os.makedirs(os.path.join(OUT, "violations"), exist_ok=True)
        os.makedirs(EVID, exist_ok=True)
        known = load_known()
        kn = {(k["property"], k["rule"], k["key"]): k for k in known.get("findings", [])}
        new_viol = []
        known_hit = []
        for v in self.viols:
            k = (self.pid, v["rule"], v["key"])
            if k in kn:
                known_hit.append((v, kn[k]))
            else:
                new_viol.append(v)
        # stale known findings (listed but no longer firing) are only noted
        fired = {(self.pid, v["rule"], v["key"]) for v in self.viols}
        for k, ent in kn.items():
            if k[0] == self.pid and k not in fired:
                self.note("known finding %s/%s no longer fires (listed in known_findings.json)" % (k[1], k[2]))
        _print("== %s  tier=%s  rules=%d  obligations=%d  discharged=%d  violations=%d  known=%d" % (
            self.pid, self.tier, len(self.rules), len(self.oks) + len(self.viols), len(self.oks),
            len(new_viol), len(known_hit)))
        for name in sorted(self.rules):
            n_ok = sum(1 for o in self.oks if o[0] == name)
            n_v = sum(1 for v in self.viols if v["rule"] == name)
            _print("   rule %-22s ok=%-4d viol=%-3d %s" % (name, n_ok, n_v, self.rules[name]))
        for k in sorted(self.analysed):
            _print("   analysed %s = %s" % (k, self.analysed[k]))
        for n in self.notes:
            _print("   note: %s" % n)
        for v, ent in known_hit:
            _print("KNOWN-FINDING: property=%s %s [%s %s] %s" % (self.pid, ent.get("id", ""), v["rule"], v["key"],
                                                                ent.get("what", v["msg"])))
        rc = 0
        for v in new_viol:
            path = os.path.join(OUT, "violations", "%s-%s-%s.json" % (self.pid, slug(v["rule"]), slug(v["key"])))
            with open(path, "w") as f:
                json.dump({"property": self.pid, "tier": self.tier, **v}, f, indent=1, default=str)
            _print("   %s %s — %s — %s" % (v.get("where") or "", v["rule"], v["key"], v["msg"]))
            _print("VIOLATION property=%s replay=%s" % (self.pid, path))
            rc = 1
        # evidence
        samples = []
        seen_rules = set()
        for (r, inst, det) in self.oks:
            if r not in seen_rules or len(samples) < 12:
                if sum(1 for s in samples if s["rule"] == r) < 3:
                    samples.append({"rule": r, "instance": inst, "detail": det, "verdict": "holds"})
                seen_rules.add(r)
        for v in self.viols[:10]:
            samples.append({"rule": v["rule"], "instance": v["key"], "detail": v["msg"],
                            "verdict": "known-finding" if (self.pid, v["rule"], v["key"]) in kn else "violation"})
        distinct = len({(o[0], str(o[1])) for o in self.oks} | {(v["rule"], v["key"]) for v in self.viols})
        cov = {
            "explanation": explanation,
            "obligations": len(self.oks) + len(self.viols),
            "discharged": len(self.oks) + len(known_hit) * 0,
            "evaluations": len(self.oks) + len(self.viols),
            "distinct_nontrivial": distinct,
            "rule": "one evaluation = one rule instance (rule template with its slots filled from the analysed "
                    "program: a call site, a match arm, a table row, a function); distinct = distinct "
                    "(rule, instance) pairs; every instance constrains at least one operand/row, so each is non-trivial",
            "samples": samples[:20],
            "rules": {k: v for k, v in self.rules.items()},
            "analysed": self.analysed,
            "floors": [{"rule": a, "found": b, "floor": c} for a, b, c in self.floors],
            "known_findings_hit": [e.get("id") for _, e in known_hit],
            "notes": self.notes[:40],
            "checker_cmd": "./check %s --tier %s" % (self.pid, self.tier),
            "trusted_base": trusted or ["rustc nightly type checker and MIR construction (simp-facts driver)",
                                        "the rule tables in /verif/engine/rules"],
        }
        if extra_cov:
            cov.update(extra_cov)
        if getattr(self, "extra", None):
            cov.update(self.extra)
        ev = {
            "property_id": self.pid,
            "tier": self.tier,
            "seed": int(os.environ.get("VERIF_SEED", "0") or 0),
            "level": level,
            "coverage": cov,
            "assumptions": assumptions or [],
            "wall_s": round(time.time() - self.t0, 2),
            "violations": len(new_viol),
        }
        with open(os.path.join(EVID, "%s.json" % self.pid), "w") as f:
            json.dump(ev, f, indent=1, default=str)
        return rc


def load_known():
    if os.path.exists(KNOWN):
        with open(KNOWN) as f:
            return json.load(f)
    return {"findings": [], "fixed": []}
