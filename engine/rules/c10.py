"""C10 — value encodings follow the type's bit layout: the three clauses that are visible in the shape of the code.

The property is about shift/mask/offset arithmetic over every type shape and is NOT decided.  Decided are three
necessary conditions whose violation makes the type-directed decoders and the pruner build a value of the wrong type or
read the wrong number of bits:
  C10.sumtype   the iterative decoders/rebuilders keep a work stack of continuations; the continuation of a *left*
                injection must carry the type of the *right* summand (Value::left(v, right_ty)) and vice versa, and the
                sub-task pushed with it must process the summand on the same side as the value it is paired with
                (as_left with Sum.0, as_right with Sum.1, as_product(..).k with Product.k); the compact decoder takes the
                left branch on a 0 bit, as CompactBitsIter writes it
  C10.padflag   Final::has_padding may only be false when the compact and padded encodings coincide: for sum it must be
                implied by (left.has_padding or right.has_padding or the widths differ), for product by
                (left.has_padding or right.has_padding) — decided by evaluating the constructor's boolean expression on
                all 12 cases (two flags x three orderings of the widths); a flag that is true more often is sound
                (it only disables the fast path) and is merely noted
  C10.typedir   inside their work loops the decoder and the pruner take every type from the task they popped, never from
                the function's own type parameter again (which is only the root task), and Value::unit() is produced only
                in the arm where the task type's bound is Unit (a zero-width product is not unit)
  C10.accessor  the views returned by ValueRef::as_left / as_right / as_product sit where the padded layout puts the
                component: offset + 1 + max(wl, wr) - wl (resp. - wr) behind a first bit of 0 (resp. 1), and
                (offset, offset + wl) for a product — compared as linear forms, so any equivalent spelling passes
  C10.lifo      the work-stack decoders/pruner process the LEFT component of a product first (its task is pushed last) and so
                pop the RIGHT result first: Value::product(l, r) takes the later pop as l and the earlier pop as r
  C10.padside   Value::left / Value::right put the padding between the tag bit and the payload, where the accessors
                (C10.accessor) look for it: in their call of the concatenation helper product(a, wa, b, wb) the absent
                (None) part of width max(wl, wr) - w comes first and the payload second
  C10.word      a Word pairs a value with the exponent n of its type 2^(2^n): built from Value::uK it carries n = log2 K,
                built as the product of two words it carries n + 1, copied from a word it carries that word's n
                (the encoder writes the length prefix from n and the payload from the value)
  C10.rebrand   a Value / ValueRef built around the byte buffer of an existing value (`inner: x.inner`) takes its type from
                that same value (`x.ty`, or a component of it obtained through as_sum / as_product): re-labelling a buffer
                with a type that comes from anywhere else (e.g. the pruner's *target* type when only the widths agree)
                makes accessors and equality read bits under a layout they were not written in
  C10.fastpath  Value::from_compact_bits hands a type to the padded decoder only on a path where has_padding() of that
                very type was tested and was false; Final values are built only by unit/sum/product
                (so the flag of every type is one of the evaluated expressions)
"""
import re
import facts as fm
import expr
from facts import Terms, show, leaves

VALUE = "simplicity::value::Value::"
FINAL = "simplicity::types::final_data::Final"

FINISH = dict(level="other",
              explanation="Provenance rule over the continuations of the iterative value decoders/pruner (which summand's type each "
                          "continuation carries), exhaustive evaluation of the has_padding expressions of the three Final constructors "
                          "over the finite abstract domain {flags} x {width orderings}, and a guard-polarity/dominance rule for the "
                          "padded fast path. The bit-level arithmetic of Value is not decided.",
              assumptions=["Value::left(v, t) / Value::right(t, v) build a value of the sum (type of v) + t / t + (type of v) (their bit-level correctness is not decided)",
                           "the padded and compact encodings of a type coincide iff no sum inside it has summands of different width"])


def last_proj(t):
    """('field', ('as', X, 'Sum'), '0') -> ('Sum', 0, X)"""
    if isinstance(t, tuple) and t and t[0] == "field" and t[2] in ("0", "1") and isinstance(t[1], tuple) and t[1][0] == "as" and t[1][2] in ("Sum", "Product"):
        return t[1][2], int(t[2]), t[1][1]
    return None


def value_side(t):
    """value payload term -> ('left'|'right'|('product',k)) according to the accessor it comes from"""
    s = expr.canon(t)
    if re.match(r"as_left\(", s):
        return "left"
    if re.match(r"as_right\(", s):
        return "right"
    m = re.match(r"as_product\(.*\)\.(\d)$", s)
    if m:
        return ("product", int(m.group(1)))
    return None


def aggregates(f, T):
    out = []
    for b in f.rpo():
        for i, s in enumerate(f.blocks[b]["s"]):
            if s[0] == "=" and s[2].get("k") == "agg" and s[2].get("agg") == "adt" and s[2]["ops"]:
                out.append((b, i, s[2]["adt"], s[2]["variant"], [T.operand(o) for o in s[2]["ops"]], s[3] if len(s) > 3 else None))
    return out


def run(ctx, rep):
    F = ctx.facts("full")
    rep.rule("C10.sumtype", "continuations of sum injections carry the other summand's type; sub-tasks pair a value side with the type of the same side; 0 bit = left")
    rep.rule("C10.typedir", "work loops use the popped task's type only; unit values only under bound == Unit")
    rep.rule("C10.accessor", "as_left/as_right/as_product position their views by the padded layout formulas (linear normal form)")
    rep.rule("C10.padflag", "has_padding is implied by the presence of padding, for every combination of child flags and width orderings")
    rep.rule("C10.fastpath", "padded fast path of the compact decoder only under a false has_padding() of the same type; Final built only by unit/sum/product")
    rep.rule("C10.rebrand", "a value literal that reuses the buffer of a value x takes its type from x.ty (or a component of it)")
    rep.rule("C10.lifo", "product rebuild: left sub-task pushed last (processed first), right result popped first")
    rep.rule("C10.padside", "Value::left/right concatenate (padding, payload) in that order")
    rep.rule("C10.word", "Word literals pair a value with the exponent of its own width")
    sumtype(F, rep)
    words(F, rep)
    lifo(F, rep)
    padside(F, rep)
    rebrand(F, rep)
    typedirected(F, rep)
    accessors(F, rep)
    padflag(F, rep)
    fastpath(F, rep)
    return FINISH


# ---------------------------------------------------------------------------------------------------------------------

STACK_VOCAB = ("left", "right", "product", "pop", "push", "as_left", "as_right", "as_product", "bound", "from_padded_bits", "from_compact_bits",
               "has_padding", "unit", "next", "prune", "to_value", "bit_width")


def sumtype(F, rep):
    n_sites = 0
    for f0 in sorted(F.fns.values(), key=lambda x: x.path):
        if not f0.path.startswith("simplicity::"):
            continue
        # private helpers shared by the work-stack functions (`inject_left(results, ty)`) are spliced into their callers
        f = F.inlined(f0, STACK_VOCAB) if f0.kind in ("Fn", "AssocFn") and f0.path.startswith("simplicity::value::") else f0
        calls = [cs for cs in f.calls() if cs.callee in (VALUE + "left", VALUE + "right")]
        if not calls:
            continue
        T = Terms(f)
        conts = {}   # (enum adt, variant) -> 'left' | 'right'  (which injection the continuation performs)
        for cs in calls:
            side = cs.name
            ty_arg = T.operand(cs.args[1] if side == "left" else cs.args[0])
            # payload of a matched continuation: ('field', ('as', popped, V), '0')
            from facts import calls_in as _ci
            works_by_stack = any(c.name == "pop" and f.in_loop(c.bb) for c in f.calls())
            val_arg = T.operand(cs.args[0] if side == "left" else cs.args[1])
            if works_by_stack and isinstance(ty_arg, tuple) and ty_arg[0] == "field" and isinstance(ty_arg[1], tuple) and ty_arg[1][0] == "as" \
                    and ty_arg[1][2] in ("Sum", "Product"):
                # an injection built right where the sum type is taken apart: in an iterative algorithm its payload cannot
                # have been processed yet (the processed payload only exists on the result stack, after its sub-task ran)
                rep.violation("C10.sumtype", "%s:%s:direct" % (f.name, side), "%s builds Value::%s(%s, ..) directly in the arm that takes the sum type apart: "
                              "the payload is the input's own component, not the result of its sub-task, so whatever the loop does to components "
                              "(pruning, decoding) is skipped for it" % (f.path, side, _brief(val_arg)), cs.where())
                continue
            if works_by_stack and isinstance(ty_arg, tuple) and ty_arg[0] == "field" and isinstance(ty_arg[1], tuple) and ty_arg[1][0] == "as" \
                    and not any(c[2] == "pop" for c in _ci(val_arg)):
                rep.violation("C10.sumtype", "%s:%s:payload" % (f.name, side), "%s: the payload of Value::%s under continuation %s is %s, not a popped result"
                              % (f.path, side, ty_arg[1][2], _brief(val_arg)), cs.where())
                continue
            if isinstance(ty_arg, tuple) and ty_arg[0] == "field" and isinstance(ty_arg[1], tuple) and ty_arg[1][0] == "as":
                conts[ty_arg[1][2]] = side
                n_sites += 1
                rep.ok("C10.sumtype", "%s: Value::%s takes its type from continuation %s" % (f.name, side, ty_arg[1][2]), None)
            elif ty_arg[0] == "param" or expr.canon(ty_arg) in ("unit()",) or ty_arg[0] == "call":
                rep.note("%s: Value::%s(%s) takes a caller-supplied type (public constructor)" % (fm.short(f.path), side, expr.canon(ty_arg)[:40]))
            else:
                rep.violation("C10.sumtype", "%s:%s:typearg" % (f.name, side), "type argument of Value::%s in %s has unrecognised origin %s" % (side, f.path, expr.canon(ty_arg)[:100]), f.where())
        if not conts:
            continue
        aggs = aggregates(f, T)
        enum_adts = {a[2] for a in aggs if a[3] in conts}
        for (b, i, adt, variant, ops, line) in aggs:
            if adt not in enum_adts:
                continue
            key = "%s:%s" % (f.name, variant)
            if variant in conts:
                pr = last_proj(ops[0])
                want = 1 if conts[variant] == "left" else 0    # left injection needs the RIGHT summand's type
                if pr is None or pr[0] != "Sum":
                    rep.violation("C10.sumtype", key, "continuation %s in %s is built from %s, not from a summand of the type being processed" % (variant, f.path, expr.canon(ops[0])[:100]), f.where())
                    continue
                if pr[1] != want:
                    rep.violation("C10.sumtype", key, "%s: continuation %s (Value::%s) carries summand %d of the sum; Value::%s needs the type of the other summand (%d)"
                                  % (f.path, variant, conts[variant], pr[1], conts[variant], want), "%s:%s" % (f.file, line))
                    continue
                # the sub-task pushed with it processes the summand on the value's own side
                sib = sibling_task(f, T, aggs, b, i, adt, set(conts))
                if sib is None:
                    rep.violation("C10.sumtype", key + ":subtask", "%s: no sub-task is pushed together with continuation %s" % (f.path, variant), f.where())
                    continue
                sp = [last_proj(o) for o in sib[4]]
                sp = [p for p in sp if p is not None]
                if len(sp) != 1 or sp[0][0] != "Sum" or sp[0][1] != 1 - want or expr.canon(sp[0][2]) != expr.canon(pr[2]):
                    rep.violation("C10.sumtype", key + ":subtask", "%s: with continuation %s the sub-task processes %s; expected summand %d of the same sum"
                                  % (f.path, variant, [expr.canon(o)[:80] for o in sib[4]], 1 - want), "%s:%s" % (f.file, sib[5]))
                    continue
                vs = [value_side(o) for o in sib[4]]
                vs = [v for v in vs if v is not None]
                if vs and vs[0] != conts[variant]:
                    rep.violation("C10.sumtype", key + ":value", "%s: the %s injection is rebuilt from the value's %s side" % (f.path, conts[variant], vs[0]), "%s:%s" % (f.file, sib[5]))
                    continue
                rep.ok("C10.sumtype", key, "carries Sum.%d, sub-task Sum.%d%s" % (want, 1 - want, " of " + str(vs[0]) + " value" if vs else ""))
            else:
                # other tasks: a value side must be paired with the type of the same side
                vs = [value_side(o) for o in ops]
                ps = [last_proj(o) for o in ops]
                v = [x for x in vs if x is not None]
                p = [x for x in ps if x is not None]
                if v and p and isinstance(v[0], tuple):
                    if p[0][0] != "Product" or p[0][1] != v[0][1]:
                        rep.violation("C10.sumtype", "%s:%s:product%d" % (f.name, variant, v[0][1]), "%s: component %d of the value is paired with %s.%d of the type" % (f.path, v[0][1], p[0][0], p[0][1]), "%s:%s" % (f.file, line))
                    else:
                        rep.ok("C10.sumtype", "%s:%s:product%d" % (f.name, variant, v[0][1]), None)
        # 0 bit = left in the compact decoder
        if f.name == "from_compact_bits":
            bit_polarity(F, rep, f, T, aggs, conts)
    rep.count("sum_injection_sites", n_sites)
    rep.floor("C10.sumtype", rep.instances("C10.sumtype"), 12)


def sibling_task(f, T, aggs, b, i, adt, cont_variants):
    """the next aggregate of the same enum along the straight-line successor chain"""
    order = {}
    cur, seen = b, set()
    chain = []
    while cur is not None and cur not in seen and len(chain) < 8:
        seen.add(cur)
        chain.append(cur)
        t = f.blocks[cur]["t"]
        if t["k"] == "goto":
            cur = t["target"]
        elif t["k"] == "call":
            cur = t.get("target")
        else:
            cur = None
    for a in aggs:
        if a[2] != adt or a[3] in cont_variants:
            continue
        if a[0] in chain and (a[0] != b or a[1] > i):
            if chain.index(a[0]) >= 0:
                return a
    return None


def bit_polarity(F, rep, f, T, aggs, conts):
    """the block building the left continuation is reached on bit == false"""
    left_v = [v for v, s in conts.items() if s == "left"]
    right_v = [v for v, s in conts.items() if s == "right"]
    lb = [a[0] for a in aggs if a[3] in left_v]
    rb = [a[0] for a in aggs if a[3] in right_v]
    if len(lb) != 1 or len(rb) != 1:
        rep.anchor("C10.sumtype", "from_compact_bits: one construction site per continuation")
        return
    for b in f.rpo():
        t = f.blocks[b]["t"]
        if t["k"] != "switch":
            continue
        tg = {v: x for v, x in t["targets"]}
        succ = {"0": tg.get("0"), "else": t["otherwise"]}
        if succ["0"] is None:
            continue
        if f.dominates(succ["0"], lb[0]) and f.dominates(succ["else"], rb[0]):
            zero_is = "left"
        elif f.dominates(succ["0"], rb[0]) and f.dominates(succ["else"], lb[0]):
            zero_is = "right"
        else:
            continue
        d = T.operand(t["discr"])
        nots = 0
        while isinstance(d, tuple) and d and d[0] == "un" and d[1] == "Not":
            nots += 1
            d = d[2]
        from facts import calls_in
        if not any(c[2] == "next" for c in calls_in(d)):
            continue
        # discriminant value 0 <=> (bit if nots even else !bit) == false
        bit_for_zero = False if nots % 2 == 0 else True
        left_bit = bit_for_zero if zero_is == "left" else (not bit_for_zero)
        if left_bit is False:
            rep.ok("C10.sumtype", "from_compact_bits: bit 0 selects the left summand", None)
        else:
            rep.violation("C10.sumtype", "from_compact_bits:polarity", "the compact decoder takes the left summand on a 1 bit; CompactBitsIter writes 0 for left", f.where())
        enc = F.fn("<simplicity::value::CompactBitsIter<'_> as std::iter::Iterator>::next")
        if enc is not None:
            Te = Terms(enc)
            got = {}
            for cs in enc.calls():
                if cs.name in ("as_left", "as_right"):
                    # the constant returned in the region where the accessor yielded Some
                    tgt = cs.t.get("target")
                    for bb in sorted(enc.dominated_by(tgt)) if tgt is not None else []:
                        for s in enc.blocks[bb]["s"]:
                            if s[0] == "=" and s[2].get("k") == "agg" and s[2].get("variant") == "Some" and s[2]["ops"] and s[2]["ops"][0].get("k") == "const" and "int" in s[2]["ops"][0]:
                                got.setdefault(cs.name, set()).add(bool(s[2]["ops"][0]["int"]))
            if got.get("as_left") == {False} or (got.get("as_left") and False in got["as_left"] and got.get("as_right") == {True}):
                rep.ok("C10.sumtype", "CompactBitsIter: left is written as 0, right as 1", None)
            elif got:
                # as_left's region contains the as_right region (else-branch): left must include False, right must be {True}
                if False in got.get("as_left", set()) and got.get("as_right") == {True}:
                    rep.ok("C10.sumtype", "CompactBitsIter: left is written as 0, right as 1", None)
                else:
                    rep.violation("C10.sumtype", "CompactBitsIter:polarity", "CompactBitsIter yields %s; the decoder reads 0 as left" % got, enc.where())
        return
    rep.anchor("C10.sumtype", "from_compact_bits: branch on the tag bit")


# ---------------------------------------------------------------------------------------------------------------------

def eval_flag(f, field, env_atoms, ord_):
    """abstractly execute constructor f; returns the boolean stored in `field` of the Final aggregate, or a string error.
    env_atoms: {'left.has_padding': bool, 'right.has_padding': bool}; ord_: '<' '=' '>' for left.bit_width vs right.bit_width"""
    names = {i + 1: n for i, n in enumerate(f.param_names())}
    sym = {i: n for i, n in names.items()}     # local -> symbolic path
    val = {}                                    # local -> bool
    b = 0
    steps = 0

    def place_sym(p):
        base = sym.get(p[0])
        if base is None:
            return None
        out = base
        for pr in p[1]:
            if pr == "*":
                continue
            if isinstance(pr, str) and pr.startswith("."):
                out += pr
            else:
                return None
        return out

    def operand(o):
        """-> ('bool', v) | ('sym', s) | None"""
        if o.get("k") == "const":
            if "int" in o and o.get("ty") == "bool":
                return ("bool", bool(o["int"]))
            return None
        if o.get("k") in ("copy", "move"):
            p = o["p"]
            if not p[1] and p[0] in val:
                return ("bool", val[p[0]])
            s = place_sym(p)
            if s is not None:
                if s in env_atoms:
                    return ("bool", env_atoms[s])
                return ("sym", s)
        return None

    while steps < 400:
        steps += 1
        blk = f.blocks[b]
        for s in blk["s"]:
            if s[0] != "=":
                continue
            dst, rv = s[1], s[2]
            if dst[1]:
                continue
            d = dst[0]
            val.pop(d, None)
            sym.pop(d, None)
            k = rv.get("k")
            if k == "use":
                r = operand(rv["a"])
                if r and r[0] == "bool":
                    val[d] = r[1]
                elif r and r[0] == "sym":
                    sym[d] = r[1]
            elif k == "ref":
                ps = place_sym(rv["p"])
                if ps is not None:
                    sym[d] = ps
            elif k == "un" and rv.get("op") == "Not":
                r = operand(rv["a"])
                if r and r[0] == "bool":
                    val[d] = not r[1]
            elif k == "bin":
                a, c = operand(rv["a"]), operand(rv["b"])
                op = rv.get("op")
                if a and c and a[0] == "sym" and c[0] == "sym" and {a[1], c[1]} == {"left.bit_width", "right.bit_width"}:
                    o = ord_ if a[1] == "left.bit_width" else {"<": ">", ">": "<", "=": "="}[ord_]
                    table = {"Ne": o != "=", "Eq": o == "=", "Lt": o == "<", "Le": o in "<=", "Gt": o == ">", "Ge": o in ">="}
                    if op in table:
                        val[d] = table[op]
                elif a and c and a[0] == "bool" and c[0] == "bool" and op in ("BitOr", "BitAnd", "BitXor", "Eq", "Ne"):
                    val[d] = {"BitOr": a[1] or c[1], "BitAnd": a[1] and c[1], "BitXor": a[1] != c[1], "Eq": a[1] == c[1], "Ne": a[1] != c[1]}[op]
            elif k == "agg" and str(rv.get("adt", "")) == FINAL:
                fields = rv.get("fields") or []
                if field in fields:
                    r = operand(rv["ops"][fields.index(field)])
                    if r and r[0] == "bool":
                        return r[1]
                    return "the value stored in `%s` is not a function of the child flags and the ordering of the widths" % field
        t = blk["t"]
        k = t["k"]
        if k == "goto":
            b = t["target"]
        elif k == "call":
            # Deref::deref and friends are transparent for symbolic paths
            dest = t.get("dest")
            if dest and not dest[1]:
                val.pop(dest[0], None)
                sym.pop(dest[0], None)
                if t["f"].get("name") in ("deref", "as_ref", "borrow", "clone") and t["args"]:
                    r = operand(t["args"][0])
                    if r and r[0] == "sym":
                        sym[dest[0]] = r[1]
            if t.get("target") is None:
                return "diverges"
            b = t["target"]
        elif k == "switch":
            r = operand(t["discr"])
            if not r or r[0] != "bool":
                return "branch on a value that is not a function of the child flags and the ordering of the widths"
            nxt = None
            for v, tg in t["targets"]:
                if int(v) == int(r[1]):
                    nxt = tg
            b = nxt if nxt is not None else t["otherwise"]
        elif k in ("drop", "assert"):
            b = t["target"]
        else:
            return "no Final aggregate reached"
    return "evaluation did not terminate"


def padflag(F, rep):
    spec = {
        "sum": lambda a, b, o: a or b or o != "=",
        "product": lambda a, b, o: a or b,
    }
    for name, sp in sorted(spec.items()):
        f = F.fn(FINAL + "::" + name)
        f = F.inlined(f) if f is not None else None
        if f is None:
            rep.anchor("C10.padflag", "Final::" + name)
            continue
        over = []
        for a in (False, True):
            for b in (False, True):
                for o in "<=>":
                    got = eval_flag(f, "has_padding", {"left.has_padding": a, "right.has_padding": b}, o)
                    key = "%s: left.has_padding=%s right.has_padding=%s widths %s" % (name, a, b, {"<": "left<right", "=": "equal", ">": "left>right"}[o])
                    if isinstance(got, str):
                        rep.violation("C10.padflag", key, "Final::%s: %s" % (name, got), f.where())
                        continue
                    want = sp(a, b, o)
                    if want and not got:
                        rep.violation("C10.padflag", key, "Final::%s reports has_padding = false for a type whose compact and padded encodings differ (%s): "
                                      "from_compact_bits would read the padded width from a compact stream" % (name, key.split(": ", 1)[1]), f.where())
                    else:
                        rep.ok("C10.padflag", key, "flag=%s padding=%s" % (got, want))
                        if got and not want:
                            over.append(key)
        if over:
            rep.note("Final::%s sets has_padding in %d case(s) without padding (sound; only disables the fast path)" % (name, len(over)))
    f = F.fn(FINAL + "::unit")
    if f is not None:
        got = eval_flag(f, "has_padding", {}, "=")
        rep.ok("C10.padflag", "unit", "flag=%s (any value is sound: unit has no bits)" % got)
    rep.floor("C10.padflag", rep.instances("C10.padflag"), 25)


def words(F, rep):
    n = 0
    for f in sorted(F.fns.values(), key=lambda x: x.path):
        if not f.path.startswith("simplicity::"):
            continue
        T = None
        for b in f.rpo():
            for st in f.blocks[b]["s"]:
                if not (st[0] == "=" and st[2].get("k") == "agg" and st[2].get("agg") == "adt" and st[2].get("adt") == "simplicity::value::Word"):
                    continue
                T = T or Terms(f)
                d = dict(zip(st[2].get("fields") or [], [T.operand(o) for o in st[2]["ops"]]))
                v, nn = d.get("value"), d.get("n")
                if v is None or nn is None:
                    continue
                key = fm.short(f.path)
                where = "%s:%s" % (f.file, st[3] if len(st) > 3 else f.line)
                m = re.fullmatch(r"simplicity::value::Value::u(\d+)", v[1]) if v[0] == "call" else None
                if m:
                    n += 1
                    k = int(m.group(1))
                    want = k.bit_length() - 1
                    if nn[0] == "int" and nn[1] == want and 1 << want == k:
                        rep.ok("C10.word", "%s: u%d with n = %d" % (key, k, want), None)
                    else:
                        rep.violation("C10.word", key + ":n", "%s pairs a %d-bit value with n = %s; 2^(2^n) = %d needs n = %d"
                                      % (f.path, k, expr.canon(nn), k, want), where)
                elif v[0] == "call" and v[1] == VALUE + "product" and len(v[3]) == 2:
                    parts = [a for a in v[3] if isinstance(a, tuple) and a[0] == "field" and a[2] == "value"]
                    if len(parts) != 2:
                        continue
                    n += 1
                    base_n = ("field", parts[0][1], "n")
                    t = nn
                    while isinstance(t, tuple) and t and t[0] == "field" and t[2] == "0" and t[1][0] == "bin":
                        t = t[1]
                    okk = isinstance(t, tuple) and t[0] == "bin" and t[1] in ("Add", "AddWithOverflow", "AddUnchecked") and (
                        (t[2] == base_n and t[3][:2] == ("int", 1)) or (t[3] == base_n and t[2][:2] == ("int", 1)))
                    if okk:
                        rep.ok("C10.word", "%s: product of two words with n + 1" % key, None)
                    else:
                        rep.violation("C10.word", key + ":n", "%s builds a word from the product of two 2^(2^n)-bit words but stores n = %s; the product "
                                      "has 2^(2^(n+1)) bits, so n + 1 is needed" % (f.path, expr.canon(nn)), where)
                elif isinstance(v, tuple) and v[0] == "field" and v[2] == "value":
                    n += 1
                    if nn == ("field", v[1], "n"):
                        rep.ok("C10.word", "%s: copy of a word" % key, None)
                    else:
                        rep.violation("C10.word", key + ":n", "%s copies the value of a word but stores n = %s" % (f.path, expr.canon(nn)), where)
    # the byte order of the word constructors that take an integer: the bit encoding of 2^(2^n) is most significant bit first,
    # so a multi-byte integer goes in big-endian (as from_byte_array / u256 / u512 take their bytes, in order)
    n_be = 0
    for k in (16, 32, 64, 128):
        f = F.fn(VALUE + "u%d" % k)
        if f is None:
            continue
        T = Terms(f)
        for b in f.rpo():
            for st in f.blocks[b]["s"]:
                if st[0] == "=" and st[2].get("k") == "agg" and st[2].get("adt") == "simplicity::value::Value":
                    d = dict(zip(st[2].get("fields") or [], [T.operand(o) for o in st[2]["ops"]]))
                    from facts import calls_in as _ci
                    conv = {c[2] for c in _ci(d.get("inner")) if c[2] in ("to_be_bytes", "to_le_bytes", "to_ne_bytes")}
                    if not conv:
                        continue
                    n_be += 1
                    if conv == {"to_be_bytes"}:
                        rep.ok("C10.word", "Value::u%d stores its bytes big-endian" % k, None)
                    else:
                        rep.violation("C10.word", "Value::u%d:byteorder" % k, "Value::u%d fills its buffer with %s: the value's bits are then not the integer's "
                                      "bits most significant first, unlike every other word constructor and decoder" % (k, sorted(conv)), f.where())
    rep.count("word_literals_judged", n)
    rep.floor("C10.word", n, 10)


def _pop_site(t):
    """the single `pop` call site a term derives from, or None"""
    sites = set()
    from facts import calls_in
    for c in calls_in(t):
        if c[2] == "pop" and len(c) > 6 and isinstance(c[6], tuple) and c[6][0] == "site":
            sites.add(c[6][1])
    return next(iter(sites)) if len(sites) == 1 else None


def lifo(F, rep):
    n = 0
    for f0 in sorted(F.fns.values(), key=lambda x: x.path):
        if not f0.path.startswith("simplicity::value::") or f0.kind == "Closure":
            continue
        f = F.inlined(f0, STACK_VOCAB)
        if not any(cs.callee == VALUE + "product" for cs in f.calls()):
            continue
        T = Terms(f)
        T.site_names = {"pop"}
        for cs in f.calls():
            if cs.callee != VALUE + "product":
                continue
            pl, pr = _pop_site(T.operand(cs.args[0])), _pop_site(T.operand(cs.args[1]))
            if pl is None or pr is None:
                continue
            n += 1
            key = "%s: Value::product(l, r) from the result stack" % f0.name
            if pl == pr:
                rep.violation("C10.lifo", f0.name + ":pop", "%s: both arguments of Value::product come from the same pop" % f0.path, cs.where())
            elif f.dominates(pr, pl):
                rep.ok("C10.lifo", key, "r is popped first, l second")
            else:
                rep.violation("C10.lifo", f0.name + ":pop", "%s rebuilds a product as Value::product(first pop, second pop): the right component was "
                              "pushed last, so the first pop is the RIGHT component — the halves are exchanged" % f0.path, cs.where())
        # sub-task order: the task carrying Product.1 is pushed before the task carrying Product.0
        pushes = {}
        for cs in f.calls():
            if cs.name != "push" or len(cs.args) < 2:
                continue
            t = T.operand(cs.args[1])
            if not (isinstance(t, tuple) and t and t[0] == "adt"):
                continue
            for o in t[4]:
                lp = last_proj(o)
                if lp and lp[0] == "Product":
                    pushes.setdefault(expr.canon(lp[2]), {})[lp[1]] = cs
        for subj, d in sorted(pushes.items()):
            if 0 in d and 1 in d:
                n += 1
                key = "%s: sub-tasks of a product" % f0.name
                if f.dominates(d[1].bb, d[0].bb) and d[1].bb != d[0].bb:
                    rep.ok("C10.lifo", key, "task for component 1 pushed first, component 0 last (processed first)")
                else:
                    rep.violation("C10.lifo", f0.name + ":push", "%s pushes the task of the left component before that of the right one: the right "
                                  "component is then processed (and its bits consumed) first" % f0.path, d[0].where())
    rep.count("product_rebuild_sites", n)
    rep.floor("C10.lifo", n, 4)


def padside(F, rep):
    n = 0
    for nm in ("left", "right"):
        f0 = F.fn(VALUE + nm)
        if f0 is None:
            rep.anchor("C10.padside", "Value::" + nm)
            continue
        f = F.inlined(f0, ("product", "right_shift_1", "bit_width"))
        T = Terms(f)
        cat = [cs for cs in f.calls() if cs.callee == "simplicity::value::product" and len(cs.args) == 4]
        if len(cat) != 1:
            rep.note("Value::%s does not build its buffer with one call of the concatenation helper product(a, wa, b, wb): layout not decided" % nm)
            continue
        a, b = T.operand(cat[0].args[0]), T.operand(cat[0].args[2])

        def absent(t):
            return isinstance(t, tuple) and t and t[0] == "adt" and t[2] == "None"

        def payload(t):
            return isinstance(t, tuple) and t and t[0] == "adt" and t[2] == "Some" and any(x[0] == "parampath" and x[3][-1:] == ("inner",) for x in leaves(t))
        n += 1
        if absent(a) and payload(b):
            rep.ok("C10.padside", "Value::%s: product(padding, payload)" % nm, None)
        elif payload(a) and absent(b):
            rep.violation("C10.padside", "Value::%s:order" % nm, "Value::%s concatenates (payload, padding): the payload then sits directly behind the tag bit, "
                          "but as_%s looks for it behind the padding, at offset 1 + max(wl, wr) - w" % (nm, nm), cat[0].where())
        else:
            rep.note("Value::%s: arguments of product() not recognised as (absent, payload): layout not decided" % nm)
            n -= 1
    rep.floor("C10.padside", n, 2)


VALUE_ADTS = ("simplicity::value::Value", "simplicity::value::ValueRef")


def _peel(t):
    while isinstance(t, tuple) and t and t[0] in ("ref", "deref") and len(t) >= 2:
        t = t[1]
    return t


def _derived_only(t, allowed, hit):
    """every data leaf of t lies inside the sub-term `allowed`; constants and argument-less calls are neutral"""
    if t == allowed:
        hit.append(1)
        return True
    if not isinstance(t, tuple) or not t:
        return True
    k = t[0]
    if k in ("int", "str", "zst", "bytes", "constitem", "fnitem"):
        return True
    if k in ("param", "loop", "deep", "unknown", "undef", "tls", "constunk", "closure", "phi"):
        return False
    if k == "call":
        return all(_derived_only(a, allowed, hit) for a in t[3])
    ok = True
    for x in t[1:]:
        if isinstance(x, tuple):
            if x and isinstance(x[0], tuple):
                ok = all([_derived_only(y, allowed, hit) for y in x]) and ok
            else:
                ok = _derived_only(x, allowed, hit) and ok
    return ok


def _brief(t):
    c = expr.canon(t)
    c = re.sub(r"pop\((?:[^()]|\([^()]*\)|\((?:[^()]|\([^()]*\))*\))*\)@Some\.0", "<popped task>", c)
    return c if len(c) <= 70 else c[:33] + "…" + c[-33:]


def rebrand(F, rep):
    n = 0
    views = []
    lowered = set()
    for f0 in sorted(F.fns.values(), key=lambda x: x.path):
        if not f0.path.startswith("simplicity::value::") or f0.kind == "Closure":
            continue
        f = F.inlined(f0, ("as_sum", "as_product"))
        lowered |= set(getattr(f, "lowered_closures", ()))
        views.append(f)
    for f0 in sorted(F.fns.values(), key=lambda x: x.path):
        if f0.path.startswith("simplicity::") and (f0.kind == "Closure" or not f0.path.startswith("simplicity::value::")) and f0.path not in lowered:
            views.append(f0)
    for f in views:
        T = None
        k_in_fn = 0
        for b in f.rpo():
            for st in f.blocks[b]["s"]:
                if not (st[0] == "=" and st[2].get("k") == "agg" and st[2].get("agg") == "adt" and st[2].get("adt") in VALUE_ADTS):
                    continue
                T = T or Terms(f)
                d = dict(zip(st[2].get("fields") or [], [T.operand(o) for o in st[2]["ops"]]))
                if "inner" not in d or "ty" not in d:
                    continue
                inner = _peel(d["inner"])
                if not (isinstance(inner, tuple) and inner and inner[0] == "field" and inner[2] == "inner"):
                    continue   # a freshly built buffer: its layout is the constructor's business (bit arithmetic, not decided)
                k_in_fn += 1
                n += 1
                base = inner[1]
                allowed = ("field", base, "ty")
                hit = []
                key = "%s#%d" % (fm.short(f.path), k_in_fn)
                if _derived_only(d["ty"], allowed, hit) and hit:
                    rep.ok("C10.rebrand", "%s: buffer of %s with type %s" % (key, _brief(base), _brief(d["ty"])), None)
                else:
                    rep.violation("C10.rebrand", "%s:%s" % (fm.short(f.path), _brief(d["ty"])),
                                  "%s builds a %s around the buffer of `%s` but labels it with the type `%s`, which is not derived from `%s.ty`"
                                  % (f.path, st[2]["adt"].rsplit("::", 1)[-1], _brief(base), _brief(d["ty"]), _brief(base)),
                                  "%s:%s" % (f.file, st[3] if len(st) > 3 else f.line))
    # the (buffer, bit offset) pairs the private concatenation helper hands back: a reused buffer keeps its own offset
    n_pairs = 0
    for f in sorted(F.fns.values(), key=lambda x: x.path):     # each function on its own: no infeasible spliced branches
        if not f.path.startswith("simplicity::value::"):
            continue
        T = None
        for b in f.rpo():
            for st in f.blocks[b]["s"]:
                if not (st[0] == "=" and st[2].get("k") == "agg" and st[2].get("agg") == "tuple" and len(st[2]["ops"]) == 2):
                    continue
                lt = f.locals[st[1][0]] if not st[1][1] else ""
                lt = lt if isinstance(lt, str) else lt.get("ty", "")
                if "Arc<[u8]>" not in lt or "usize" not in lt:
                    continue
                T = T or Terms(f)
                buf, off = _peel(T.operand(st[2]["ops"][0])), T.operand(st[2]["ops"][1])
                if not (isinstance(buf, tuple) and buf and buf[0] == "field" and buf[2] == "0" and isinstance(buf[1], tuple) and buf[1][0] == "field"):
                    continue     # a freshly built buffer
                n_pairs += 1
                want = ("field", buf[1], "1")
                key = "%s: reused buffer %s" % (fm.short(f.path), _brief(buf))
                if _peel(off) == want:
                    rep.ok("C10.rebrand", key + " keeps its bit offset", None)
                else:
                    rep.violation("C10.rebrand", "%s:offset:%s" % (fm.short(f.path), _brief(buf)), "%s hands back the buffer `%s` with bit offset `%s`; the value it "
                                  "belongs to starts at `%s` in that buffer (a word narrower than a byte, a sum or a sub-value view does not start at bit 0)"
                                  % (f.path, _brief(buf), _brief(off), _brief(want)), "%s:%s" % (f.file, st[3] if len(st) > 3 else f.line))
    rep.count("reused_buffer_offset_pairs", n_pairs)
    rep.count("buffer_reusing_value_literals", n)
    rep.floor("C10.rebrand", n, 7)


def fastpath(F, rep):
    # Final aggregates only in unit/sum/product (and the derived Clone)
    allowed = {FINAL + "::unit", FINAL + "::sum", FINAL + "::product"}
    builders = set()
    for f in F.fns.values():
        for b in range(len(f.blocks)):
            for s in f.blocks[b]["s"]:
                if s[0] == "=" and s[2].get("k") == "agg" and s[2].get("adt") == FINAL:
                    builders.add(f.path)
    for p in sorted(builders):
        if p in allowed:
            rep.ok("C10.fastpath", "builder " + fm.short(p), None)
        elif "Clone" in p and "clone" in p:
            rep.ok("C10.fastpath", "builder " + fm.short(p), "derived Clone copies the flag")
        else:
            rep.violation("C10.fastpath", "builder:" + p, "%s builds a Final directly: its has_padding flag is not one of the evaluated expressions" % p)
    if not allowed <= builders:
        rep.anchor("C10.fastpath", "Final::{unit,sum,product} aggregates")
    f = F.fn(VALUE + "from_compact_bits")
    if f is None:
        rep.anchor("C10.fastpath", "Value::from_compact_bits")
        return
    T = Terms(f)
    fast = [cs for cs in f.calls() if cs.callee == VALUE + "from_padded_bits"]
    if not fast:
        rep.note("from_compact_bits has no padded fast path")
        return
    guards = [cs for cs in f.calls() if cs.name == "has_padding"]
    for cs in fast:
        ty = expr.canon(T.operand(cs.args[1]))
        ok = False
        for g in guards:
            if expr.canon(T.operand(g.args[0])) != ty:
                continue
            # the switch on the guard's result
            cur = g.t.get("target")
            for _ in range(4):
                t = f.blocks[cur]["t"]
                if t["k"] == "switch":
                    d = T.operand(t["discr"])
                    false_target = None
                    for v, tg in t["targets"]:
                        if v == "0":
                            false_target = tg
                    if false_target is None:
                        # switch [1 -> X] else Y : false goes to otherwise
                        false_target = t["otherwise"] if all(v != "0" for v, _ in t["targets"]) else None
                    nots = 0
                    while isinstance(d, tuple) and d and d[0] == "un" and d[1] == "Not":
                        nots += 1
                        d = d[2]
                    true_target = [tg for v, tg in t["targets"] if v != "0"]
                    true_target = true_target[0] if true_target else t["otherwise"]
                    no_padding_target = false_target if nots % 2 == 0 else true_target
                    padding_target = true_target if nots % 2 == 0 else false_target
                    if no_padding_target is not None and f.dominates(no_padding_target, cs.bb) and not f.dominates(padding_target, cs.bb):
                        ok = True
                    # match guards compile to: on true -> arm, on false -> next arm; the fast path is the fall-through arm
                    elif padding_target is not None and not f.dominates(padding_target, cs.bb) and cs.bb not in f.reachable(padding_target, avoid={no_padding_target} if no_padding_target is not None else set()):
                        ok = True
                    break
                if t["k"] == "goto":
                    cur = t["target"]
                else:
                    break
        if ok:
            rep.ok("C10.fastpath", "from_compact_bits: padded decoder only when !has_padding(%s)" % ty[-40:], None)
        else:
            rep.violation("C10.fastpath", "from_compact_bits:guard", "from_padded_bits(%s) is reachable without a false has_padding() test of that type" % ty[:80], f.where())
    rep.floor("C10.fastpath", rep.instances("C10.fastpath"), 4)


# ---------------------------------------------------------------------------------------------------------------------

def typedirected(F, rep):
    for nm, tyname in (("from_compact_bits", "ty"), ("prune", "pruned_ty")):
        f = F.fn(VALUE + nm)
        if f is None:
            rep.anchor("C10.typedir", "Value::" + nm)
            continue
        f = F.inlined(f, STACK_VOCAB)
        T = Terms(f)
        names = f.param_names()
        if tyname not in names:
            rep.anchor("C10.typedir", "Value::%s parameter %s" % (nm, tyname))
            continue
        pidx = names.index(tyname) + 1
        bad = []
        n_uses = 0
        for b in f.rpo():
            if not f.in_loop(b):
                continue
            ops = []
            for s in f.blocks[b]["s"]:
                if s[0] == "=":
                    rv = s[2]
                    for key in ("a", "b"):
                        if isinstance(rv.get(key), dict):
                            ops.append((rv[key], s[3] if len(s) > 3 else None))
                    for o in rv.get("ops", []):
                        ops.append((o, s[3] if len(s) > 3 else None))
            t = f.blocks[b]["t"]
            if t["k"] == "call":
                for o in t["args"]:
                    ops.append((o, t.get("line")))
            for o, line in ops:
                if o.get("k") not in ("copy", "move"):
                    continue
                term = T.operand(o)
                n_uses += 1
                # a direct use of the parameter (not through a popped task)
                direct = [lf for lf in leaves(term) if lf[0] in ("param", "parampath") and lf[1] == pidx]
                popped = "pop(" in expr.canon(term)
                if direct and not popped:
                    bad.append((line, expr.canon(term)[:80]))
        if bad:
            rep.violation("C10.typedir", nm + ":param", "Value::%s uses its parameter `%s` inside the work loop (%s): a sub-task would be decided by the root type instead of its own"
                          % (nm, tyname, bad[0][1]), "%s:%s" % (f.file, bad[0][0]))
        else:
            rep.ok("C10.typedir", nm + ": loop reads types from the popped task only", n_uses)
        # Value::unit() only under bound == Unit of the task type
        units = [cs for cs in f.calls() if cs.callee == VALUE + "unit"]
        sw = [(b, si) for b, si in fm.enum_switches(f, "final_data::CompleteBound")]
        for cs in units:
            ok = False
            for b, si in sw:
                tgt = si[2].get("Unit")
                if tgt is not None and f.dominates(tgt, cs.bb):
                    others = [x for v, x in si[2].items() if v != "Unit"]
                    if not any(f.dominates(x, cs.bb) for x in others):
                        ok = True
            if ok:
                rep.ok("C10.typedir", "%s: Value::unit() only where the task type's bound is Unit" % nm, None)
            else:
                rep.violation("C10.typedir", nm + ":unit", "Value::%s produces Value::unit() outside the arm for CompleteBound::Unit: a zero-width type that is not unit "
                              "(1 x 1) would be given a value of the wrong type" % nm, cs.where())
    rep.floor("C10.typedir", rep.instances("C10.typedir"), 4)


def lin(t, env):
    """linear form {atom: coeff} (constant under "1") of an integer term; None if not linear"""
    if not isinstance(t, tuple) or not t:
        return None
    k = t[0]
    if k == "int":
        return {"1": int(t[1])}
    if k == "field" and t[2] == "0" and isinstance(t[1], tuple) and t[1][0] == "bin" and t[1][1].endswith("WithOverflow"):
        return lin(("bin", t[1][1], t[1][2], t[1][3]), env)
    if k == "bin":
        op = t[1]
        a, b = lin(t[2], env), lin(t[3], env)
        if a is None or b is None:
            return None
        sign = 1 if op in expr.ARITH_ADD else (-1 if op in expr.ARITH_SUB else None)
        if sign is None:
            return None
        out = dict(a)
        for key, c in b.items():
            out[key] = out.get(key, 0) + sign * c
        return {key: c for key, c in out.items() if c != 0}
    if k == "call" and t[2] == "max" and len(t[3]) == 2:
        a, b = lin(t[3][0], env), lin(t[3][1], env)
        if a is None or b is None:
            return None
        return {"max(%s)" % " , ".join(sorted([show_lin(a), show_lin(b)])): 1}
    if k == "call" and t[2] == "bit_width" and len(t[3]) == 1:
        name = env(t[3][0])
        if isinstance(name, dict):
            return name
        return {"W(%s)" % name: 1}
    if k == "call" and t[2] in ("pad_left", "pad_right") and len(t[3]) == 2:
        l, r = lin(("call", "", "bit_width", (t[3][0],)), env), lin(("call", "", "bit_width", (t[3][1],)), env)
        m = {"max(%s)" % " , ".join(sorted([show_lin(l), show_lin(r)])): 1}
        sub = l if t[2] == "pad_left" else r
        for key, c in sub.items():
            m[key] = m.get(key, 0) - c
        return {key: c for key, c in m.items() if c != 0}
    if k == "field" and isinstance(t[1], tuple) and t[1][0] == "param" and t[2] == "bit_offset":
        return {"offset": 1}
    if k in ("cast", "un") and len(t) >= 3:
        return lin(t[-1], env)
    return None


def const_bytes(f, o, depth=0):
    """hex bytes of the constant an operand (possibly a reference to a promoted constant) denotes"""
    if o.get("k") == "const":
        return o.get("bytes")
    if o.get("k") in ("copy", "move") and depth < 5:
        for (bb, i, kind, pl) in f.defs().get(o["p"][0], []):
            if kind != "assign":
                continue
            rv = pl[2]
            if rv.get("k") == "use":
                r = const_bytes(f, rv["a"], depth + 1)
                if r is not None:
                    return r
            if rv.get("k") == "ref":
                r = const_bytes(f, {"k": "copy", "p": [rv["p"][0], []]}, depth + 1)
                if r is not None:
                    return r
    return None


def show_lin(d):
    return " + ".join("%s%s" % ("" if c == 1 else "%d*" % c, k) if k != "1" else str(c) for k, c in sorted(d.items())) or "0"


def accessors(F, rep):
    VR = "simplicity::value::ValueRef::<'v>::"

    def env_for(kind):
        def env(t):
            s = expr.canon(t)
            m = re.search(r"as_%s\(self\.ty\)(?:@Some\.0)?\.(\d)$" % kind, s)
            if m:
                return "l" if m.group(1) == "0" else "r"
            if s == "self.ty" and kind == "sum":
                # the width of the sum itself: 1 + max(W(l), W(r))  (Final::sum, compared with C under C03.width)
                return {"1": 1, "max(W(l) , W(r))": 1}
            return s
        return env
    spec = {
        "as_left": [({"offset": 1, "1": 1, "max(W(l) , W(r))": 1, "W(l)": -1}, "0", False)],
        "as_right": [({"offset": 1, "1": 1, "max(W(l) , W(r))": 1, "W(r)": -1}, "1", True)],
        "as_product": [({"offset": 1}, "0", None), ({"offset": 1, "W(l)": 1}, "1", None)],
    }
    for nm, want in sorted(spec.items()):
        f = F.fn(VR + nm)
        f = F.inlined(f, ("first_bit", "as_sum", "as_product", "bit_width", "pad_left", "pad_right")) if f is not None else None
        if f is None:
            rep.anchor("C10.accessor", "ValueRef::" + nm)
            continue
        T = Terms(f)
        kind = "product" if nm == "as_product" else "sum"
        env = env_for(kind)
        got = []
        for b in f.rpo():
            for s in f.blocks[b]["s"]:
                if s[0] == "=" and s[2].get("k") == "agg" and str(s[2].get("adt", "")).endswith("ValueRef") and "bit_offset" in (s[2].get("fields") or []):
                    fields = s[2]["fields"]
                    off = T.operand(s[2]["ops"][fields.index("bit_offset")])
                    ty = expr.canon(T.operand(s[2]["ops"][fields.index("ty")]))
                    m = re.search(r"as_%s\(self\.ty\)(?:@Some\.0)?\.(\d)$" % kind, ty)
                    got.append((lin(off, env), m.group(1) if m else "?" + ty[:40], b))
        if len(got) != len(want):
            rep.violation("C10.accessor", nm + ":views", "ValueRef::%s builds %d views, expected %d" % (nm, len(got), len(want)), f.where())
            continue
        for (w_off, w_ty, w_bit) in want:
            cand = [g for g in got if g[1] == w_ty]
            key = "%s: component %s" % (nm, w_ty)
            if len(cand) != 1:
                rep.violation("C10.accessor", key, "ValueRef::%s returns no view typed with component %s of the type" % (nm, w_ty), f.where())
                continue
            g_off, _, blk = cand[0]
            if g_off != w_off:
                rep.violation("C10.accessor", key, "ValueRef::%s places component %s at %s; the padded layout puts it at %s"
                              % (nm, w_ty, show_lin(g_off) if g_off is not None else "a non-linear expression", show_lin(w_off)), f.where())
                continue
            if w_bit is not None:
                # reached only when first_bit() == Some(w_bit)
                okp = False
                for cs in f.calls():
                    if cs.name in ("eq", "ne") and len(cs.args) == 2:
                        a = [T.operand(x) for x in cs.args]
                        txt = [expr.canon(x) for x in a]
                        if not any("first_bit" in x for x in txt):
                            continue
                        const = [x for x in a if isinstance(x, tuple) and "first_bit" not in expr.canon(x)]
                        cv = None
                        for x in const:
                            mm = re.search(r"Some\{(\d)\}", expr.canon(x))
                            if mm:
                                cv = bool(int(mm.group(1)))
                        # a promoted constant Option<bool>: one byte, 00 = Some(false), 01 = Some(true), 02 = None
                        for o in cs.args:
                            hb = const_bytes(f, o)
                            if hb in ("00", "01"):
                                cv = hb == "01"
                        cur = cs.t.get("target")
                        for _ in range(4):
                            t = f.blocks[cur]["t"]
                            if t["k"] == "switch":
                                true_t = [tg for v, tg in t["targets"] if v != "0"]
                                true_t = true_t[0] if true_t else t["otherwise"]
                                false_t = [tg for v, tg in t["targets"] if v == "0"]
                                false_t = false_t[0] if false_t else t["otherwise"]
                                eq_t = true_t if cs.name == "eq" else false_t
                                if cv == w_bit and f.dominates(eq_t, blk) and eq_t != (false_t if cs.name == "eq" else true_t):
                                    okp = True
                                break
                            if t["k"] == "goto":
                                cur = t["target"]
                            else:
                                break
                if not okp:
                    rep.violation("C10.accessor", key + ":tag", "ValueRef::%s does not return its view exactly when the first bit is %d" % (nm, int(w_bit)), f.where())
                    continue
            rep.ok("C10.accessor", key, show_lin(w_off))
    rep.floor("C10.accessor", rep.instances("C10.accessor"), 4)
