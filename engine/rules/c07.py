"""C07 — static resource bounds cover every execution: the inductive step, statically.

The property is an induction over the program.  Its step is discharged structurally: for each combinator v the
high-water mark (cells, frames) of the instruction template the interpreter *actually executes* for v (extracted
from exec_with_tracker's MIR, see tmpl.py), as a max-plus expression over the children's bounds and type widths,
must be dominated by the bound RedeemData::new stores for v (NodeBounds::v inlined at its call site, so the
comparison is over the caller's operands and does not depend on parameter order).
  C07.bounds   per variant: stored extra_cells / extra_frames dominate the template's requirement
  C07.size     BitMachine::for_program: check_program(..)? dominates both allocations; the data vector holds
               source+target+extra_cells bits and the frame stacks extra_frames + IO_EXTRA_FRAMES; check_program
               checks those very sums; cell guards compare with MAX_CELLS, frame guards with MAX_FRAMES, guard
               failure returns Err; both limits are < usize::MAX / 2
  C07.ctor     the only place a BitMachine is constructed is for_program (and its fields are private)
  C07.wrap     the bound arithmetic cannot wrap or panic: type widths saturate at usize::MAX (Final::sum/product), so in
               every NodeBounds constructor a sum of two non-constant cell/frame quantities is a saturating (or checked)
               addition, as libsimplicity's bounded_add is — a plain `+` panics in debug builds and yields a far too
               small bound in release builds for a ~60-byte program with a 2^64-bit intermediate type (F-BOUNDS-OVERFLOW)
Does not decide: Frame cursor arithmetic stays inside its frame; the base case for jets (C owns their frames).
"""
import re
import tmpl
import expr
import facts as fm
from facts import Terms, enum_switches, project1, show, calls_in
import vcc

NB = "simplicity::analysis::NodeBounds::"
NEW = "simplicity::node::redeem::RedeemData::new"
FOR_PROGRAM = "simplicity::bit_machine::BitMachine::for_program"
CHECK_PROGRAM = "simplicity::bit_machine::limits::LimitError::check_program"
LIMITS = "simplicity::bit_machine::limits::"

FINISH = dict(level="other",
              explanation="Max-plus expression reconstruction (EXPR) of the stored bounds per combinator, compared by "
                          "term-wise domination with the high-water mark of the interpreter template extracted from MIR; "
                          "dominator and provenance rules for the machine's allocation and limit checks.",
              assumptions=["Frame operations stay inside the frame they are given (cursor arithmetic, not decided)",
                           "C jets use only the frames handed to them",
                           "witness/word values have the width of their type (C12/C10)"])


def analysis_rename(s):
    s = re.sub(r"inner@(\w+)\.(\d)", r"c\2", s)
    s = re.sub(r"(c\d)\.arrow\.(source|target)", r"\1.\2", s)
    s = re.sub(r"(?<![\w.])arrow\.(source|target)", r"self.\1", s)
    return s


def run(ctx, rep):
    F = ctx.facts("full")
    rep.rule("C07.bounds", "stored extra_cells/extra_frames of v dominate the high-water mark of the interpreter's template for v")
    rep.rule("C07.size", "for_program: limits checked before allocating; allocations sized by the checked sums; right constants")
    rep.rule("C07.ctor", "BitMachine is only constructed in for_program")
    rep.rule("C07.wrap", "sums of two non-constant cell/frame quantities in NodeBounds constructors are saturating or checked")
    wrap(F, rep)

    # ---------------- per-variant bounds ----------------
    try:
        tm = tmpl.extract(F)
    except tmpl.TemplateError as e:
        rep.anchor("C07.bounds", "interpreter template extraction: %s" % e)
        tm = None
    f = F.fn(NEW)
    f = F.inlined(f) if f is not None else None
    if f is None:
        rep.anchor("C07.bounds", NEW)
    elif tm is not None:
        T = Terms(f)
        sws = enum_switches(f, "node::inner::Inner")
        if not sws:
            rep.anchor("C07.bounds", "switch on Inner in RedeemData::new")
        else:
            b, (place, adt, targets, otherwise, rest) = sws[0]
            done = set()
            for v, tgt in sorted(targets.items()):
                region = f.dominated_by(tgt)
                nb_calls = [cs for cs in f.calls(region) if cs.callee.startswith(NB)]
                if len(nb_calls) != 1:
                    rep.violation("C07.bounds", v + ":call", "arm %s has %d NodeBounds calls" % (v, len(nb_calls)), f.where())
                    continue
                cs = nb_calls[0]
                t = T.call(cs.t, 0, ())
                ti = expr.inline(F, t, lambda p: p.startswith("simplicity::analysis::"))
                cells = expr.norm(project1(ti, ".extra_cells"), analysis_rename)
                frames = expr.norm(project1(ti, ".extra_frames"), analysis_rename)
                # requirement: max over the decision paths of this variant
                req_c = expr.MP.const(0)
                req_f = expr.MP.const(0)
                npaths = 0
                bad = False
                for key, ent in tm["arms"].items():
                    if key[0] != v:
                        continue
                    npaths += 1
                    try:
                        rc, rf, live = tmpl.requirement(ent["ops"])
                    except tmpl.TemplateError as e:
                        rep.violation("C07.bounds", v + ":template", "cannot derive the requirement of %s: %s" % (key, e), f.where())
                        bad = True
                        continue
                    if live != 0:
                        rep.violation("C07.bounds", v + ":leak", "template of %s leaves %d frame(s) allocated" % (key, live), f.where())
                        bad = True
                    req_c = req_c.max(rc)
                    req_f = req_f.max(rf)
                if npaths == 0:
                    rep.violation("C07.bounds", v + ":notemplate", "no interpreter path for variant %s" % v, f.where())
                    continue
                if bad:
                    continue
                done.add(v)
                okc = cells.dominates(req_c)
                okf = frames.dominates(req_f)
                if okc and okf:
                    rep.ok("C07.bounds", v, {"cells": cells.show(), "needs_cells": req_c.show(),
                                             "frames": frames.show(), "needs_frames": req_f.show()})
                if not okc:
                    rep.violation("C07.bounds", v + ":cells", "extra_cells of %s is %s but the interpreter's template needs %s"
                                  % (v.lower(), cells.show(), req_c.show()), cs.where())
                if not okf:
                    rep.violation("C07.bounds", v + ":frames", "extra_frames of %s is %s but the interpreter's template needs %s"
                                  % (v.lower(), frames.show(), req_f.show()), cs.where())
            for v in rest:
                rep.violation("C07.bounds", v + ":noarm", "variant %s has no arm in RedeemData::new" % v, f.where())
            rep.floor("C07.bounds", rep.instances("C07.bounds"), 16)
        # the bounds stored in RedeemData are the ones computed (who writes RedeemData.bounds)
        n = 0
        for g in F.fns.values():
            for bb in g.rpo():
                for s in g.blocks[bb]["s"]:
                    if s[0] == "=" and s[2].get("k") == "agg" and s[2].get("adt") == "simplicity::node::redeem::RedeemData":
                        n += 1
                        if g.path != NEW and g.impl_trait != "std::clone::Clone":
                            rep.violation("C07.bounds", "writer:" + g.path, "RedeemData built outside RedeemData::new", "%s:%s" % (g.file, s[3]))
        if n >= 1:
            rep.ok("C07.bounds", "RedeemData only built by RedeemData::new (and copied by Clone)", n)

    # ---------------- limits ----------------
    consts = {}
    for nm in ("MAX_CELLS", "MAX_FRAMES"):
        c = F.consts.get(LIMITS + nm)
        if c is None or "int" not in c:
            rep.anchor("C07.size", LIMITS + nm)
        else:
            consts[nm] = c["int"]
            if c["int"] < (2 ** 64 - 1) // 2:
                rep.ok("C07.size", nm + " < usize::MAX/2", c["int"])
            else:
                rep.violation("C07.size", nm + ":range", "%s = %d is not < usize::MAX/2: the sums checked can overflow" % (nm, c["int"]))
    for guard, cname in (("check_max_cells", "MAX_CELLS"), ("check_max_frames", "MAX_FRAMES")):
        g = F.fn(LIMITS + "LimitError::" + guard)
        if g is None:
            rep.anchor("C07.size", guard)
            continue
        Tg = Terms(g)
        found = False
        for bb in g.rpo():
            t = g.blocks[bb]["t"]
            if t["k"] != "switch":
                continue
            dt = Tg.operand(t["discr"])
            if dt[0] == "bin" and dt[1] in ("Gt", "Ge", "Lt", "Le"):
                found = True
                a, c2 = dt[2], dt[3]
                ca, cc = expr.canon(a), expr.canon(c2)
                names = {ca, cc}
                uses_const = [x for x in (a, c2) if x[0] == "int"]
                good = False
                if uses_const:
                    u = uses_const[0]
                    item = u[3] if len(u) > 3 else None
                    good = (item == LIMITS + cname) or (item is None and u[1] == consts.get(cname))
                if not good:
                    rep.violation("C07.size", guard + ":const", "%s compares with %s, expected the limit %s" % (guard, sorted(names), cname), g.where())
                    continue
                # which successor is the failure branch?  got > MAX (or MAX < got) true => Err
                got_first = a[0] != "int"
                op = dt[1]
                exceeds_when_true = (op in ("Gt", "Ge") and got_first) or (op in ("Lt", "Le") and not got_first)
                zero_t = [tg for vv, tg in t["targets"] if vv == "0"]
                true_t = t["otherwise"]
                fail_b = true_t if exceeds_when_true else (zero_t[0] if zero_t else None)
                pass_b = (zero_t[0] if zero_t else None) if exceeds_when_true else true_t
                errs = _blocks_building(g, "Err")
                oks = _blocks_building(g, "Ok")
                if fail_b is None or pass_b is None or not (g.reachable(fail_b) & errs) or (g.reachable(fail_b) & oks) \
                        or (g.reachable(pass_b) & errs):
                    rep.violation("C07.size", guard + ":branch", "%s does not return Err exactly when the quantity exceeds %s" % (guard, cname), g.where())
                else:
                    rep.ok("C07.size", guard, "got %s %s → Err" % (op, cname))
        if not found:
            rep.violation("C07.size", guard + ":nocmp", "no comparison found in %s" % guard, g.where())

    cp = F.fn(CHECK_PROGRAM)
    fp = F.fn(FOR_PROGRAM)
    # check_program split into per-resource helpers, for_program with hoisted locals: private helpers are spliced in
    SIZE_VOCAB = ("check_max_cells", "check_max_frames", "check_program", "bit_width", "bounds", "arrow", "with_capacity", "from_elem")
    cp = F.inlined(cp, SIZE_VOCAB) if cp is not None else None
    fp = F.inlined(fp, SIZE_VOCAB) if fp is not None else None
    checked = {"cells": set(), "frames": set()}
    if cp is None:
        rep.anchor("C07.size", CHECK_PROGRAM)
    else:
        Tc = Terms(cp)
        for cs in cp.calls():
            if cs.name in ("check_max_cells", "check_max_frames"):
                kind = "cells" if cs.name == "check_max_cells" else "frames"
                e = expr.norm(Tc.operand(cs.args[0]), _prog_rename)
                checked[kind].add(e)
                # verdict consumed by `?`
                d = cs.dest[0]
                if not fm.value_flows_to_decision(cp, d):
                    rep.violation("C07.size", "check_program:dropped:" + e.show(), "verdict of %s(%s) is dropped" % (cs.name, e.show()), cs.where())
        # the sums themselves cannot overflow: every non-constant operand of a `+` inside a checked expression has been
        # checked by an earlier, dominating check (each is then <= the limit < usize::MAX / 2); extra_cells can be
        # usize::MAX (saturated), so an unchecked operand makes the sum wrap (release) or panic (debug)
        ck = [(cs, Tc.operand(cs.args[0])) for cs in cp.calls() if cs.name in ("check_max_cells", "check_max_frames")]

        def _peel0(t):
            while isinstance(t, tuple) and t and t[0] == "field" and t[2] == "0" and isinstance(t[1], tuple) and t[1][0] == "bin":
                t = t[1]
            return t
        for cs, t in ck:
            todo = [_peel0(t)]
            while todo:
                x = _peel0(todo.pop())
                if not (isinstance(x, tuple) and x and x[0] == "bin" and x[1] in ("Add", "AddWithOverflow", "AddUnchecked")):
                    continue
                for op in (x[2], x[3]):
                    o = _peel0(op)
                    if isinstance(o, tuple) and o and o[0] == "int":
                        continue
                    todo.append(o)
                    guarded = any(c2 is not cs and cp.dominates(c2.bb, cs.bb) and c2.bb != cs.bb and expr.canon(_peel0(t2)) == expr.canon(o)
                                  and fm.value_flows_to_decision(cp, c2.dest[0]) for c2, t2 in ck)
                    key = "check_program:operand:%s" % expr.norm(o, _prog_rename).show()
                    if guarded:
                        rep.ok("C07.size", key + " is itself checked before it is added", None)
                    else:
                        rep.violation("C07.size", key, "%s is added inside the argument of %s without having been checked on its own first: it can be "
                                      "as large as usize::MAX (a saturated bound), so the sum overflows before the check"
                                      % (expr.norm(o, _prog_rename).show(), cs.name), cs.where())
        rep.count("checked_cell_sums", len(checked["cells"]))
        rep.count("checked_frame_sums", len(checked["frames"]))
    if fp is None:
        rep.anchor("C07.size", FOR_PROGRAM)
    else:
        Tf = Terms(fp)
        chk = [cs for cs in fp.calls() if cs.callee == CHECK_PROGRAM]
        if len(chk) != 1:
            rep.violation("C07.size", "for_program:check", "for_program calls check_program %d times" % len(chk), fp.where())
        else:
            cb = chk[0].bb
            if not fm.value_flows_to_decision(fp, chk[0].dest[0]):
                rep.violation("C07.size", "for_program:dropped", "for_program ignores check_program's verdict", chk[0].where())
            allocs = []
            for cs in fp.calls():
                if cs.name in ("from_elem", "with_capacity", "with_capacity_in", "resize", "reserve"):
                    allocs.append(cs)
            if len(allocs) < 3:
                rep.violation("C07.size", "for_program:allocs", "expected 3 sized allocations in for_program, found %d" % len(allocs), fp.where())
            for cs in allocs:
                sz = Tf.operand(cs.args[-1] if cs.name != "from_elem" else cs.args[1])
                key = "for_program:%s@%s" % (cs.name, _which_field(fp, Tf, cs))
                if not fp.dominates(cb, cs.bb) or cb == cs.bb:
                    rep.violation("C07.size", key + ":order", "allocation is not preceded by check_program on every path", cs.where())
                    continue
                if cs.name == "from_elem":
                    # vec![0; ceil(bits/8)]
                    if not (sz[0] == "call" and sz[2] == "div_ceil" and sz[3][1][0] == "int" and sz[3][1][1] == 8):
                        e = expr.norm(sz, _prog_rename)
                        rep.violation("C07.size", key + ":shape", "data vector length is %s, expected div_ceil(bits, 8)" % e.show(), cs.where())
                        continue
                    bits = expr.norm(sz[3][0], _prog_rename)
                    if bits in checked["cells"]:
                        rep.ok("C07.size", key, "len = div_ceil(%s, 8); that sum is checked against MAX_CELLS" % bits.show())
                    else:
                        rep.violation("C07.size", key + ":unchecked", "the data vector holds %s bits but check_program checks %s"
                                      % (bits.show(), sorted(x.show() for x in checked["cells"])), cs.where())
                    need = expr.MP([(0, tuple(sorted(["bit_width(prog.source)", "bit_width(prog.target)", "prog.extra_cells"])))])
                    if not bits.dominates(need):
                        rep.violation("C07.size", key + ":io", "the data vector holds %s bits, less than source + target + extra_cells" % bits.show(), cs.where())
                else:
                    e = expr.norm(sz, _prog_rename)
                    if e in checked["frames"]:
                        rep.ok("C07.size", key, "capacity = %s; that sum is checked against MAX_FRAMES" % e.show())
                    else:
                        rep.violation("C07.size", key + ":unchecked", "frame stack capacity %s is not among the checked sums %s"
                                      % (e.show(), sorted(x.show() for x in checked["frames"])), cs.where())
                    need = expr.MP([(2, ("prog.extra_frames",))])
                    if not e.dominates(need):
                        rep.violation("C07.size", key + ":io", "frame stack capacity %s is less than extra_frames + 2" % e.show(), cs.where())

    # ---------------- sole constructor ----------------
    n = 0
    for g in F.fns.values():
        for bb in g.rpo():
            for s in g.blocks[bb]["s"]:
                if s[0] == "=" and s[2].get("k") == "agg" and s[2].get("adt") == "simplicity::bit_machine::BitMachine":
                    n += 1
                    if g.path != FOR_PROGRAM:
                        rep.violation("C07.ctor", "ctor:" + g.path, "BitMachine constructed outside for_program (unsized)", "%s:%s" % (g.file, s[3]))
    if n >= 1:
        rep.ok("C07.ctor", "BitMachine aggregates", n)
    else:
        rep.anchor("C07.ctor", "BitMachine { .. } aggregate")
    adt = F.adts.get("simplicity::bit_machine::BitMachine")
    if adt is None:
        rep.anchor("C07.ctor", "struct BitMachine")
    else:
        pub = [fl["name"] for fl in adt["variants"][0]["fields"] if fl["vis"] == "pub"]
        if pub:
            rep.violation("C07.ctor", "fields", "BitMachine has public fields %s: a downstream crate can build an unsized machine" % pub)
        else:
            rep.ok("C07.ctor", "all fields private", None)
    return FINISH


def _plain_sums(t, out, consts_ok=True):
    """('bin', Add.., a, b) nodes that can overflow: both operands non-constant, or (consts_ok=False) any"""
    if not isinstance(t, tuple) or not t:
        return
    if t[0] == "bin" and t[1] in ("Add", "AddWithOverflow", "AddUnchecked", "Mul", "MulWithOverflow") and len(t) >= 4:
        has_const = (isinstance(t[2], tuple) and t[2][0] == "int") or (isinstance(t[3], tuple) and t[3][0] == "int")
        if not has_const or not consts_ok:
            out.append(t)
    for x in t[1:]:
        if isinstance(x, tuple):
            if x and isinstance(x[0], tuple):
                for y in x:
                    _plain_sums(y, out, consts_ok)
            else:
                _plain_sums(x, out, consts_ok)


def wrap(F, rep):
    n = 0
    for f0 in sorted(F.fns.values(), key=lambda x: x.path):
        if f0.impl_adt != "simplicity::analysis::NodeBounds" or f0.impl_trait or f0.kind != "AssocFn":
            continue
        f = F.inlined(f0)
        T = None
        for b in f.rpo():
            for st in f.blocks[b]["s"]:
                if not (st[0] == "=" and st[2].get("k") == "agg" and st[2].get("adt") == "simplicity::analysis::NodeBounds"):
                    continue
                T = T or Terms(f)
                for fld, op in zip(st[2].get("fields") or [], st[2]["ops"]):
                    if fld not in ("extra_cells", "extra_frames"):
                        continue
                    t = T.operand(op)
                    if not fm.leaves(t) or all(x[0] == "int" for x in fm.leaves(t)):
                        continue
                    n += 1
                    bad = []
                    _plain_sums(t, bad)
                    key = "NodeBounds::%s.%s" % (f0.name, fld)
                    if bad:
                        rep.violation("C07.wrap", key, "%s is computed with a plain `%s` of two non-constant quantities (%s): widths saturate at usize::MAX, "
                                      "so the sum overflows — a panic in debug builds, a wrapped (too small) bound in release builds"
                                      % (key, "+" if bad[0][1].startswith("Add") else "*", expr.canon(bad[0])[:90]),
                                      "%s:%s" % (f.file, st[3] if len(st) > 3 else f.line))
                    else:
                        rep.ok("C07.wrap", key, expr.canon(t)[:80])
    # the widths themselves: Final::sum / Final::product compute a type's bit width from its children's; a width can
    # reach usize::MAX after 64 doublings, so here even `+ 1` must saturate
    for nm in ("sum", "product"):
        f0 = F.fn("simplicity::types::final_data::Final::" + nm)
        if f0 is None:
            rep.anchor("C07.wrap", "Final::" + nm)
            continue
        f = F.inlined(f0)
        T = Terms(f)
        for b in f.rpo():
            for st in f.blocks[b]["s"]:
                if not (st[0] == "=" and st[2].get("k") == "agg" and st[2].get("adt") == "simplicity::types::final_data::Final"):
                    continue
                flds = st[2].get("fields") or []
                if "bit_width" not in flds:
                    continue
                t = T.operand(st[2]["ops"][flds.index("bit_width")])
                n += 1
                bad = []
                _plain_sums(t, bad, consts_ok=False)
                key = "Final::%s.bit_width" % nm
                if bad:
                    rep.violation("C07.wrap", key, "%s is computed with a plain `+` (%s): a child width can already be usize::MAX (64 doublings of a word), "
                                  "so the sum overflows — type finalisation, reached from every decoder, panics in debug builds and wraps the "
                                  "width in release builds" % (key, expr.canon(bad[0])[:90]), "%s:%s" % (f.file, st[3] if len(st) > 3 else f.line))
                else:
                    rep.ok("C07.wrap", key, expr.canon(t)[:80])
    rep.floor("C07.wrap", n, 8)


def _prog_rename(s):
    s = re.sub(r"bit_width\(arrow\(program\)\.(source|target)\)", r"bit_width(prog.\1)", s)
    s = re.sub(r"bounds\(program\)\.(extra_cells|extra_frames)", r"prog.\1", s)
    s = s.replace("IO_EXTRA_FRAMES", "2")
    return s


def _blocks_building(g, variant):
    out = set()
    for bb in g.rpo():
        for s in g.blocks[bb]["s"]:
            if s[0] == "=" and s[2].get("k") == "agg" and s[2].get("variant") == variant and "Result" in s[2].get("adt", ""):
                out.add(bb)
    return out


def _which_field(fp, T, cs):
    # name of the BitMachine field the allocation ends in
    d = cs.dest[0]
    for bb in fp.rpo():
        for s in fp.blocks[bb]["s"]:
            if s[0] == "=" and s[2].get("k") == "agg" and s[2].get("adt") == "simplicity::bit_machine::BitMachine":
                for name, op in zip(s[2]["fields"], s[2]["ops"]):
                    if op.get("k") in ("copy", "move") and op["p"][0] == d:
                        return name
    return "?"
