"""C09 — the commitment root depends only on committed structure.

Decided statically (collision resistance of SHA-256 assumed):
  C09.siblings  every Constructible impl computes the CMR of combinator v with Cmr::v (assertions fold to
                Cmr::case), children in left/right order; delegating impls delegate to the same method
  C09.nonint    the value stored in Node::cmr originates only in Cmr::v of the children's CMRs / hidden CMR /
                entropy / word / jet — never in witness, disconnected branch, cached data or context
  C09.writers   the only aggregates that build a Node are the reviewed constructors, from_parts and convert
  C09.copy      Node::convert copies the CMR of the source node; no Converter method can influence it
  C09.fromparts Node::from_parts: arm V computes Cmr::v from the fields of V, in order
  C09.hascmr    every HasCmr::cmr impl returns the stored root (or delegates to another cmr())
  C09.iv        Cmr::v hashes from V_IV; the IVs are pairwise distinct
  C09.entropy   Cmr::fail lets all 64 bytes of the fail entropy reach the hash: if it slices the entropy with constant
                ranges, their union is 0..64 (different entropies are different committed structures)
  C09.print     the human-readable printer (src/human_encoding, the text Forest::parse reads back) writes, for an
                assertl / assertr node, the hidden branch root stored in that node (the variant's Cmr field), not the
                node's own or any other root
"""
import vcc
import facts as fm
from facts import Terms, leaves, calls_in, show, enum_switches, short

CMR = "simplicity::merkle::cmr::Cmr::"
CMR_FNS = set(vcc.CMR_ALG_OF.values())
NODE = "simplicity::node::Node"
HASCMR = "simplicity::merkle::HasCmr"
JET_CMR = "simplicity::jet::Jet::cmr"

# impls whose methods must each contain a CMR computation or a same-method delegation (non-vacuity)
CMR_CARRIERS = ("std::sync::Arc<simplicity::node::Node<N>>", "simplicity::merkle::cmr::ConstructibleCmr<'brand>",
                "simplicity::node::hiding::Hiding<'brand, N>")

# Hiding::case turns a half-hidden case into an assertion: the documented exception to "delegate to self"
DELEGATION_EXTRA = {("simplicity::node::hiding::Hiding<'brand, N>", "case"): {"assertl", "assertr"}}

FINISH = dict(level="other",
              explanation="Static non-interference and sibling-agreement analysis over MIR: provenance (backward "
                          "def-use terms) of every value stored in Node::cmr and of every argument of the Cmr "
                          "algebra, per Constructible impl and per match arm; does not execute any hashing.",
              assumptions=["SHA-256 (tagged midstates) is collision resistant, so distinct (IV, children) give distinct roots",
                           "the body of Cmr::v itself (midstate update) is decided under C03.recipe"])


def is_cmr_alg(cs):
    return cs.callee.startswith(CMR) and cs.name in CMR_FNS and cs.callee == CMR + cs.name


def impl_short(f):
    s = f.impl_self or "?"
    return s.replace("simplicity::", "").replace("std::sync::", "")


def check_arg_roots(rep, rule, key, T, cs, params, where, strict=None):
    """argument k of the call must derive exclusively from MIR parameter params[k]; positions not in
    `strict` (payloads that a wrapper may replace by a constant) may also derive from no parameter."""
    ok = True
    if len(cs.args) != len(params):
        rep.violation(rule, key + ":arity", "%s takes %d arguments, expected %d" % (cs.callee, len(cs.args), len(params)), where)
        return False
    for k, (a, want) in enumerate(zip(cs.args, params)):
        t = T.operand(a)
        roots = vcc.param_roots(t, __import__("facts"))
        if roots != {want} and not (strict is not None and want not in strict and not roots):
            rep.violation(rule, "%s:arg%d" % (key, k),
                          "argument %d of %s derives from parameters %s, expected exactly parameter %d (%s)"
                          % (k, short(cs.callee), sorted(roots), want, show(t)), where)
            ok = False
    return ok


def run(ctx, rep):
    F = ctx.facts("full")
    import facts as fm
    rep.rule("C09.siblings", "each Constructible impl uses Cmr::v for combinator v, children in order; delegation to the same method")
    rep.rule("C09.nonint", "origins of the value stored in Node::cmr / ConstructibleCmr::cmr exclude witness, disconnect branch, cached data")
    rep.rule("C09.writers", "only reviewed functions build a Node")
    rep.rule("C09.copy", "Node::convert copies the source node's CMR; converter callbacks cannot reach it")
    rep.rule("C09.fromparts", "Node::from_parts arm V = Cmr::v(fields of V in order)")
    rep.rule("C09.hascmr", "HasCmr::cmr impls return the stored root")
    rep.rule("C09.iv", "Cmr::v starts from V_IV; IVs pairwise distinct")
    rep.rule("C09.entropy", "Cmr::fail hashes all 64 bytes of the fail entropy (constant slices of it cover 0..64)")
    rep.rule("C09.print", "the human-readable printer writes the hidden branch root stored in an assertl/assertr node, not another root")

    methods = [f for f in F.fns.values() if f.impl_trait in vcc.CONSTRUCTIBLE_TRAITS and f.name in vcc.VARIANT_OF]
    rep.count("constructible_impl_methods", len(methods))
    by_impl = {}
    for f in methods:
        by_impl.setdefault(f.impl_self, []).append(f)
    rep.count("constructible_impls", len(by_impl))
    rep.floor("C09.siblings(impls)", len(by_impl), 5)

    # ---------------- siblings ----------------
    n_sib = 0
    SIB_VOCAB = tuple(CMR_FNS | set(vcc.VARIANT_OF) | {"hidden_cloned_ctx", "hidden", "cmr"})
    for f in sorted(methods, key=lambda x: x.path):
        m = f.name
        f = F.inlined(f, SIB_VOCAB)      # per-arity private helpers (also ones taking the Cmr function as a value) spliced in
        T = Terms(f)
        want_alg = vcc.CMR_ALG_OF[m]
        params = vcc.ARG_PARAMS[m]
        n_cmr = 0
        n_del = 0
        for cs in f.calls():
            key = "%s::%s" % (impl_short(f), m)
            if is_cmr_alg(cs):
                n_cmr += 1
                if cs.name != want_alg:
                    rep.violation("C09.siblings", key + ":alg", "method %s computes its root with Cmr::%s, expected Cmr::%s"
                                  % (m, cs.name, want_alg), cs.where())
                    continue
                if cs.name == "jet" or cs.name == "const_word" or cs.name == "fail":
                    pr = params
                else:
                    pr = params
                if check_arg_roots(rep, "C09.siblings", key, T, cs, pr, cs.where()):
                    rep.ok("C09.siblings", key + " -> Cmr::" + cs.name, [show(T.operand(a)) for a in cs.args])
                n_sib += 1
            elif cs.decl == JET_CMR:
                n_cmr += 1
                key2 = key + ":Jet::cmr"
                if m != "jet":
                    rep.violation("C09.siblings", key2, "Jet::cmr used as the root of a %s node" % m, cs.where())
                elif check_arg_roots(rep, "C09.siblings", key2, T, cs, [2], cs.where()):
                    rep.ok("C09.siblings", key2, None)
                n_sib += 1
            elif cs.trait in vcc.CONSTRUCTIBLE_TRAITS and cs.name in vcc.VARIANT_OF:
                n_del += 1
                allowed = {m} | DELEGATION_EXTRA.get((f.impl_self, m), set())
                if cs.name not in allowed:
                    rep.violation("C09.siblings", key + ":delegates:" + cs.name,
                                  "method %s delegates to %s::%s" % (m, cs.self_ty, cs.name), cs.where())
                    continue
                # arguments in order: argument k derives only from parameter k+1
                okk = check_arg_roots(rep, "C09.siblings", key + ":deleg:" + cs.name, T, cs,
                                      list(range(1, len(cs.args) + 1)), cs.where(), strict=set(vcc.ARG_PARAMS[cs.name]))
                if okk and cs.name in ("assertl", "assertr") and m == "case":
                    # the hidden side must be the Err (hidden) side of the matching child
                    hid = 1 if cs.name == "assertl" else 0
                    t = T.operand(cs.args[hid])
                    if "Err" not in repr(t):
                        rep.violation("C09.siblings", key + ":hidden-side:" + cs.name,
                                      "%s: hidden CMR argument is not the hidden (Err) side: %s" % (cs.name, show(t)), cs.where())
                        okk = False
                    t2 = T.operand(cs.args[1 - hid])
                    if "Ok" not in repr(t2):
                        rep.violation("C09.siblings", key + ":shown-side:" + cs.name,
                                      "%s: node argument is not the non-hidden (Ok) side: %s" % (cs.name, show(t2)), cs.where())
                        okk = False
                if okk:
                    rep.ok("C09.siblings", key + " delegates " + cs.name, None)
                n_sib += 1
        # a hidden result (Hiding): the CMR it is given must be computed by the algebra in this method, never a child's
        # root passed through (a hidden `disconnect h` must not have the root of `h`)
        if "hiding::Hiding" in (f.impl_self or ""):
            for cs in f.calls():
                if cs.name in ("hidden_cloned_ctx", "hidden") and len(cs.args) >= 2:
                    t = T.operand(cs.args[0] if cs.name == "hidden" else cs.args[1])
                    top = t
                    while isinstance(top, tuple) and top and top[0] in ("un", "deref", "ref", "cast"):
                        top = top[-1]
                    key = "%s::%s:hidden-root" % (impl_short(f), m)
                    if isinstance(top, tuple) and top and top[0] == "call" and top[1].startswith(CMR) and top[2] in CMR_FNS:
                        rep.ok("C09.siblings", key + " = Cmr::" + top[2], None)
                        n_sib += 1
                    else:
                        rep.violation("C09.siblings", key, "the hidden %s node is given the root %s, which is not computed by Cmr::%s in this method"
                                      % (m, show(t)[:80], want_alg), cs.where())
        if f.impl_self in CMR_CARRIERS and n_cmr + n_del == 0:
            rep.violation("C09.siblings", "%s::%s:empty" % (impl_short(f), m),
                          "method neither computes a CMR nor delegates to the same method", f.where())
    rep.floor("C09.siblings", n_sib, 70)
    for c in CMR_CARRIERS:
        have = {f.name for f in by_impl.get(c, [])}
        missing = set(vcc.VARIANT_OF) - have
        if missing:
            rep.anchor("C09.siblings", "%s is missing Constructible methods %s" % (c, sorted(missing)))

    # ---------------- writers + non-interference ----------------
    writers = []
    for f0 in F.fns.values():
        # private same-file constructor helpers are spliced into their callers, so that the root a caller hands to
        # such a helper is judged in the caller, where its provenance is visible
        f = F.inlined(f0) if f0.kind in ("Fn", "AssocFn") else f0
        for b in f.rpo():
            for s in f.blocks[b]["s"]:
                if s[0] == "=" and s[2].get("k") == "agg" and s[2].get("agg") == "adt" and s[2]["adt"] in (
                        NODE, "simplicity::merkle::cmr::ConstructibleCmr"):
                    writers.append((f, b, s))
    rep.count("node_aggregates", len(writers))
    n_node = 0
    for f, b, s in writers:
        rv = s[2]
        T = Terms(f)
        t = T.operand(rv["ops"][rv["fields"].index("cmr")])
        where = "%s:%s" % (f.file, s[3])
        is_node = rv["adt"] == NODE
        if is_node:
            n_node += 1
        if f.impl_trait in vcc.CONSTRUCTIBLE_TRAITS and f.name in vcc.VARIANT_OF:
            m = f.name
            key = "%s::%s" % (impl_short(f), m)
            allowed = set(vcc.ARG_PARAMS[m])
            roots = vcc.param_roots(t, fm)
            bad_calls = [c for c in calls_in(t) if not (c[1].startswith(CMR) or c[2] == "cmr")]
            if not roots <= allowed:
                rep.violation("C09.nonint", key, "the stored CMR depends on parameters %s; only %s are committed (%s)"
                              % (sorted(roots - allowed), sorted(allowed), show(t)), where)
            elif bad_calls:
                rep.violation("C09.nonint", key + ":calls", "the stored CMR flows through %s (%s)"
                              % ([short(c[1]) for c in bad_calls], show(t)), where)
            elif t[0] != "call" or not (t[1] == CMR + vcc.CMR_ALG_OF[m] or (m == "jet" and t[2] == "cmr")):
                rep.violation("C09.nonint", key + ":root", "the stored CMR is %s, expected Cmr::%s(..)"
                              % (show(t), vcc.CMR_ALG_OF[m]), where)
            else:
                rep.ok("C09.nonint", key, show(t))
            if is_node:
                # the Inner built alongside must be the variant of the method, children in order
                ti = T.operand(rv["ops"][rv["fields"].index("inner")])
                want_v = vcc.VARIANT_OF[m]
                if ti[0] == "adt" and ti[1] == vcc.INNER:
                    if ti[2] != want_v:
                        rep.violation("C09.siblings", key + ":inner", "constructor %s builds Inner::%s" % (m, ti[2]), where)
                    else:
                        okk = True
                        for k, a in enumerate(ti[4]):
                            r = vcc.param_roots(a, fm)
                            want = vcc.ARG_PARAMS[m][k] if k < len(vcc.ARG_PARAMS[m]) else None
                            if m == "disconnect" and k == 1:
                                want = 2
                            if m == "witness":
                                want = 2
                            if want is not None and r != {want}:
                                rep.violation("C09.siblings", key + ":inner:field%d" % k,
                                              "Inner::%s field %d derives from parameters %s, expected %d" % (want_v, k, sorted(r), want), where)
                                okk = False
                        if okk:
                            rep.ok("C09.siblings", key + " builds Inner::" + want_v, None)
                elif ti[0] == "adt":
                    rep.violation("C09.siblings", key + ":inner", "unexpected inner %s" % show(ti), where)
        elif f.path == "simplicity::node::Node::<N>::from_parts":
            rep.ok("C09.writers", "Node::from_parts (checked by C09.fromparts)", None)
        elif f.path == "simplicity::node::Node::<N>::convert":
            roots = vcc.param_roots(t, fm)
            names = {c[2] for c in calls_in(t)}
            conv = {"convert_data", "convert_witness", "convert_disconnect", "prune_case", "visit_node"}
            if roots != {1} or names & conv or not _ends_with_field(t, "cmr"):
                rep.violation("C09.copy", "Node::convert", "the converted node's CMR is %s (parameters %s); expected a copy of "
                              "the source node's cmr field" % (show(t), sorted(roots)), where)
            else:
                rep.ok("C09.copy", "Node::convert", show(t))
        elif _passthrough(F, f, t):
            rep.ok("C09.writers", "%s (private helper storing the root its caller computed; callers judged with it spliced in)" % short(f.path), None)
        else:
            rep.violation("C09.writers", "UNREVIEWED:" + f.path, "function builds a %s; not a reviewed constructor — "
                          "review it and add it to the rule" % short(rv["adt"]), where)
    rep.floor("C09.writers(Node aggregates)", n_node, 18)

    # ---------------- from_parts ----------------
    fp = F.fn("simplicity::node::Node::<N>::from_parts")
    if fp is None:
        rep.anchor("C09.fromparts", "simplicity::node::Node::<N>::from_parts")
    else:
        fp = F.inlined(fp, tuple(CMR_FNS), depth=3)      # the match may live in a private helper (per-arity helpers included)
        T = Terms(fp)
        sws = enum_switches(fp, "node::inner::Inner")
        if not sws:
            rep.anchor("C09.fromparts", "switch on Inner in Node::from_parts")
        seen_v = set()
        for b, (place, adt, targets, otherwise, rest) in sws:
            for v, tgt in targets.items():
                region = fp.dominated_by(tgt)
                cmr_calls = [cs for cs in fp.calls(region) if is_cmr_alg(cs)]
                want = vcc.CMR_ALG_OF[vcc.METHOD_OF.get(v, "?")] if v in vcc.METHOD_OF else None
                key = "from_parts:" + v
                seen_v.add(v)
                if want is None:
                    rep.violation("C09.fromparts", key, "unknown Inner variant %s" % v, fp.where())
                    continue
                if len(cmr_calls) != 1 or cmr_calls[0].name != want:
                    rep.violation("C09.fromparts", key, "arm %s computes %s, expected exactly Cmr::%s"
                                  % (v, [c.name for c in cmr_calls], want), fp.where())
                    continue
                cs = cmr_calls[0]
                okk = True
                for k, a in enumerate(cs.args):
                    t = T.operand(a)
                    lf = [x for x in leaves(t) if x[0] == "parampath"]
                    chains = {x[3] for x in lf}
                    # the child's root through its accessor, or read directly from its `cmr` field
                    if chains not in ({(v, str(k))}, {(v, str(k), "cmr")}) or vcc.param_roots(t, fm) != {1}:
                        rep.violation("C09.fromparts", key + ":arg%d" % k, "argument %d of Cmr::%s is %s, expected field %d of Inner::%s"
                                      % (k, want, show(t), k, v), cs.where())
                        okk = False
                if okk:
                    rep.ok("C09.fromparts", key, "Cmr::%s(%s)" % (want, ", ".join(show(T.operand(a)) for a in cs.args)))
        missing = set(vcc.VARIANTS) - seen_v
        if sws and missing:
            rep.violation("C09.fromparts", "from_parts:missing", "no explicit arm for %s" % sorted(missing), fp.where())

    # ---------------- HasCmr impls ----------------
    n_h = 0
    for f in F.fns.values():
        if f.impl_trait == HASCMR and f.name == "cmr":
            n_h += 1
            T = Terms(f)
            t = T.local(0)
            roots = vcc.param_roots(t, fm)
            names = {c[2] for c in calls_in(t)}
            okk = roots == {1} and names <= {"cmr"}
            if not okk and roots == {1} and names <= {"cmr"} | SELECTORS:
                # `self.result.as_ref().map_or_else(|cmr| *cmr, N::cmr)`: a selector between the stored root of either side;
                # every closure it is given returns its argument (or a root read from it), every function item is a `cmr`
                okk = True
                for sub in _subterms(t):
                    if sub[0] == "fnitem" and not str(sub[1]).endswith("::cmr"):
                        okk = False
                    if sub[0] == "closure":
                        g = F.fns.get(sub[1])
                        tb = Terms(g).local(0) if g is not None else None
                        if tb is None or not {c[2] for c in calls_in(tb)} <= {"cmr"} or not vcc.param_roots(tb, fm) <= {1, 2}:
                            okk = False
            if not okk:
                rep.violation("C09.hascmr", impl_short(f), "HasCmr::cmr returns %s" % show(t), f.where())
            else:
                rep.ok("C09.hascmr", impl_short(f), show(t))
    rep.floor("C09.hascmr", n_h, 3)
    acc = F.fn("simplicity::node::Node::<N>::cmr")
    if acc is None:
        rep.anchor("C09.hascmr", "Node::cmr accessor")
    else:
        t = Terms(acc).local(0)
        if not _ends_with_field(t, "cmr") or vcc.param_roots(t, fm) != {1}:
            rep.violation("C09.hascmr", "Node::cmr", "accessor returns %s" % show(t), acc.where())
        else:
            rep.ok("C09.hascmr", "Node::cmr", show(t))

    # ---------------- IVs ----------------
    ivs = {p: c for p, c in F.consts.items() if p.startswith(CMR) and p.endswith("_IV") and "bytes" in c}
    rep.count("cmr_ivs", len(ivs))
    rep.floor("C09.iv(consts)", len(ivs), 13)
    seen = {}
    for p, c in sorted(ivs.items()):
        b = c["bytes"]
        if b in seen:
            rep.violation("C09.iv", "dup:" + p.rsplit("::", 1)[1], "%s and %s have the same midstate" % (p, seen[b]))
        else:
            seen[b] = p
            rep.ok("C09.iv", "distinct " + p.rsplit("::", 1)[1], b[:16] + "…")
    for alg in sorted(CMR_FNS - {"jet"}):
        f = F.fn(CMR + alg)
        if f is None:
            rep.anchor("C09.iv", CMR + alg)
            continue
        used = set()
        for b in f.rpo():
            for s in f.blocks[b]["s"]:
                if s[0] == "=":
                    _collect_items(s[2], used)
            t = f.blocks[b]["t"]
            if t["k"] == "call":
                for a in t["args"]:
                    if a.get("k") == "const" and "item" in a:
                        used.add(a["item"])
        used = {u for u in used if u.startswith(CMR) and u.endswith("_IV")}
        want = CMR + alg.upper() + "_IV"
        if used != {want}:
            rep.violation("C09.iv", "Cmr::" + alg, "Cmr::%s uses IVs %s, expected %s" % (alg, sorted(short(u) for u in used), short(want)), f.where())
        else:
            rep.ok("C09.iv", "Cmr::%s uses %s_IV" % (alg, alg.upper()), None)
    entropy_cover(F, rep)
    printer(F, rep)
    return FINISH


def _range_of(t, n):
    """constant sub-range [lo, hi) of 0..n denoted by a std::ops::Range* literal, or None"""
    if not (isinstance(t, tuple) and t and t[0] == "adt" and t[1].startswith("std::ops::Range")):
        return None
    d = dict(zip(t[3], t[4]))
    kind = t[1].rsplit("::", 1)[1]

    def c(x):
        return x[1] if isinstance(x, tuple) and x and x[0] == "int" else None
    if kind == "RangeFull":
        return (0, n)
    if kind == "RangeTo":
        return (0, c(d.get("end"))) if c(d.get("end")) is not None else None
    if kind == "RangeFrom":
        return (c(d.get("start")), n) if c(d.get("start")) is not None else None
    if kind == "Range":
        lo, hi = c(d.get("start")), c(d.get("end"))
        return (lo, hi) if lo is not None and hi is not None else None
    if kind == "RangeToInclusive":
        return (0, c(d.get("end")) + 1) if c(d.get("end")) is not None else None
    return None


def entropy_cover(F, rep):
    """distinct fail entropies must give distinct roots: every byte of the 64-byte entropy reaches the hash.  Decided for the
    spelling that can lose bytes, i.e. constant slices of the entropy: their union must be 0..64 (no slicing: whole use)."""
    f0 = F.fn(CMR + "fail")
    if f0 is None:
        rep.anchor("C09.entropy", CMR + "fail")
        return
    f = F.inlined(f0, ("index", "zz_update_64", "zz_update_2x32", "to_byte_array"))
    T = Terms(f)
    ranges, unknown = [], 0
    for cs in f.calls():
        if cs.name not in ("index", "index_mut", "get", "split_at") or len(cs.args) < 2:
            continue
        base = T.operand(cs.args[0])
        if 1 not in vcc.param_roots(base, fm):
            continue
        if cs.name == "split_at":
            ranges.append((0, 64))
            continue
        r = _range_of(T.operand(cs.args[1]), 64)
        if r is None:
            unknown += 1
        else:
            ranges.append(r)
    if unknown:
        rep.note("Cmr::fail slices the entropy with a non-constant range: coverage not decided")
        return
    if not ranges:
        uses = [cs for cs in f.calls() if cs.args and any(1 in vcc.param_roots(T.operand(a), fm) for a in cs.args)]
        if uses:
            rep.ok("C09.entropy", "Cmr::fail passes the entropy whole", ", ".join(sorted({cs.name for cs in uses})))
        else:
            rep.violation("C09.entropy", "fail:unused", "Cmr::fail does not use its entropy argument", f0.where())
        return
    covered = [False] * 64
    for lo, hi in ranges:
        for i in range(max(lo, 0), min(hi, 64)):
            covered[i] = True
    missing = [i for i, cv in enumerate(covered) if not cv]
    if missing:
        rep.violation("C09.entropy", "fail:coverage", "Cmr::fail slices the entropy as %s: bytes %d..%d never reach the hash, so fail nodes whose entropies "
                      "differ only there get the same root" % (sorted(set(ranges)), missing[0], missing[-1] + 1), f0.where())
    else:
        rep.ok("C09.entropy", "Cmr::fail: slices %s cover the 64 entropy bytes" % sorted(set(ranges)), None)


def printer(F, rep):
    want = {"AssertL": "1", "AssertR": "0"}
    n = 0
    seen_keys = set()
    for f0 in sorted(F.fns.values(), key=lambda x: x.path):
        if not f0.path.startswith("simplicity::human_encoding::") or f0.path.startswith("simplicity::human_encoding::parse"):
            continue
        f = F.inlined(f0) if f0.kind in ("Fn", "AssocFn") else f0
        T = None
        for b, si in fm.enum_switches(f, "node::inner::Inner"):
            for v, fld in want.items():
                tgt = si[2].get(v)
                if tgt is None:
                    continue
                region = f.dominated_by(tgt)
                for cs in f.calls(region):
                    ga = " ".join(cs.f.get("args", []))
                    if not cs.args or "merkle::cmr::Cmr" not in ga or cs.name not in ("to_string", "new_display", "new_lower_hex", "fmt", "new_debug"):
                        continue
                    T = T or Terms(f)
                    t = T.operand(cs.args[0])
                    key = "%s: %s" % (short(f0.path), v)
                    if key in seen_keys:
                        continue
                    seen_keys.add(key)
                    n += 1
                    okk = isinstance(t, tuple) and t and t[0] == "field" and t[2] == fld and isinstance(t[1], tuple) and t[1][0] == "as" and t[1][2] == v
                    if okk:
                        rep.ok("C09.print", key, "prints the %s payload" % v)
                    else:
                        rep.violation("C09.print", key, "in the %s case the printer writes `%s` as the hidden branch root; the root stored in the node is "
                                      "%s's field %s — re-parsing the text gives a program with a different commitment root"
                                      % (v, show(t)[:80], v, fld), cs.where())
    rep.floor("C09.print", n, 2)


REVIEWED_WRITERS = ("simplicity::node::Node::<N>::from_parts", "simplicity::node::Node::<N>::convert")


def _passthrough(F, f, t, _depth=0):
    """f is a private helper that stores, as the root, a value its caller passed in unchanged; every caller is a reviewed
    writer (a Constructible method, from_parts, convert) or such a helper itself, and could splice it in"""
    if f.vis == "pub" or f.impl_trait or _depth > 3:
        return False
    callers = F.callers_of(f.path)
    if not callers:
        return False
    for c in callers:
        g = F.fns.get(c) if isinstance(c, str) else c
        if g is None:
            return False
        if F.inlinable(g, f.path) is None:
            return False
        if g.impl_trait in vcc.CONSTRUCTIBLE_TRAITS and g.name in vcc.VARIANT_OF or g.path in REVIEWED_WRITERS:
            continue      # judged there, with this helper spliced in
        if g.file == f.file and g.kind in ("Fn", "AssocFn") and _passthrough(F, g, t, _depth + 1):
            continue      # a helper of a helper
        return False
    return True


SELECTORS = {"map_or_else", "map_or", "unwrap_or_else", "as_ref", "as_deref", "copied", "cloned", "unwrap_or"}


def _subterms(t):
    if isinstance(t, tuple):
        if t and isinstance(t[0], str):
            yield t
        for x in t:
            if isinstance(x, tuple):
                for y in _subterms(x):
                    yield y


def _collect_items(rv, used):
    for key in ("a", "b"):
        o = rv.get(key)
        if isinstance(o, dict) and o.get("k") == "const" and "item" in o:
            used.add(o["item"])
    for o in rv.get("ops", []):
        if o.get("k") == "const" and "item" in o:
            used.add(o["item"])


def _ends_with_field(t, name):
    return isinstance(t, tuple) and t and t[0] == "field" and t[2] == name
