"""C16 — policies compile, satisfy and canonicalise consistently (two structural clauses).

  C16.arms     Policy::serialize_no_witness and Policy::satisfy_internal build each policy fragment with the
               same generic function policy::serialize::<fragment>, children passed left/right in order
  C16.frag     those generic fragments use their node type only through the Constructible traits (no
               downcast, no HasCmr inspection, nothing from node::/merkle:: directly): parametric in the node type
  C16.inst     cmr()/commit()/satisfy() instantiate the same builder (ConstructibleCmr / ConstructNode / Hiding)
               and return the root that builder computed; Hiding::hide keeps the node's own CMR
  C16.sort     Policy::sort recurses into the children *in place* (receiver reachable from *self, never a
               clone or other temporary) in every composite arm, then orders the children

By parametricity, the three roots coincide given that the CMR algebras agree (C09.siblings, checked again
here because it is a premise) and none reads the witness (C09.nonint).  Not decided: the and/or/threshold
satisfaction logic and successful execution (runtime).
"""
import facts as fm
from facts import Terms, enum_switches, show, short, calls_in, leaves, TRANSPARENT_CALLS
import vcc
import flow

POLICY = "simplicity::policy::ast::Policy"
SER = "simplicity::policy::serialize::"
FRAG = {"Unsatisfiable": "unsatisfiable", "Trivial": "trivial", "Key": "key", "After": "after", "Older": "older",
        "Sha256": "sha256", "And": "and", "Or": "or", "Threshold": "threshold"}

FINISH = dict(level="other",
              explanation="Call-graph and provenance analysis over MIR of the policy compiler: the three ways of "
                          "obtaining a policy's root go through the same node-type-parametric fragment builders; "
                          "sort() mutates in place.  Premises from C09 (sibling CMR algebras agree, roots are copied "
                          "by conversion) are re-evaluated on this run.",
              assumptions=["parametricity: a generic function that uses its type parameter only through trait "
                           "methods computes corresponding results for corresponding trait implementations"])

NO_CLONE = {k: v for k, v in TRANSPARENT_CALLS.items()
            if k not in ("clone", "shallow_clone", "to_owned", "cloned", "copied", "to_string", "into", "from")}
REBORROW_OK = {"make_mut", "get_mut", "deref_mut", "as_mut", "next", "into_iter", "iter_mut", "unwrap", "expect",
               "borrow_mut", "index_mut", "last_mut", "first_mut"}


def _places(x, out):
    if isinstance(x, dict):
        for v in x.values():
            _places(v, out)
    elif isinstance(x, list):
        if len(x) >= 2 and isinstance(x[0], int) and not isinstance(x[0], bool) and isinstance(x[1], list) and x[1] \
                and all(isinstance(e, str) for e in x[1]):
            out.append(x)
        for v in x:
            _places(v, out)


def gate_fn(F):
    """`ok_if(condition, fragment)`: the private function of policy::satisfy taking (bool, fragment) — by name, or, when it was
    renamed, by that signature"""
    f = F.fn("simplicity::policy::satisfy::ok_if")
    if f is not None:
        return f
    out = []
    for p_, g in F.fns.items():
        if p_.startswith("simplicity::policy::satisfy::") and g.kind in ("Fn", "AssocFn") and g.arg_count == 2:
            a1 = g.locals[1] if len(g.locals) > 1 else ""
            a1 = a1 if isinstance(a1, str) else a1.get("ty", "")
            if a1 == "bool":
                out.append(g)
    return out[0] if len(out) == 1 else None


def run(ctx, rep):
    F = ctx.facts("full")
    rep.rule("C16.arms", "compile and satisfy use serialize::<fragment of the same name>, children in order")
    rep.rule("C16.frag", "fragments touch the node type only through Constructible traits")
    rep.rule("C16.inst", "cmr/commit/satisfy instantiate the shared builder and return its root; hide keeps the CMR")
    rep.rule("C16.sort", "sort recurses in place into every composite child, then orders")

    # ---------- arms ----------
    okif = gate_fn(F)
    GATE_NAME = okif.name if okif is not None else "ok_if"
    builders = {}
    for name in ("serialize_no_witness", "satisfy_internal"):
        fs = [f for f in F.fns.values() if f.name == name and f.impl_adt == POLICY]
        if len(fs) != 1:
            rep.anchor("C16.arms", "Policy::" + name)
            continue
        builders[name] = fs[0]
    inlined_builders = {}
    for name, f in builders.items():
        # arms split into private methods (one per fragment) are spliced back in
        f = F.inlined(f, tuple(set(FRAG.values())) + ("serialize_no_witness", "satisfy_internal", GATE_NAME, "hide"))
        inlined_builders[name] = f
        T = Terms(f)
        sws = enum_switches(f, "policy::ast::Policy")
        if not sws:
            rep.anchor("C16.arms", "switch on Policy in " + name)
            continue
        b, (place, adt, targets, otherwise, rest) = sws[0]
        seen = set()
        clos = F.closures_of(f)
        for v, tgt in targets.items():
            seen.add(v)
            region = f.dominated_by(tgt)
            calls = [cs for cs in f.calls(region) if cs.callee.startswith(SER)]
            want = FRAG.get(v)
            key = "%s:%s" % (name, v)
            if want is None:
                rep.violation("C16.arms", key, "unknown Policy variant %s (add its fragment to the rule table)" % v, f.where())
                continue
            names = {cs.name for cs in calls}
            if names != {want}:
                rep.violation("C16.arms", key, "arm %s builds with serialize::%s, expected serialize::%s"
                              % (v, sorted(names), want), f.where())
                continue
            okk = True
            if v in ("And", "Or"):
                for cs in calls:
                    for k, fld in ((0, "left"), (1, "right")):
                        t = T.operand(cs.args[k])
                        flds = {x[3] for x in leaves(t) if x[0] == "parampath" and x[1] == 1}
                        flds = {c for c in flds if c and c[0] == v}
                        if flds != {(v, fld)}:
                            rep.violation("C16.arms", key + ":arg%d" % k, "argument %d of serialize::%s derives from %s, expected the %s child"
                                          % (k, want, sorted(flds), fld), cs.where())
                            okk = False
            # every successful way out of the arm goes through the fragment builder: an early `return Ok(..)` that hands a child's
            # result on (e.g. when the left child of an `and` is unsatisfied) gives the node the root of a different program
            if okk and calls:
                avoid = {cs.bb for cs in calls} | flow.error_blocks(f)
                reach = f.reachable(tgt, avoid=avoid) if tgt not in avoid else set()
                esc = [bb for bb in reach if f.blocks[bb]["t"]["k"] == "return"]
                if esc:
                    rep.violation("C16.arms", key + ":bypass", "%s: the arm for %s can return successfully without calling serialize::%s: the fragment "
                                  "would carry the root of a different program than Policy::cmr() computes" % (name, v, want), f.where())
                    okk = False
            # every payload field of the variant is read in its arm: Policy::cmr() depends on all of them (entropy of an
            # unsatisfiable leaf, the key, the hash, the lock time, k and the children), so a program built without one cannot
            # have that root for every value of it
            pdef = F.adts.get(POLICY)
            if okk and pdef is not None:
                vdef = next((x for x in pdef["variants"] if x["name"] == v), None)
                used = set()
                pl = []
                for bb in region:
                    _places(f.blocks[bb], pl)
                for p_ in pl:
                    pr = p_[1]
                    for i_, st_ in enumerate(pr):
                        if st_ == "@" + v and i_ + 1 < len(pr) and pr[i_ + 1].startswith("."):
                            used.add(pr[i_ + 1][1:])
                for fd in (vdef["fields"] if vdef else []):
                    if fd["name"] not in used:
                        rep.violation("C16.arms", key + ":payload:" + fd["name"], "%s: the arm for %s never reads the variant's field `%s`: the fragment it "
                                      "builds cannot depend on it, but Policy::cmr() does" % (name, v, fd["name"]), f.where())
                        okk = False
            if okk:
                rep.ok("C16.arms", key, "serialize::%s ×%d" % (want, len(calls)))
        for v in rest:
            rep.violation("C16.arms", "%s:%s" % (name, v), "variant %s has no explicit arm" % v, f.where())
        # recursion goes to the same builder
        rec = [cs for cs in f.calls() if cs.name in builders and cs.callee != f.path and cs.callee in F.fns]
        for c in clos:
            rec += [cs for cs in c.calls() if cs.name in builders and cs.callee != f.path and cs.callee in F.fns]
        for cs in rec:
            rep.violation("C16.arms", name + ":recursion", "%s recurses through %s" % (name, cs.callee), cs.where())
    rep.floor("C16.arms", rep.instances("C16.arms"), 18)

    # ---------- fragments are parametric ----------
    frags = [f for p, f in F.fns.items() if p.startswith(SER) and "::tests::" not in p]
    rep.count("fragment_functions", len(frags))
    rep.floor("C16.frag(functions)", len(frags), 15)
    for f in sorted(frags, key=lambda x: x.path):
        bad = []
        n = 0
        for cs in f.calls():
            cal = cs.callee
            if cs.trait in vcc.CONSTRUCTIBLE_TRAITS:
                n += 1
                if cs.resolved:
                    bad.append("%s resolved to a concrete impl %s (fragment is not generic)" % (cs.name, cal))
                continue
            if cal.startswith(SER):
                continue
            if cal.startswith(("simplicity::node::", "simplicity::merkle::", "simplicity::types::", "simplicity::dag::",
                               "simplicity::bit_machine::", "simplicity::analysis::")):
                bad.append("calls %s" % cal)
            elif cs.name in ("cmr", "as_node", "get_node", "hide", "downcast_ref", "type_id"):
                bad.append("calls %s" % cal)
        key = f.path[len(SER):]
        if bad:
            for bmsg in sorted(set(bad)):
                rep.violation("C16.frag", key + ":" + bmsg.split()[-1], "fragment %s %s" % (key, bmsg), f.where())
        else:
            rep.ok("C16.frag", key, "%d Constructible calls on the type parameter" % n)

    # ---------- instantiations ----------
    def one(path_suffix, adt=POLICY):
        fs = [f for f in F.fns.values() if f.path.endswith(path_suffix) and f.impl_adt == adt]
        return fs[0] if len(fs) == 1 else None

    cmr_fn = one("::cmr")
    commit_fn = one("::commit")
    satisfy_fn = one("::satisfy")
    for nm, f in (("Policy::cmr", cmr_fn), ("Policy::commit", commit_fn), ("Policy::satisfy", satisfy_fn)):
        if f is None:
            rep.anchor("C16.inst", nm)
    if cmr_fn is not None:
        # the closure passed to with_context does the work
        bodies = [cmr_fn] + F.closures_of(cmr_fn)
        hit = None
        for bfn in bodies:
            for cs in bfn.calls():
                if cs.name == "serialize_no_witness":
                    hit = (bfn, cs)
        if hit is None:
            rep.violation("C16.inst", "Policy::cmr", "does not call serialize_no_witness", cmr_fn.where())
        else:
            bfn, cs = hit
            targs = cs.f.get("args", [])
            t = Terms(bfn).local(0)
            if not any("ConstructibleCmr" in a for a in targs):
                rep.violation("C16.inst", "Policy::cmr:type", "instantiated at %s, expected ConstructibleCmr" % targs, cs.where())
            elif not (t[0] == "field" and t[2] == "cmr" and t[1][0] == "call" and t[1][2] == "serialize_no_witness"):
                rep.violation("C16.inst", "Policy::cmr:result", "returns %s, expected the cmr field of the built value" % show(t), cs.where())
            else:
                rep.ok("C16.inst", "Policy::cmr", show(t))
    if commit_fn is not None:
        bodies = [commit_fn] + F.closures_of(commit_fn)
        names = [cs.name for bfn in bodies for cs in bfn.calls()]
        if "serialize_no_witness" in names and "finalize_types" in names:
            rep.ok("C16.inst", "Policy::commit", "serialize_no_witness → finalize_types")
        else:
            rep.violation("C16.inst", "Policy::commit", "expected serialize_no_witness then finalize_types, found %s" % names, commit_fn.where())
    if satisfy_fn is not None:
        names = [cs.name for cs in satisfy_fn.calls()]
        need = ["satisfy_internal", "get_node", "finalize_unpruned", "prune"]
        pos = []
        for n in need:
            pos.append(names.index(n) if n in names else -1)
        if -1 in pos or pos != sorted(pos):
            rep.violation("C16.inst", "Policy::satisfy", "expected %s in order, found %s" % (need, names), satisfy_fn.where())
        else:
            rep.ok("C16.inst", "Policy::satisfy", " → ".join(need))
    hide = [f for f in F.fns.values() if f.name == "hide" and f.impl_adt == "simplicity::node::hiding::Hiding"]
    if len(hide) != 1:
        rep.anchor("C16.inst", "Hiding::hide")
    else:
        f = hide[0]
        T = Terms(f)
        hc = [cs for cs in f.calls() if cs.name == "hidden"]
        if len(hc) != 1:
            rep.violation("C16.inst", "Hiding::hide", "expected one call to Hiding::hidden", f.where())
        else:
            t = T.operand(hc[0].args[0])
            good = t[0] == "call" and t[2] == "cmr" and "Ok" in repr(t) and vcc.param_roots(t, fm) == {1}
            if good:
                rep.ok("C16.inst", "Hiding::hide", show(t))
            else:
                rep.violation("C16.inst", "Hiding::hide", "hidden CMR is %s, expected the node's own cmr()" % show(t), hc[0].where())

    # ---------- premise: sibling CMR algebras agree (C09.siblings) ----------
    import c09
    from core import Report
    sub = Report("C09", rep.tier)
    c09.run(ctx, sub)
    sib_v = [v for v in sub.viols if v["rule"] in ("C09.siblings", "C09.nonint", "C09.copy")]
    if sib_v:
        for v in sib_v:
            rep.violation("C16.inst", "premise:" + v["key"], "premise of the parametricity argument fails: " + v["msg"], v["where"])
    else:
        rep.ok("C16.inst", "premise C09.siblings/nonint/copy",
               "%d instances hold" % sum(1 for o in sub.oks if o[0] in ("C09.siblings", "C09.nonint", "C09.copy")))

    # ---------- sort ----------
    srt = [f for f in F.fns.values() if f.name == "sort" and f.impl_adt == POLICY]
    if len(srt) != 1:
        rep.anchor("C16.sort", "Policy::sort")
        return FINISH
    # the pair logic may live in a private helper (sort_pair): splice it back in
    f = F.inlined(srt[0], ("sort", "swap", "make_mut", "sort_unstable", "sort_by", "sort_by_key", "gt", "lt", "ge", "le", "cmp",
                           "partial_cmp", "for_each", "map", "try_for_each", "iter_mut"))
    T = Terms(f, transparent=NO_CLONE)
    sws = enum_switches(f, "policy::ast::Policy")
    if not sws:
        rep.anchor("C16.sort", "switch on Policy in sort")
        return FINISH
    b, (place, adt, targets, otherwise, rest) = sws[0]
    # an `if let A = self {..; return}` chain tests the discriminant several times: take each variant's arm from the
    # switch that names it
    targets = dict(targets)
    for _b2, si2 in sws[1:]:
        if (si2[0][0], tuple(si2[0][1])) == (place[0], tuple(place[1])):
            for v_, t_ in si2[2].items():
                targets.setdefault(v_, t_)
    composite = {}
    for a in F.adts.values():
        if a["path"] == POLICY:
            for v in a["variants"]:
                if any("Policy<" in fld["ty"] for fld in v["fields"]):
                    composite[v["name"]] = [fld["name"] for fld in v["fields"] if "Policy<" in fld["ty"]]
    if not composite:
        rep.anchor("C16.sort", "composite variants of Policy")
    rec_calls = [cs for cs in f.calls() if cs.callee == f.path]
    # `subs.iter_mut().for_each(Policy::sort)`: the function itself handed to an iterator adaptor is a recursive call on
    # each element of the adaptor's receiver
    for cs in f.calls():
        if cs.callee != f.path and cs.name in ("for_each", "map", "try_for_each") and len(cs.args) == 2:
            ft = T.operand(cs.args[1])
            if isinstance(ft, tuple) and ft and ft[0] == "fnitem" and ft[1] == f.path:
                rec_calls.append(cs)
    # every recursive call's receiver must be a place inside *self
    for i, cs in enumerate(rec_calls):
        t = T.operand(cs.args[0])
        inner_calls = {c[2] for c in calls_in(t)}
        roots = vcc.param_roots(t, fm)
        key = "recv#%d" % i
        flds = sorted({".".join(x[3]) for x in leaves(t) if x[0] == "parampath"})
        key = "recv:" + (",".join(flds) or "?")
        if roots != {1} or not inner_calls <= REBORROW_OK:
            rep.violation("C16.sort", key, "recursive sort() is applied to %s, which is not a place inside *self "
                          "(calls %s): the sorted value is a temporary and is discarded"
                          % (show(t), sorted(inner_calls - REBORROW_OK)), cs.where())
        else:
            rep.ok("C16.sort", key, show(t))
    # every composite variant's children are each reached by a recursive call inside that variant's arm
    for v, fields in sorted(composite.items()):
        tgt = targets.get(v)
        if tgt is None:
            rep.violation("C16.sort", "arm:" + v, "composite variant %s has no arm in sort(): its children are never sorted" % v, f.where())
            continue
        region = f.reachable(tgt) - {x for vv, tt in targets.items() if vv != v and tt != tgt for x in []}
        got = set()
        for cs in rec_calls:
            if cs.bb in region:
                t = T.operand(cs.args[0])
                for x in leaves(t):
                    if x[0] == "parampath" and x[3] and x[3][0] == v:
                        got.add(x[3][1])
        missing = [fl for fl in fields if fl not in got]
        orders = [cs for cs in f.calls(region) if cs.name in ("swap", "sort", "sort_unstable", "sort_by", "sort_by_key")
                  and cs.callee != f.path]
        # the children must be canonical *before* they are compared/reordered: no recursive sort() may
        # still be ahead of a comparison or reordering of the children
        cmps = [cs for cs in f.calls(region) if cs.name in ("gt", "lt", "ge", "le", "cmp", "partial_cmp")]
        rec_blocks = {cs.bb for cs in rec_calls if cs.bb in region}
        late = []
        for cs in orders + cmps:
            ahead = (f.reachable(cs.bb) - {cs.bb}) & rec_blocks
            # a loop that sorts each element and then orders the whole vector: the ordering call must lie
            # outside the loop that contains the recursive calls
            if ahead and not (v == "Threshold" and not f.in_loop(cs.bb)):
                late.append(cs)
        # ... and unconditionally: a comparison/reordering of the children that can be reached on a path avoiding a child's
        # recursive sort (`if let Some(l) = Arc::get_mut(left) { l.sort() }` skips a child that has another owner)
        skipped = []
        if v != "Threshold":
            for cs in orders + cmps:
                for rc in rec_calls:
                    if rc.bb in region and not f.in_loop(rc.bb) and rc.bb != cs.bb and cs.bb in f.reachable(rc.bb) and not f.dominates(rc.bb, cs.bb):
                        skipped.append((rc, cs))
        if skipped and not missing and not late:
            rc, cs = skipped[0]
            rep.violation("C16.sort", "arm:%s:conditional" % v, "in the %s arm the recursive sort of a child (%s) can be bypassed on the way to the "
                          "comparison/reordering `%s`: a child that is skipped (for instance an Arc with a second owner under Arc::get_mut) stays "
                          "unsorted, so equal policies keep different forms" % (v, show(T.operand(rc.args[0]))[:80], cs.name), rc.where())
            continue
        if missing:
            rep.violation("C16.sort", "arm:%s:children" % v, "children %s of %s are not sorted recursively" % (missing, v), f.where())
        elif not orders:
            rep.violation("C16.sort", "arm:%s:order" % v, "children of %s are never reordered" % v, f.where())
        elif late:
            rep.violation("C16.sort", "arm:%s:sequence" % v, "children of %s are compared/reordered (%s) before they are themselves "
                          "sorted: the result depends on the children's initial order" % (v, sorted({c.name for c in late})), late[0].where())
        else:
            rep.ok("C16.sort", "arm:" + v, "recursive sort of %s then %s" % (fields, sorted({o.name for o in orders})))

    # ---------- satisfaction gates (necessary condition of 'succeeds exactly when the answers make it true') ----------
    rep.rule("C16.gate", "satisfy_internal: an unsatisfiable leaf is reported hidden; every leaf/or/threshold result is gated by ok_if on its condition")
    GATE = {"Unsatisfiable": "hide", "Trivial": None, "Key": GATE_NAME, "After": GATE_NAME, "Older": GATE_NAME, "Sha256": GATE_NAME,
            "And": None, "Or": GATE_NAME, "Threshold": GATE_NAME}
    si = inlined_builders.get("satisfy_internal")
    if si is not None:
        sws2 = enum_switches(si, "policy::ast::Policy")
        if sws2:
            b2, (pl2, adt2, targets2, oth2, rest2) = sws2[0]
            for v, tgt in sorted(targets2.items()):
                region = si.dominated_by(tgt)
                names = {cs.name for cs in si.calls(region)}
                want = GATE.get(v, "?")
                if want == "?":
                    continue
                if want is None:
                    if "hide" in names:
                        rep.violation("C16.gate", v, "arm %s hides its result unconditionally" % v, si.where())
                    else:
                        rep.ok("C16.gate", v, "ungated (satisfied iff its children are)")
                elif want in names:
                    rep.ok("C16.gate", v, "result passes through %s" % want)
                else:
                    rep.violation("C16.gate", v, "arm %s returns its fragment without %s: an unsatisfied %s is reported as satisfied"
                                  % (v, want, v.lower()), si.where())
    if okif is None:
        rep.anchor("C16.gate", "policy::satisfy::ok_if")
    else:
        # ok_if(cond, expr): cond true -> expr, false -> expr.hide()
        Tk = Terms(okif)
        sw = [bb for bb in okif.rpo() if okif.blocks[bb]["t"]["k"] == "switch"]
        good = False
        if len(sw) == 1:
            t = okif.blocks[sw[0]]["t"]
            roots = vcc.param_roots(Tk.operand(t["discr"]), fm)
            zero = [tg for vv, tg in t["targets"] if vv == "0"]
            if roots == {1} and zero:
                false_region = okif.reachable(zero[0]) - okif.reachable(t["otherwise"])
                true_region = okif.reachable(t["otherwise"]) - okif.reachable(zero[0])
                hides_f = any(cs.name == "hide" for cs in okif.calls(false_region))
                hides_t = any(cs.name == "hide" for cs in okif.calls(true_region))
                good = hides_f and not hides_t
        if good:
            rep.ok("C16.gate", "ok_if", "false → hide(), true → unchanged")
        else:
            rep.violation("C16.gate", "ok_if", "ok_if does not hide exactly when its condition is false", okif.where())
    return FINISH
