"""C08 — pruning preserves commitment and behaviour: structural clauses.

Does not decide behaviour preservation, acceptance by libsimplicity's anti-DoS checks or idempotence (runtime).
Decides:
  C08.cmr       the pruned program's roots are copies: Node::convert stores the source node's CMR (C09.copy re-evaluated)
  C08.tracker   SetTracker::visit_node records (AssertL|Case, bit 0) → left set and (AssertR|Case, bit 1) → right set,
                keyed on the node's IHR; the interpreter hands every tracker the node's *input* frame captured before the
                node ran; a tracker that forwards to another tracker passes its input on unconsumed; recording is
                unconditional: no exit of visit_node precedes the (combinator, bit) decision and nothing else guards an
                insertion
  C08.decision  Pruner::prune_case: (left seen, right seen) ↦ (t,t)→Neither, (f,t)→Left, (t,f)→Right, (f,f)→Neither, keyed on
                the IHR of the *unpruned* node; Node::convert: Hide::Left → AssertR(left.cmr, right), Hide::Right →
                AssertL(left, right.cmr), Neither → Case(left, right)
  C08.order     prune_with_tracker sizes a machine for the program, executes it with the caller's tracker (failure is
                returned), only then converts with that tracker, then re-finalises; the pruned witness is
                Value::prune(witness, finalised re-inferred target type) (C12.check re-evaluated); both conversions hand on
                the already converted disconnected branch, never one rebuilt from the original node
"""
import facts as fm
import flow
import tmpl
from facts import Terms, enum_switches, switch_info, show, calls_in, leaves
import vcc
import roles

PRUNE = "simplicity::node::redeem::<impl simplicity::node::Node<simplicity::node::redeem::Redeem>>::prune_with_tracker"
FINISH = dict(level="other",
              explanation="Decision tables: the tracker's by abstract evaluation of visit_node over 16 combinators x 3 states of the choice "
                          "bit (forks on any other condition), the pruning decision and the case→assertion rewrite by path enumeration with "
                          "constant propagation; same-method delegation of forwarding trackers; dominator/provenance rules for the pruning "
                          "pipeline; premises from C09 and C12 re-evaluated.",
              assumptions=["the Bit Machine executes the program as the semantics prescribe (C05)",
                           "type re-inference of the pruned program yields its principal types (C04; not decided)"])


path_conditions = flow.path_conditions


def run(ctx, rep):
    F = ctx.facts("full")
    rep.rule("C08.cmr", "conversion copies the commitment root")
    rep.rule("C08.tracker", "the branch tracker records the taken side of each case/assertion under the node's IHR, from the node's input")
    rep.rule("C08.decision", "prune decision table and case→assertion rewrite")
    rep.rule("C08.order", "execute with the tracker, then prune with it, then re-finalise with type-directed witness pruning")

    # ---------------- premises ----------------
    from core import Report
    import c09
    import c12
    sub = Report("C09", rep.tier)
    c09.run(ctx, sub)
    v9 = [v for v in sub.viols if v["rule"] == "C09.copy"]
    if v9:
        for v in v9:
            rep.violation("C08.cmr", v["key"], v["msg"], v["where"])
    else:
        rep.ok("C08.cmr", "Node::convert copies the CMR", [o[2] for o in sub.oks if o[0] == "C09.copy"])

    # ---------------- SetTracker ----------------
    st = [f for f in F.fns.values() if f.name == "visit_node" and (f.impl_self or "").endswith("tracker::SetTracker")]
    if len(st) != 1:
        rep.anchor("C08.tracker", "SetTracker::visit_node")
    else:
        f = F.inlined(st[0], ("inner", "next", "insert", "ihr"))
        T = Terms(f)
        ins = [cs for cs in f.calls() if cs.name == "insert" and "HashSet" in cs.callee]
        # which set an insertion updates and on which key: flow-insensitive provenance is enough for identity
        side_of = {}
        keyed = {}
        for cs in ins:
            which = None
            for lf in leaves(T.operand(cs.args[0])):
                if lf[0] == "parampath" and lf[1] == 1:
                    which = lf[3][-1]
            key_t = T.operand(cs.args[1])
            side_of[cs.bb] = which
            keyed[which] = any(c[2] == "ihr" for c in calls_in(key_t)) and vcc.param_roots(key_t, fm) == {2}
        # decision table by abstract evaluation over (combinator of the node) x (first bit of the input frame): independent of
        # how the function spells the decision (match on a tuple, if-let chains, matches! into booleans, early exits)
        import absint
        inner_adt = F.adts.get(vcc.INNER)
        variants = [v["name"] for v in inner_adt["variants"]] if inner_adt else []
        if len(variants) != 16:
            rep.anchor("C08.tracker", "node::Inner has 16 variants")

        def run_case(variant, bit):
            def call_value(t, env, run):
                nm = t["f"].get("name")
                if nm == "inner":
                    return ("ref", ("enum", vcc.INNER, variant, None))
                if nm == "next":
                    return ("enum", "Option", "None", None) if bit is None else ("enum", "Option", "Some", ("bool", bit))
                if nm in ("deref", "as_ref", "borrow", "clone") and t["args"]:
                    return run.operand(env, t["args"][0])
                return None

            def effect(t, env, run):
                if t["f"].get("name") == "insert":
                    for bb in range(len(f.blocks)):
                        if f.blocks[bb]["t"] is t:
                            return ("insert", side_of.get(bb))
                return None
            return absint.evaluate(f, {}, call_value, effect)

        want = {"left": {("AssertL", False), ("Case", False)}, "right": {("AssertR", True), ("Case", True)}}
        bad = []
        extra = []
        for v in variants:
            for bit in (None, False, True):
                paths = run_case(v, bit)
                for effects, normal in paths:
                    got = sorted(e[1] for e in effects if e[0] == "insert")
                    forks = [e for e in effects if e[0] in ("?branch", "?")]
                    exp = sorted(sd for sd, ws in want.items() if (v, bit) in ws)
                    if got != exp:
                        if v in ("Case", "AssertL", "AssertR") or exp:
                            bad.append((v, bit, got, exp, bool(forks)))
                        elif got:
                            extra.append((v, bit, got))
        for sd in ("left", "right"):
            mine = [x for x in bad if sd in x[2] or sd in x[3]]
            if sd not in side_of.values():
                rep.violation("C08.tracker", "SetTracker:" + sd, "no insertion into the %s set" % sd, f.where())
            elif mine:
                v, bit, got, exp, forked = mine[0]
                rep.violation("C08.tracker", "SetTracker:" + sd, "for (%s, first input bit %s) the tracker records %s, expected %s%s"
                              % (v, bit, got or "nothing", exp or "nothing", " on a path that depends on something other than the combinator and the bit" if forked else ""), f.where())
            elif not keyed.get(sd):
                rep.violation("C08.tracker", "SetTracker:%s:key" % sd, "the %s set is not keyed on the visited node's IHR" % sd, f.where())
            else:
                rep.ok("C08.tracker", "SetTracker " + sd, sorted(want[sd]))
        other = [x for x in bad if not (set(x[2]) | set(x[3])) & {"left", "right"}]
        if other:
            rep.violation("C08.tracker", "SetTracker:table", "unexpected record for %s" % (other[0],), f.where())
        if extra:
            rep.note("SetTracker also records non-case nodes %s (harmless: only case nodes are queried)" % extra[:2])
        rep.count("tracker_cases_evaluated", len(variants) * 3)
        # the bit is the first bit of the input iterator
        nx = [cs for cs in f.calls() if cs.name == "next"]
        if len(nx) == 1 and vcc.param_roots(T.operand(nx[0].args[0]), fm) == {3}:
            rep.ok("C08.tracker", "choice bit = first bit of the input frame", None)
        else:
            rep.violation("C08.tracker", "SetTracker:bit", "the choice bit is not read with input.next()", f.where())
    for nm in ("contains_left", "contains_right"):
        g = [f for f in F.fns.values() if f.name == nm and (f.impl_self or "").endswith("tracker::SetTracker")]
        if len(g) != 1:
            rep.anchor("C08.tracker", "SetTracker::" + nm)
            continue
        T = Terms(g[0])
        t = T.local(0)
        side = "left" if nm.endswith("left") else "right"
        flds = {lf[3][-1] for lf in leaves(t) if lf[0] == "parampath" and lf[1] == 1}
        if t[0] == "call" and t[2] == "contains" and flds == {side}:
            rep.ok("C08.tracker", "SetTracker::" + nm, "reads the %s set" % side)
        else:
            rep.violation("C08.tracker", "SetTracker::" + nm, "%s returns %s" % (nm, show(t)), g[0].where())
    # the interpreter hands trackers the frame captured before the node ran
    try:
        tm = tmpl.extract(F)
        ex = tm["fn"]
        Te = Terms(ex, opaque={tm["ip"]: "ip"})
        vn = [cs for cs in ex.calls() if cs.name == "visit_node"]
        if len(vn) != 1:
            rep.violation("C08.tracker", "exec:visit", "expected one tracker.visit_node call in the interpreter, found %d" % len(vn), ex.where())
        else:
            cs = vn[0]
            a_node, a_in = Te.operand(cs.args[1]), Te.operand(cs.args[2])
            names = [c[2] for c in calls_in(a_in)]
            main_sw = [b for b in ex.rpo() if (switch_info(ex, b) or (0, ""))[1].endswith("node::inner::Inner") and len(switch_info(ex, b)[2]) >= 14]
            cap = None
            for b in ex.rpo():
                for c2 in ex.calls({b}):
                    if c2.name == "last" and "read" in repr(Te.operand(c2.args[0])):
                        cap = b
            okk = ("shallow_copy" in repr(a_in) and "'read'" in repr(a_in)
                   and main_sw and cap is not None and ex.dominates(cap, main_sw[0]) and ex.dominates(main_sw[0], cs.bb))
            if okk and show(a_node) == "ip":
                rep.ok("C08.tracker", "interpreter → tracker", "visit_node(ip, bits of the read frame copied before the node ran, output)")
            else:
                rep.violation("C08.tracker", "exec:input", "the tracker is not given the node's input frame as captured before the node's action: %s" % show(a_in)[:120], cs.where())
    except tmpl.TemplateError as e:
        rep.anchor("C08.tracker", "interpreter: %s" % e)
    # forwarding trackers pass their input on unconsumed
    n_fwd = 0
    for f in F.fns.values():
        if f.name != "visit_node" or f.impl_trait != "simplicity::bit_machine::tracker::ExecTracker":
            continue
        fw = [cs for cs in f.calls() if cs.name == "visit_node" and cs.callee != f.path]
        for cs in fw:
            n_fwd += 1
            T = Terms(f, transparent={k: v for k, v in fm.TRANSPARENT_CALLS.items() if k not in ("clone",)})
            a = cs.args[2]
            who = fm.short(f.impl_self or f.path)
            t = T.operand(a)
            if not (t[0] == "param" and t[1] == 3):
                rep.violation("C08.tracker", "forward:%s:arg" % who, "the inner tracker is given %s instead of this tracker's own input" % show(t), cs.where())
                continue
            # no mutable use of the input parameter before the forward
            bad = None
            for b in f.rpo():
                if not (cs.bb in f.reachable(b)) or b == cs.bb:
                    continue
                for s in f.blocks[b]["s"]:
                    if s[0] == "=" and s[2].get("k") == "ref" and s[2].get("mut") and s[2]["p"][0] == 3:
                        bad = s[3]
            if bad:
                rep.violation("C08.tracker", "forward:%s:consumed" % who, "the input iterator is mutably borrowed (advanced) at line %s before it is forwarded "
                              "to the inner tracker, which then reads the choice bit from whatever follows the node's input" % bad, cs.where())
            else:
                rep.ok("C08.tracker", "forward:" + who, "input forwarded unconsumed")
    rep.count("forwarding_trackers", n_fwd)
    # a tracker that answers a query by asking another tracker asks the same question
    TR = ("simplicity::bit_machine::tracker::PruneTracker", "simplicity::bit_machine::tracker::ExecTracker")
    for f in sorted(F.fns.values(), key=lambda x: x.path):
        if f.impl_trait not in TR or f.name not in ("contains_left", "contains_right", "visit_node"):
            continue
        for cs in f.calls():
            if cs.name in ("contains_left", "contains_right", "visit_node") and (cs.trait in TR or (cs.decl or "").startswith(TR)) and cs.callee != f.path:
                who = fm.short(f.impl_self or f.path)
                if cs.name == f.name:
                    rep.ok("C08.tracker", "delegate:%s::%s" % (who, f.name), None)
                else:
                    rep.violation("C08.tracker", "delegate:%s::%s" % (who, f.name), "%s::%s answers by calling %s of the inner tracker: the pruner would be told the "
                                  "wrong side" % (who, f.name, cs.name), cs.where())

    # ---------------- prune decision ----------------
    pc = roles.methods(F, "prune_with_tracker::Pruner", "prune_case")
    if len(pc) != 1:
        rep.anchor("C08.decision", "Pruner::prune_case")
    else:
        f = pc[0]
        T = Terms(f)
        cl = [cs for cs in f.calls() if cs.name == "contains_left"]
        cr = [cs for cs in f.calls() if cs.name == "contains_right"]
        if len(cl) != 1 or len(cr) != 1:
            rep.violation("C08.decision", "prune_case:queries", "expected one contains_left and one contains_right", f.where())
        else:
            for cs in cl + cr:
                t = T.operand(cs.args[1])
                if not (any(c[2] == "ihr" for c in calls_in(t)) and vcc.param_roots(t, fm) == {2} and "'node'" in repr(t)):
                    rep.violation("C08.decision", "prune_case:key:" + cs.name, "%s is queried with %s, expected the IHR of the unpruned node (data.node.ihr())" % (cs.name, show(t)), cs.where())
            table = {}
            blind = set()
            for blocks, conds in path_conditions(f):
                res = None
                for b in blocks:
                    for s in f.blocks[b]["s"]:
                        if s[0] == "=" and s[2].get("k") == "agg" and s[2].get("adt", "").endswith("convert::Hide"):
                            res = s[2]["variant"]
                lv = rv = None
                for c in conds:
                    if c[0] == "int":
                        dt = T.operand(c[1])
                        r = repr(dt)
                        val = c[3] != "0"
                        if "contains_left" in r:
                            lv = val
                        elif "contains_right" in r:
                            rv = val
                if res is not None and lv is not None and rv is not None:
                    table.setdefault((lv, rv), set()).add(res)
                elif res is not None:
                    blind.add(res)
            want = {(True, True): {"Neither"}, (False, True): {"Left"}, (True, False): {"Right"}, (False, False): {"Neither"}}
            if blind:
                rep.violation("C08.decision", "prune_case:blind", "prune_case can return Hide::%s on a path that has not asked the tracker about both sides of "
                              "the case: a case executed on one side only is then kept whole (or hidden) whatever the execution did" % "/".join(sorted(blind)), f.where())
            if table == want:
                rep.ok("C08.decision", "prune_case table", {str(k): sorted(v) for k, v in table.items()})
            else:
                rep.violation("C08.decision", "prune_case:table", "(left seen, right seen) ↦ %s, expected %s" % (
                    {k: sorted(v) for k, v in sorted(table.items())}, {k: sorted(v) for k, v in sorted(want.items())}), f.where())
    cv = F.fn("simplicity::node::Node::<N>::convert")
    if cv is None:
        rep.anchor("C08.decision", "Node::convert")
    else:
        T = Terms(cv)
        sws = enum_switches(cv, "convert::Hide")
        env = None
        if not sws:
            # the decision may be a method of Hide (or another helper) that convert hands the verdict and the two children to:
            # its operands are then read through that call's arguments
            import expr
            for cs_ in cv.calls():
                g_ = F.fns.get(cs_.callee)
                if g_ is not None and g_.path.startswith("simplicity::node::") and enum_switches(g_, "convert::Hide"):
                    env = {i_ + 1: T.operand(a_) for i_, a_ in enumerate(cs_.args)}
                    cv = g_
                    T = Terms(cv)
                    sws = enum_switches(cv, "convert::Hide")
                    break
        if not sws:
            rep.anchor("C08.decision", "switch on Hide in Node::convert")
        else:
            b, si = sws[0]
            want = {"Neither": ("Case", None), "Left": ("AssertR", 0), "Right": ("AssertL", 1)}
            for hv, tgt in si[2].items():
                reg = cv.dominated_by(tgt)
                built = []
                for bb in reg:
                    for s in cv.blocks[bb]["s"]:
                        if s[0] == "=" and s[2].get("k") == "agg" and s[2].get("adt") == vcc.INNER:
                            built.append(s)
                wv, cmr_idx = want.get(hv, (None, None))
                if wv is None:
                    rep.violation("C08.decision", "hide:" + hv, "unknown Hide variant", cv.where())
                    continue
                if len(built) != 1 or built[0][2]["variant"] != wv:
                    rep.violation("C08.decision", "hide:" + hv, "Hide::%s builds %s, expected Inner::%s" % (hv, [x[2]["variant"] for x in built], wv), cv.where())
                    continue
                ops = [T.operand(o) for o in built[0][2]["ops"]]
                if env is not None:
                    ops = [expr.subst(o, env) for o in ops]
                okk = True
                for k, o in enumerate(ops):
                    side = "Case.%d" % k
                    r = repr(o)
                    is_cmr = o[0] == "call" and o[2] == "cmr"
                    if ("'%d'" % k) not in r:
                        okk = False
                    if (cmr_idx == k) != is_cmr:
                        okk = False
                if okk:
                    rep.ok("C08.decision", "Hide::%s → Inner::%s" % (hv, wv), [show(o) for o in ops])
                else:
                    rep.violation("C08.decision", "hide:%s:operands" % hv, "Hide::%s builds Inner::%s(%s): the hidden side must be the CMR of the child it replaces, the kept side the other child"
                                  % (hv, wv, ", ".join(show(o) for o in ops)), cv.where())

    # ---------------- pipeline order ----------------
    pw = F.fn(PRUNE)
    if pw is None:
        rep.anchor("C08.order", "RedeemNode::prune_with_tracker")
    else:
        T = Terms(pw)
        fp = [cs for cs in pw.calls() if cs.name == "for_program"]
        ex = [cs for cs in pw.calls() if cs.name == "exec_with_tracker"]
        wc = [cs for cs in pw.calls() if cs.name == "with_context"]
        if not (fp and ex and wc):
            rep.violation("C08.order", "pipeline:missing", "for_program / exec_with_tracker / with_context not all present", pw.where())
        else:
            okk = True
            if flow.success_bypasses(pw, {ex[0].bb}) is not None or not flow.flows_to_branch(pw, ex[0].dest[0]):
                rep.violation("C08.order", "pipeline:exec", "a success path prunes without a successful execution (or its verdict is dropped)", ex[0].where())
                okk = False
            if not (pw.dominates(fp[0].bb, ex[0].bb) and pw.dominates(ex[0].bb, wc[0].bb) and ex[0].bb != wc[0].bb):
                rep.violation("C08.order", "pipeline:order", "expected for_program → exec_with_tracker → conversion", pw.where())
                okk = False
            a = [vcc.param_roots(T.operand(x), fm) for x in ex[0].args]
            if len(a) < 4 or a[1] != {1} or a[3] != {3} or a[2] != {2}:
                rep.violation("C08.order", "pipeline:args", "exec_with_tracker is not run on (self, env, tracker) of this call: %s" % a, ex[0].where())
                okk = False
            if okk:
                rep.ok("C08.order", "for_program? → exec_with_tracker(self, env, tracker)? → convert", None)
        for c in F.closures_of(pw):
            cvs = [cs for cs in c.calls() if cs.name == "convert"]
            if len(cvs) == 2:
                ga0 = " ".join(cvs[0].f.get("args", []))
                ga1 = " ".join(cvs[1].f.get("args", []))
                rl = roles.converters(F)
                if roles.base(cvs[0].f.get("args", [""])[-1]) == rl.get("prune_with_tracker::Pruner") and \
                        roles.base(cvs[1].f.get("args", [""])[-1]) == rl.get("prune_with_tracker::Finalizer") and c.dominates(cvs[0].bb, cvs[1].bb) \
                        and any(m.name == "prune_case" for m in roles.methods(F, "prune_with_tracker::Pruner", "prune_case")):
                    rep.ok("C08.order", "convert(Pruner with the tracker) → convert(Finalizer)", None)
                    # both conversions walk the program by pointer identity: a tracker that merges nodes with equal roots
                    # (MaxSharing) gives one set of type variables to a live node and to its twin in a never-executed branch,
                    # so the dead branch's constraints leak into the pruned program's types
                    for cv_, ga_, who in ((cvs[0], ga0, "Pruner"), (cvs[1], ga1, "Finalizer")):
                        if "dag::InternalSharing" in ga_ and "MaxSharing" not in ga_:
                            rep.ok("C08.order", "%s conversion shares by pointer identity (InternalSharing)" % who, None)
                        else:
                            rep.violation("C08.order", "pipeline:sharing:" + who, "the %s conversion runs under <%s>, not InternalSharing: nodes that are equal "
                                          "up to their roots but distinct in memory are merged, and a twin in a never-executed branch constrains "
                                          "the types of the executed one" % (who, ga_[:80]), cv_.where())
                    env = fm.closure_env(F, c)
                    Tc = Terms(c)
                    # the Pruner is built from the captured tracker
                    for b in c.rpo():
                        for s in c.blocks[b]["s"]:
                            if s[0] == "=" and s[2].get("k") == "agg" and roles.base(s[2].get("adt", "")) == rl.get("prune_with_tracker::Pruner"):
                                ops = dict(zip(s[2]["fields"], s[2]["ops"]))
                                t = fm.subst_env(Tc.operand(ops["tracker"]), env)
                                if vcc.param_roots(t, fm) == {3}:
                                    rep.ok("C08.order", "Pruner uses the tracker that watched the execution", None)
                                else:
                                    rep.violation("C08.order", "pruner:tracker", "the Pruner's tracker is %s, not the tracker given to exec_with_tracker" % show(t), c.where())
                else:
                    rep.violation("C08.order", "pipeline:converts", "expected convert with Pruner then convert with Finalizer, found <%s> then <%s>" % (ga0[-60:], ga1[-60:]), c.where())
    # both conversions carry the *already converted* disconnected branch over: what convert_disconnect returns derives
    # from its `right` parameter (the converted child), never from the original node (which is unpruned / untyped anew)
    cds = roles.methods(F, "prune_with_tracker::Pruner", "convert_disconnect") + roles.methods(F, "prune_with_tracker::Finalizer", "convert_disconnect")
    if len(cds) < 2:
        rep.anchor("C08.order", "convert_disconnect of prune_with_tracker's Pruner and Finalizer")
    for f in cds:
        who = "Pruner" if roles.role_of(F, f.impl_self) == "prune_with_tracker::Pruner" else "Finalizer"
        roots = vcc.param_roots(Terms(f).local(0), fm)
        if roots == {3}:
            rep.ok("C08.order", "%s::convert_disconnect passes the converted branch on" % who, None)
        else:
            rep.violation("C08.order", "%s:convert_disconnect" % who, "%s::convert_disconnect builds its result from parameters %s; expected only the already converted "
                          "branch (parameter 3): the disconnected branch would be carried over without being pruned" % (who, sorted(roots)), f.where())
    sub12 = Report("C12", rep.tier)
    c12.run(ctx, sub12)
    v12 = [v for v in sub12.viols if "prune_with_tracker::Finalizer" in v["key"] and v["rule"] == "C12.check"]
    if v12:
        for v in v12:
            rep.violation("C08.order", "witness:" + v["key"][-40:], v["msg"], v["where"])
    else:
        rep.ok("C08.order", "pruned witness = Value::prune(witness, finalised re-inferred target type)", None)
    return FINISH
