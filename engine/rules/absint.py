"""ABSINT: abstract evaluation of a loop-free MIR function over a small finite domain.

Used where a rule is "for every combination of a few discrete inputs, what does the function do" (decision tables):
the inputs are enumerated, each run evaluates booleans, enum discriminants and tuple/variant projections exactly, treats
everything else as unknown, and forks on a branch whose condition is unknown.  The result of a run is the list of
*effects* (calls selected by `effect(callsite)`) along each path.  The verdict therefore does not depend on how the
function spells its decision (match on a tuple, nested if-let, `matches!` into booleans, early returns…).

Abstract values:
  ("bool", b)  ("int", n)  ("enum", adt, variant, payload|None)  ("tuple", [values])  ("ref", value)  None = unknown
"""

MAX_PATHS = 256


class Run:
    def __init__(self, fn, call_value, effect, variants_of):
        self.fn = fn
        self.call_value = call_value      # callsite terminator -> abstract value or None
        self.effect = effect              # callsite terminator, env -> label or None
        self.variants_of = variants_of    # adt path -> {variant name: discr value}
        self.paths = []
        self.mark_blocks = {}

    # -- places -------------------------------------------------------------------------------------
    def read(self, env, place):
        v = env.get(place[0])
        for pr in place[1]:
            if v is None:
                return None
            if pr == "*":
                if v[0] == "ref":
                    v = v[1]
                continue
            if isinstance(pr, str) and pr.startswith("@"):
                # downcast: keep the value, the variant is checked by the field access
                if v[0] == "ref":
                    v = v[1]
                if v is None or v[0] != "enum" or v[2] != pr[1:]:
                    return None
                continue
            if isinstance(pr, str) and pr.startswith("."):
                name = pr[1:]
                if v[0] == "ref":
                    v = v[1]
                if v is None:
                    return None
                if v[0] == "tuple" and name.isdigit() and int(name) < len(v[1]):
                    v = v[1][int(name)]
                elif v[0] == "enum" and name == "0":
                    v = v[3]
                else:
                    return None
                continue
            return None
        return v

    def operand(self, env, o):
        k = o.get("k")
        if k == "const":
            if o.get("ty") == "bool" and "int" in o:
                return ("bool", bool(o["int"]))
            if "int" in o:
                return ("int", o["int"])
            return None
        if k in ("copy", "move"):
            return self.read(env, o["p"])
        return None

    def discr_of(self, v, rv):
        if v is not None and v[0] == "ref":
            v = v[1]
        if v is None or v[0] != "enum":
            return None
        for val, name in rv.get("variants", []):
            if name == v[2]:
                return ("int", int(val))
        return None

    # -- execution ----------------------------------------------------------------------------------
    def go(self, b, env, effects, depth=0):
        fn = self.fn
        steps = 0
        while True:
            steps += 1
            if steps > 500 or len(self.paths) > MAX_PATHS:
                self.paths.append((effects + [("?", "evaluation did not terminate")], False))
                return
            blk = fn.blocks[b]
            if b in self.mark_blocks and (not effects or effects[-1] != self.mark_blocks[b]):
                effects = effects + [self.mark_blocks[b]]
            for s in blk["s"]:
                if s[0] != "=":
                    continue
                dst, rv = s[1], s[2]
                if dst[1]:
                    continue
                d = dst[0]
                k = rv.get("k")
                val = None
                if k == "use":
                    val = self.operand(env, rv["a"])
                elif k == "ref":
                    inner = self.read(env, rv["p"])
                    val = ("ref", inner)
                elif k == "discr":
                    val = self.discr_of(self.read(env, rv["p"]), rv)
                elif k == "un" and rv.get("op") == "Not":
                    a = self.operand(env, rv["a"])
                    val = ("bool", not a[1]) if a and a[0] == "bool" else None
                elif k == "bin":
                    a, c = self.operand(env, rv["a"]), self.operand(env, rv["b"])
                    op = rv.get("op")
                    if a and c and a[0] == c[0] and a[0] in ("bool", "int"):
                        x, y = a[1], c[1]
                        tab = {"Eq": x == y, "Ne": x != y, "BitAnd": (x and y) if a[0] == "bool" else None,
                               "BitOr": (x or y) if a[0] == "bool" else None, "Lt": x < y, "Le": x <= y, "Gt": x > y, "Ge": x >= y}
                        if tab.get(op) is not None:
                            val = ("bool", bool(tab[op]))
                elif k == "agg":
                    if rv.get("agg") == "tuple":
                        val = ("tuple", [self.operand(env, o) for o in rv["ops"]])
                    elif rv.get("agg") == "adt" and rv.get("variant"):
                        ops = [self.operand(env, o) for o in rv["ops"]]
                        val = ("enum", rv.get("adt"), rv["variant"], ops[0] if len(ops) == 1 else None)
                elif k == "cast":
                    val = self.operand(env, rv["a"]) if isinstance(rv.get("a"), dict) else None
                env = dict(env)
                env[d] = val
            t = blk["t"]
            k = t["k"]
            if k == "goto":
                b = t["target"]
            elif k == "return":
                self.paths.append((effects, True))
                return
            elif k == "call":
                lab = self.effect(t, env, self)
                if lab is not None:
                    effects = effects + [lab]
                dest = t.get("dest")
                if dest and not dest[1]:
                    env = dict(env)
                    env[dest[0]] = self.call_value(t, env, self)
                if t.get("target") is None:
                    self.paths.append((effects, False))
                    return
                b = t["target"]
            elif k == "switch":
                v = self.operand(env, t["discr"])
                if v is not None and v[0] in ("bool", "int"):
                    n = int(v[1])
                    nxt = None
                    for val, tg in t["targets"]:
                        if int(val) == n:
                            nxt = tg
                    b = nxt if nxt is not None else t["otherwise"]
                else:
                    # unknown condition: fork
                    seen = set()
                    for val, tg in t["targets"] + [["else", t["otherwise"]]]:
                        if tg in seen:
                            continue
                        seen.add(tg)
                        if depth < 12:
                            self.go(tg, env, effects + [("?branch", b)], depth + 1)
                    return
            elif k in ("drop", "assert"):
                b = t["target"]
            else:
                self.paths.append((effects, False))
                return


def evaluate(fn, init_env, call_value, effect, variants_of=None, mark_blocks=None):
    """-> list of (effects, returned_normally) per explored path; entering a block of `mark_blocks` ({block: effect}) records
    that effect"""
    r = Run(fn, call_value, effect, variants_of or {})
    r.mark_blocks = dict(mark_blocks or {})
    r.go(0, dict(init_env), [])
    return r.paths
