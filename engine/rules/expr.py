"""EXPR: integer expression reconstruction on top of facts.Terms.

A term over +, -, max, constants and opaque atoms is normalised to a *max-plus polynomial*: a set of
(constant, sorted tuple of atom strings), meaning max over the set of (constant + sum of atoms).
Atoms are canonical renderings of non-arithmetic sub-terms (access paths, calls such as bit_width(..)).
Algebraic rewrites (max(a+w, b+w) vs w+max(a,b)) normalise to the same polynomial.  All quantities are
unsigned, so a term with a superset of atoms and a constant >= dominates.

Also: inlining of small workspace functions into a term (bounded depth), so that a rule can be stated
over the caller's operands irrespective of how parameters are ordered.
"""
from facts import Terms, project1

ARITH_ADD = {"Add", "AddWithOverflow", "AddUnchecked"}
ARITH_SUB = {"Sub", "SubWithOverflow", "SubUnchecked"}


def canon(t, rename=None):
    """Canonical string of a non-arithmetic term.  `rename`: function str->str applied at the end."""
    s = _canon(t)
    if rename:
        s = rename(s)
    return s


def _canon(t):
    if not isinstance(t, tuple) or not t:
        return str(t)
    k = t[0]
    if k == "param":
        return t[2] or ("arg%d" % t[1])
    if k == "int":
        return str(t[1])
    if k == "field":
        return "%s.%s" % (_canon(t[1]), t[2])
    if k == "as":
        return "%s@%s" % (_canon(t[1]), t[2])
    if k == "index":
        return "%s%s" % (_canon(t[1]), t[2])
    if k == "call":
        return "%s(%s)" % (t[2], ",".join(_canon(a) for a in t[3]))
    if k == "constitem":
        return t[1].rsplit("::", 1)[-1]
    if k == "bin":
        return "(%s %s %s)" % (_canon(t[2]), t[1], _canon(t[3]))
    if k == "un":
        return "%s(%s)" % (t[1], _canon(t[2]))
    if k == "phi":
        return "phi(%s)" % "|".join(sorted(_canon(a) for a in t[1]))
    if k == "tuple":
        return "(%s)" % ",".join(_canon(a) for a in t[1])
    if k == "adt":
        return "%s::%s{%s}" % (t[1].rsplit("::", 1)[-1], t[2], ",".join(_canon(a) for a in t[4]))
    if k == "str":
        return repr(t[1])
    return k


class MP:
    """max-plus polynomial: frozenset of (const, atoms tuple)."""

    def __init__(self, terms):
        self.terms = frozenset(terms)

    @staticmethod
    def const(c):
        return MP([(c, ())])

    @staticmethod
    def atom(a):
        return MP([(0, (a,))])

    def add(self, o):
        return MP([(c1 + c2, tuple(sorted(a1 + a2))) for (c1, a1) in self.terms for (c2, a2) in o.terms])

    def max(self, o):
        return MP(self.terms | o.terms)

    def dominates(self, o):
        """self >= o for all non-negative atom values (sufficient syntactic test)."""
        for (c2, a2) in o.terms:
            ok = False
            for (c1, a1) in self.terms:
                if c1 >= c2 and _multiset_contains(a1, a2):
                    ok = True
                    break
            if not ok:
                return False
        return True

    def __eq__(self, o):
        return isinstance(o, MP) and self.terms == o.terms

    def __hash__(self):
        return hash(self.terms)

    def show(self):
        parts = []
        for (c, a) in sorted(self.terms):
            xs = list(a)
            if c or not xs:
                xs = [str(c)] + xs
            parts.append(" + ".join(xs))
        return parts[0] if len(parts) == 1 else "max(" + ", ".join(parts) + ")"


def _multiset_contains(big, small):
    b = list(big)
    for x in small:
        if x in b:
            b.remove(x)
        else:
            return False
    return True


def norm(t, rename=None):
    """Term -> MP.  Subtractions and other operators become opaque atoms."""
    if not isinstance(t, tuple) or not t:
        return MP.atom(str(t))
    k = t[0]
    if k == "int":
        return MP.const(int(t[1]))
    if k == "field" and t[2] == "0" and t[1][0] == "bin" and t[1][1].endswith("WithOverflow"):
        return norm(("bin", t[1][1], t[1][2], t[1][3]), rename)
    if k == "bin":
        op = t[1]
        if op in ARITH_ADD:
            return norm(t[2], rename).add(norm(t[3], rename))
        if op in ARITH_SUB:
            a, b = norm(t[2], rename), norm(t[3], rename)
            return MP.atom("(%s - %s)" % (a.show(), b.show()))
        return MP.atom(canon(t, rename))
    if k == "call":
        name = t[2]
        if name == "max" and len(t[3]) == 2:
            return norm(t[3][0], rename).max(norm(t[3][1], rename))
        if name in ("saturating_add", "wrapping_add", "add") and len(t[3]) == 2:
            return norm(t[3][0], rename).add(norm(t[3][1], rename))
        if name == "div_ceil" and len(t[3]) == 2:
            return MP.atom("div_ceil(%s, %s)" % (norm(t[3][0], rename).show(), norm(t[3][1], rename).show()))
        if name in ("saturating_sub", "sub") and len(t[3]) == 2:
            return MP.atom("(%s - %s)" % (norm(t[3][0], rename).show(), norm(t[3][1], rename).show()))
        return MP.atom(canon(t, rename))
    if k == "constitem" and len(t) > 2 and t[2]:
        # integer constant item (little-endian bytes up to 16)
        b = bytes.fromhex(t[2])
        if len(b) <= 16:
            return MP.const(int.from_bytes(b, "little"))
    if k == "phi":
        # alternatives: the value is one of them; upper bound = max
        out = None
        for a in t[1]:
            n = norm(a, rename)
            out = n if out is None else out.max(n)
        return out
    return MP.atom(canon(t, rename))


# ----------------------------------------------------------------------------------------
# inlining
# ----------------------------------------------------------------------------------------

def subst(t, env):
    """Replace ('param', i, _) leaves by env[i]."""
    if not isinstance(t, tuple) or not t:
        return t
    if t[0] == "param":
        return env.get(t[1], t)
    if t[0] == "field":
        return project1(subst(t[1], env), "." + t[2])
    if t[0] == "as":
        return project1(subst(t[1], env), "@" + t[2])
    out = []
    for x in t:
        if isinstance(x, tuple):
            if x and isinstance(x[0], tuple):
                out.append(tuple(subst(y, env) for y in x))
            else:
                out.append(subst(x, env))
        else:
            out.append(x)
    return tuple(out)


def inline(F, t, pred, depth=4, _cache=None):
    """Inline calls to workspace functions/consts whose path satisfies `pred` into term t."""
    if _cache is None:
        _cache = {}
    if not isinstance(t, tuple) or not t or depth < 0:
        return t
    if t[0] == "call" and pred(t[1]) and t[1] in F.fns:
        fn = F.fns[t[1]]
        if t[1] not in _cache:
            _cache[t[1]] = Terms(fn).local(0)
        body = _cache[t[1]]
        args = [inline(F, a, pred, depth, _cache) for a in t[3]]
        env = {i + 1: a for i, a in enumerate(args)}
        return inline(F, subst(body, env), pred, depth - 1, _cache)
    if t[0] == "constitem" and pred(t[1]) and t[1] in F.fns:
        if t[1] not in _cache:
            _cache[t[1]] = Terms(F.fns[t[1]]).local(0)
        return inline(F, _cache[t[1]], pred, depth - 1, _cache)
    if t[0] == "field":
        return project1(inline(F, t[1], pred, depth, _cache), "." + t[2])
    if t[0] == "as":
        return project1(inline(F, t[1], pred, depth, _cache), "@" + t[2])
    if t[0] == "index" and len(t) == 3 and isinstance(t[2], str):
        return project1(inline(F, t[1], pred, depth, _cache), t[2])
    out = []
    for x in t:
        if isinstance(x, tuple):
            if x and isinstance(x[0], tuple):
                out.append(tuple(inline(F, y, pred, depth, _cache) for y in x))
            else:
                out.append(inline(F, x, pred, depth, _cache))
        else:
            out.append(x)
    return tuple(out)
