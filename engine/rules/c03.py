"""C03 — validity, Merkle roots and cost agree with libsimplicity: sibling-implementation clauses.

Agreement of two implementations on every program is a relation between runtime values and is not decided.  What is
decided is that the Rust implementation and the vendored C reference are the *same recipe*, combinator by combinator —
each row is read from the Rust MIR and from clang's AST of the C function on every run and compared after both are
brought to one normal form (typing rules of the language supply the equalities between type positions):

  C03.tags    the bit code and payload (child indices, hash, jet, word) of every combinator in the Rust encoder/decoder
              equal the code/subcode on which C's decodeNode assigns the corresponding tag; the fail code is the C
              error SIMPLICITY_ERR_FAIL_CODE (the designed exception); no Rust combinator uses C's reserved code
  C03.iv      the tag IVs of the CMR / AMR / IMR / TMR algebras (and the identity, hidden and jet IVs) are byte-equal
              to precomputed.h, through C's own selector functions cmrIV / amrIV / imrIV / tmrIV
  C03.recipe  per algebra and combinator, the sequence of SHA-256 compressions — which IV, which 32-byte halves
              (zero block, child root, type root of which type position, compact witness hash) in which order —
              is the sequence C's computeCommitmentMerkleRoot / computeIdentityHashRoots /
              computeAnnotatedMerkleRoot / computeTypeAnalyses execute for that tag
  C03.vcc     wherever the library matches on a node's combinator and calls a root/bounds algebra (Cmr, Imr, Amr,
              NodeBounds), the function called in the arm for V is the one named after V (with the documented folds
              AssertL/AssertR -> Cmr::case / Imr::case): commit-time IMR/AMR, from_parts, redeem data, …
  C03.cost    per combinator, the cost NodeBounds assigns (with the arguments RedeemData::new passes) equals the
              cost formula of C's analyseBounds as max-plus polynomials over child costs and type widths
  C03.width   bit width of unit / sum / product types: Final::{unit,sum,product} = computeTypeAnalyses
Not decided: the SHA-256 padding arithmetic of compact_value / sha256_bitstring, the word-CMR loop, type inference
(C04), the decoders' canonicity checks (C02), and the jets' tables (C14).
"""
import re
import facts as fm
import expr
from expr import MP
from facts import Terms, enum_switches
import c04
import cbody
import cside

FINISH = dict(level="other",
              explanation="Sibling-implementation comparison: per-combinator tag codes, IVs, hash recipes, cost and width "
                          "formulas extracted from Rust MIR (provenance terms, inlined through the algebra constructors) and "
                          "from clang's AST of the C reference (per-tag straight-line execution of the switch bodies), both "
                          "normalised over the typing rules of the language.",
              assumptions=["typing rules of the language (table shared with C04.rules) relate the type positions the two sides name differently",
                           "bounded_add/bounded_max are saturating add/max on 32 bits (bounded.h), as is Cost + Cost (checked: saturating_add)",
                           "an assertion's pruned child is a hidden node whose cost is 0 and whose AMR/IMR is its CMR (dag.c HIDDEN rows)",
                           "zz_update_2x32(s,l,r) / update_64(s, concat(l,r)) feed l then r to the engine; word.len() is the width of a word node's target"],
              trusted=["rustc nightly MIR (simp-facts driver)", "clang 14 AST (cbody.py)", "rule tables in engine/rules/c03.py and c04.SPEC"])

VARIANT_TAG = {
    "Iden": "IDEN", "Unit": "UNIT", "InjL": "INJL", "InjR": "INJR", "Take": "TAKE", "Drop": "DROP", "Comp": "COMP",
    "Case": "CASE", "AssertL": "ASSERTL", "AssertR": "ASSERTR", "Pair": "PAIR", "Disconnect": "DISCONNECT",
    "Witness": "WITNESS", "Jet": "JET", "Word": "WORD",
}
SPEC_OF = {"Iden": "iden", "Unit": "unit", "InjL": "injl", "InjR": "injr", "Take": "take", "Drop": "drop_", "Comp": "comp",
           "Pair": "pair", "Witness": "witness", "Case": "for_case", "AssertL": "for_case", "AssertR": "for_case",
           "Disconnect": "for_disconnect", "Word": "const_word", "Jet": "jet", "Fail": "fail"}
DAG_C = "depend/simplicity/dag.c"


# ---------------------------------------------------------------------------------------------------------------------
# typing rules -> canonical type term for each position
# ---------------------------------------------------------------------------------------------------------------------

def parse_ty(s):
    s = s.strip()
    m = re.fullmatch(r"(\w+)\((.*)\)", s)
    if m:
        name, inner = m.group(1), m.group(2)
        parts, depth, cur = [], 0, ""
        for ch in inner:
            if ch == "," and depth == 0:
                parts.append(cur)
                cur = ""
            else:
                depth += ch == "("
                depth -= ch == ")"
                cur += ch
        parts.append(cur)
        if name in ("prod", "sum"):
            return (name, parse_ty(parts[0]), parse_ty(parts[1]))
        if name == "word":
            return ("word", parts[0].strip())
        return ("atom", s)
    if s == "unit":
        return ("unit",)
    if re.fullmatch(r"[lrc]\.[st]", s):
        child = {"l": "c0", "r": "c1", "c": "c0"}[s[0]]
        return ("v", "%s.%s" % (child, "source" if s[2] == "s" else "target"))
    if s in ("jet.s", "jet.t"):
        return ("atom", s)
    return ("v", s)


class Typing:
    def __init__(self, variant):
        self.variant = variant
        self.sub = {}
        src, tgt, cons = c04.SPEC[SPEC_OF[variant]]
        self.eq(("v", "self.source"), parse_ty(src))
        self.eq(("v", "self.target"), parse_ty(tgt))
        for c in cons:
            m = re.fullmatch(r"(unify|bindprod)\((.*)\)", c)
            args = split_top(m.group(2))
            if variant == "AssertL" and any(a.strip().startswith("r.") for a in args):
                continue
            if variant == "AssertR" and any(a.strip().startswith("l.") for a in args):
                continue
            if m.group(1) == "unify":
                self.eq(parse_ty(args[0]), parse_ty(args[1]))
            else:
                self.eq(parse_ty(args[0]), ("prod", parse_ty(args[1]), parse_ty(args[2])))
        # canonical variable names by first appearance
        self.names = {}
        for pos in ("self.source", "self.target", "c0.source", "c0.target", "c1.source", "c1.target"):
            self._name(self.resolve(("v", pos)))

    def walk(self, t):
        while t[0] == "v" and t[1] in self.sub:
            t = self.sub[t[1]]
        return t

    def eq(self, a, b):
        a, b = self.walk(a), self.walk(b)
        if a == b:
            return
        if a[0] == "v":
            # prefer binding position variables to rule variables
            if b[0] == "v" and "." in b[1] and "." not in a[1]:
                self.sub[b[1]] = a
            else:
                self.sub[a[1]] = b
        elif b[0] == "v":
            self.sub[b[1]] = a
        elif a[0] == b[0] and a[0] in ("prod", "sum"):
            self.eq(a[1], b[1])
            self.eq(a[2], b[2])
        else:
            raise ValueError("typing rule of %s is inconsistent: %s vs %s" % (self.variant, a, b))

    def resolve(self, t):
        t = self.walk(t)
        if t[0] in ("prod", "sum"):
            return (t[0], self.resolve(t[1]), self.resolve(t[2]))
        return t

    def _name(self, t):
        if t[0] == "v":
            self.names.setdefault(t[1], "T%d" % len(self.names))
        elif t[0] in ("prod", "sum"):
            self._name(t[1])
            self._name(t[2])

    def pos(self, p):
        return self.resolve(("v", p))

    def show(self, t):
        t = self.resolve(t)
        if t[0] == "v":
            return self.names.get(t[1], t[1])
        if t[0] in ("prod", "sum"):
            return "%s(%s,%s)" % (t[0], self.show(t[1]), self.show(t[2]))
        if t[0] == "unit":
            return "1"
        if t[0] == "word":
            return "2^2^%s" % t[1]
        if t[0] == "proj":
            return "arg%d(%s)" % (t[1], self.show(t[2]))
        return t[1] if len(t) > 1 else t[0]

    def arg(self, t, k, ctor=None):
        t = self.resolve(t)
        if t[0] in ("prod", "sum") and (ctor is None or t[0] == ctor):
            return t[1 + k]
        return ("proj", k, t)

    def width(self, t):
        """MP polynomial of the bit width of type term t (products are sums of widths)"""
        t = self.resolve(t)
        if t[0] == "prod":
            return self.width(t[1]).add(self.width(t[2]))
        if t[0] == "unit":
            return MP.const(0)
        if t[0] == "word" and str(t[1]).isdigit():
            return MP.const(2 ** int(t[1]))
        return MP.atom("W(%s)" % self.show(t))


def split_top(s):
    parts, depth, cur = [], 0, ""
    for ch in s:
        if ch == "," and depth == 0:
            parts.append(cur)
            cur = ""
        else:
            depth += ch == "("
            depth -= ch == ")"
            cur += ch
    parts.append(cur)
    return parts


# ---------------------------------------------------------------------------------------------------------------------
# Rust side
# ---------------------------------------------------------------------------------------------------------------------

def child_of(t):
    """('field', ('field', ('as', ('param', _, 'inner'), V), k), f) -> (k, f); also for deeper paths"""
    path = []
    while isinstance(t, tuple) and t and t[0] in ("field", "as", "un", "deref"):
        if t[0] == "field":
            path.append(t[2])
            t = t[1]
        elif t[0] == "as":
            path.append("@" + t[2])
            t = t[1]
        else:
            t = t[-1]
    if isinstance(t, tuple) and t and t[0] == "param":
        return t[2] or str(t[1]), list(reversed(path))
    return None, None


def rust_type(t, ty):
    """Rust term denoting a Final type -> typing term, or None"""
    if not isinstance(t, tuple) or not t:
        return None
    if t[0] == "field" and t[2] in ("0", "1") and isinstance(t[1], tuple) and t[1][0] == "call" and t[1][2] in ("as_sum", "as_product"):
        inner = rust_type(t[1][3][0], ty)
        if inner is None:
            return None
        return ty.arg(inner, int(t[2]), "sum" if t[1][2] == "as_sum" else "prod")
    base, path = child_of(t)
    if base is None or not path:
        return None
    if path[-1] not in ("source", "target"):
        return None
    if base in ("arrow", "ty") and len(path) == 1:
        return ty.pos("self." + path[-1])
    if len(path) >= 3 and path[0].startswith("@") and path[1] in ("0", "1") and path[-2] == "arrow":
        return ty.pos("c%s.%s" % (path[1], path[-1]))
    return None


def rust_half(t, ty, alg, role):
    """32-byte input of a compression -> canonical name"""
    if not isinstance(t, tuple):
        return "?" + str(t)
    if t[0] == "repeat" or (t[0] == "call" and t[2] == "repeat"):
        return "zero"
    if t[0] == "call" and t[2] == "tmr" and len(t[3]) == 1:
        tt = rust_type(t[3][0], ty)
        return "tmr(%s)" % ty.show(tt) if tt is not None else "?tmr(%s)" % expr.canon(t[3][0])
    if t[0] == "call" and t[2] == "compact_value":
        return "compact(value)"
    if t[0] == "call" and t[2] in ("into", "from") and len(t[3]) == 1:
        return rust_half(t[3][0], ty, alg, role)
    if t[0] == "call" and t[2] == "unit" and "tmr" in t[1]:
        return "tmr(1)"
    base, path = child_of(t)
    if base is not None:
        if role is not None and base in role and not path:
            return "%s(%s)" % (alg, role[base])
        if path and path[0].startswith("@") and len(path) >= 2 and path[1] in ("0", "1"):
            if len(path) == 2:
                return "%s(c%s)" % (alg, path[1])            # hidden CMR standing for the pruned child's root
            if path[-1] in ("amr", "imr", "cmr"):
                return "%s(c%s)" % (path[-1], path[1])
    return "?" + expr.canon(t)[:80]


def rust_recipe(t, ty, alg, role=None):
    """term -> (iv item path or marker, [(half0, half1), ...]); peels from_byte_array/to_parts/into wrappers"""
    steps = []
    while isinstance(t, tuple) and t:
        if t[0] == "call" and t[2] in ("from_byte_array", "into_merkle_root", "to_parts", "into", "from", "to_byte_array") and t[3]:
            t = t[3][0]
        elif t[0] == "field" and t[2] == "0":
            t = t[1]
        elif t[0] == "adt" and len(t) > 4 and len(t[4]) == 1:
            t = t[4][0]          # newtype wrapper (Cmr/Amr/Imr/Tmr around the 32 bytes)
        elif t[0] == "call" and t[2] == "zz_update_2x32" and len(t[3]) == 3:
            steps.append((rust_half(t[3][1], ty, alg, role), rust_half(t[3][2], ty, alg, role)))
            t = t[3][0]
        elif t[0] == "call" and t[2] in ("update_64", "zz_update_64") and len(t[3]) == 2:
            a = t[3][1]
            while isinstance(a, tuple) and a and a[0] in ("ref", "un", "deref"):
                a = a[-1]
            if isinstance(a, tuple) and a[0] == "call" and a[2] == "concat" and len(a[3]) == 2:
                steps.append((rust_half(a[3][0], ty, alg, role), rust_half(a[3][1], ty, alg, role)))
            else:
                steps.append(("block64:" + expr.canon(a)[:60], ""))
            t = t[3][0]
        else:
            break
    steps.reverse()
    if isinstance(t, tuple) and t and t[0] == "constitem":
        return (t[1], (t[2] or "")[:64]), steps
    if isinstance(t, tuple) and t and t[0] == "call" and t[2] == "bip340_iv":
        tag = t[3][0] if t[3] else None
        return ("tag", tag), steps
    return ("?", expr.canon(t)[:120]), steps


ALG_INLINE_LEAVES = ("update_0_then_32", "update_weight_then_32", "into_merkle_root")


def alg_pred(prefixes):
    def pred(p):
        if p.endswith("_IV") or "::BITS" in p or "TWO_TWO_N" in p:
            return False
        if any(p.startswith(x) for x in prefixes):
            return True
        if p.rsplit("::", 1)[-1] in ALG_INLINE_LEAVES:
            return True
        # shorthand methods of another (private) extension trait in midstate.rs, written in terms of the MidstateExt ones
        return p.startswith("simplicity::merkle::midstate::") and "::MidstateExt::" not in p and "ByteArrayExt" not in p \
            and "<impl " not in p
    return pred


# ---------------------------------------------------------------------------------------------------------------------
# C side: symbolic execution of a tag's statements
# ---------------------------------------------------------------------------------------------------------------------

class CSide:
    def __init__(self, C):
        self.C = C
        self.enumval = {}
        for vals in C["enums"].values():
            for n, v in vals:
                self.enumval.setdefault(n, v)
        self.fn_cache = {}

    def fn(self, tu, name):
        if (tu, name) not in self.fn_cache:
            self.fn_cache[(tu, name)] = cbody.func(tu, name)
        return self.fn_cache[(tu, name)]

    # -- expressions -------------------------------------------------------------------------------
    def strip(self, e):
        """drop anonymous-member accesses and address-of / deref of arrays"""
        if not isinstance(e, tuple):
            return e
        if e[0] == "member" and not e[2]:
            return self.strip(e[1])
        if e[0] == "un" and e[1] in ("&", "*"):
            return self.strip(e[2])
        return tuple(self.strip(x) if isinstance(x, tuple) else x for x in e)

    def tag_cond(self, e, tag):
        """truth of a condition on dag[i].tag / tag / kind for the given tag; None if unknown"""
        e = self.strip(e)
        if e[0] == "bin" and e[1] in ("==", "!="):
            a, b = e[2], e[3]
            if b[0] == "enum":
                a, b = b, a
            if a[0] == "enum" and self.is_tag(b):
                r = a[1] == tag
                return r if e[1] == "==" else not r
        if e[0] == "bin" and e[1] in ("||", "&&"):
            x, y = self.tag_cond(e[2], tag), self.tag_cond(e[3], tag)
            if x is None or y is None:
                return None
            return (x or y) if e[1] == "||" else (x and y)
        return None

    def is_tag(self, e):
        e = self.strip(e)
        return (e[0] == "var" and e[1] in ("tag", "kind")) or (e[0] == "member" and e[2] in ("tag", "kind"))

    def select(self, e, tag):
        """resolve conditional operators on the tag"""
        e = self.strip(e)
        while e[0] == "cond":
            c = self.tag_cond(e[1], tag)
            if c is None:
                return e
            e = self.strip(e[2] if c else e[3])
        return e

    def node(self, e):
        """dag[...] expression -> 'self' / 'c0' / 'c1'"""
        e = self.strip(e)
        if e[0] == "index" and e[1] == ("var", "dag"):
            ix = self.child_index(e[2])
            return ix
        return None

    def child_index(self, ix):
        ix = self.strip(ix)
        if ix == ("var", "i"):
            return "self"
        if ix[0] == "index" and ix[1][0] == "member" and ix[1][2] == "child" and self.node(ix[1][1]) == "self" and ix[2][0] == "int":
            return "c%d" % ix[2][1]
        return None

    def tyidx(self, e, ty, depth=0):
        """type index expression -> typing term"""
        e = self.strip(e)
        if e[0] == "member" and e[2] in ("sourceType", "targetType"):
            n = self.node(e[1])
            if n:
                return ty.pos("%s.%s" % (n, "source" if e[2] == "sourceType" else "target"))
        if e[0] == "index" and e[1][0] == "member" and e[1][2] == "typeArg" and e[2][0] == "int":
            base = e[1][1]
            if base[0] == "index" and base[1] == ("var", "type_dag"):
                inner = self.tyidx(base[2], ty, depth)
                if inner is not None:
                    return ty.arg(inner, e[2][1])
        if e[0] == "call" and isinstance(e[1], str) and depth < 3 and re.fullmatch(r"[A-Z0-9]+_[A-Z0-9]+", e[1]):
            f = self.fn(DAG_C, e[1])
            rets = cbody.find(f["body"], lambda s: s[0] == "return")
            if len(rets) == 1 and rets[0][1] is not None:
                return self.tyidx(rets[0][1], ty, depth + 1)
        return None

    def half(self, e, ty):
        """source of a 32-byte memcpy -> canonical name"""
        e = self.strip(e)
        if e[0] == "member" and e[2] == "s":
            e = e[1]
        if e[0] == "member" and e[2] == "typeMerkleRoot" and e[1][0] == "index" and e[1][1] == ("var", "type_dag"):
            t = self.tyidx(e[1][2], ty)
            return "tmr(%s)" % ty.show(t) if t is not None else "?tmr(%s)" % cbody.show(e[1][2])
        if e[0] == "member" and e[2] == "cmr":
            n = self.node(e[1])
            if n:
                return "cmr(%s)" % n
        if e[0] == "member" and e[2] == "annotatedMerkleRoot" and e[1][0] == "index":
            n = self.child_index(e[1][2])
            if n:
                return "amr(%s)" % n
        if e[0] == "index" and e[1] == ("var", "ihr"):
            n = self.child_index(e[2])
            if n:
                return "imr(%s)" % n
        return "?" + cbody.show(e)[:80]

    def iv_of(self, e, tag):
        """expression yielding a midstate IV -> C variable name"""
        e = self.select(e, tag)
        if e[0] == "var":
            return e[1]
        if e[0] == "call" and isinstance(e[1], str) and e[1] in ("cmrIV", "amrIV", "imrIV", "tmrIV"):
            tu = DAG_C if e[1] != "tmrIV" else "depend/simplicity/type.c"
            f = self.fn(tu, e[1])
            sw = cbody.find(f["body"], lambda s: s[0] == "switch")
            if sw:
                stmts = cbody.run_for_tag(sw[0][2], tag) or []
                for s in stmts:
                    if s[0] == "return" and s[1] is not None:
                        return self.iv_of(s[1], tag)
            for s in cbody.find(f["body"], lambda s: s[0] == "return"):
                if s[1] is not None:
                    r = self.iv_of(s[1], tag)
                    if r:
                        return r
            return None
        if e[0] == "member" and e[2] == "cmr":
            return "node.cmr"
        return None

    def run(self, stmts, tag, ty, target_pred, state=None):
        """straight-line execution: returns (iv var, [(h0,h1)...]) for the midstate selected by target_pred"""
        st = state or {"h": ["zero", "zero"], "j": 8, "iv": None, "steps": []}

        def dest_half(d):
            d = self.strip(d)
            if d == ("var", "block"):
                return 0
            if d[0] == "bin" and d[1] == "+" and d[2] == ("var", "block"):
                o = d[3]
                if o == ("var", "j"):
                    return st["j"] // 8
                if o[0] == "int":
                    return o[1] // 8
            if d[0] == "index" and d[1] == ("var", "block") and d[2][0] == "int":
                return d[2][1] // 8
            return None

        for s in stmts:
            if s[0] == "block":
                self.run(s[1], tag, ty, target_pred, st)
                continue
            if s[0] == "if":
                c = self.tag_cond(s[1], tag)
                if c is True:
                    self.run([s[2]], tag, ty, target_pred, st)
                elif c is False and s[3] is not None:
                    self.run([s[3]], tag, ty, target_pred, st)
                elif c is None:
                    st["steps"].append(("?if " + cbody.show(s[1])[:60], ""))
                continue
            if s[0] == "decl":
                if s[1] == "block":
                    st["h"] = ["zero", "zero"] if s[2] is not None else ["uninit", "uninit"]
                elif s[1] == "j" and s[2] and s[2][0] == "int":
                    st["j"] = s[2][1]
                continue
            if s[0] != "expr":
                continue
            e = self.strip(s[1])
            if e[0] == "bin" and e[1] == "=":
                lhs, rhs = e[2], e[3]
                if lhs == ("var", "j") and rhs[0] == "int":
                    st["j"] = rhs[1]
                elif target_pred(lhs):
                    st["iv"] = self.iv_of(rhs, tag)
                    st["steps"] = []
                continue
            if e[0] == "call" and e[1] == "memcpy":
                h = dest_half(e[2][0])
                if h is not None:
                    st["h"][h] = self.half(e[2][1], ty)
                continue
            if e[0] == "call" and isinstance(e[1], str) and e[1].endswith("sha256_bitstring"):
                h = dest_half(e[2][0])
                if h is not None:
                    st["h"][h] = "compact(value)"
                continue
            if e[0] == "call" and isinstance(e[1], str) and e[1].endswith("sha256_compression"):
                tgt = e[2][0]
                if tgt[0] == "member" and tgt[2] == "s":
                    tgt = tgt[1]
                if target_pred(tgt):
                    st["steps"].append((st["h"][0], st["h"][1]))
                continue
        return st


# ---------------------------------------------------------------------------------------------------------------------
# SHA-256 compression (constant folding of bip340_iv(tag) for the two IVs that Rust computes in a const fn)
# ---------------------------------------------------------------------------------------------------------------------
_K = [0x428a2f98, 0x71374491, 0xb5c0fbcf, 0xe9b5dba5, 0x3956c25b, 0x59f111f1, 0x923f82a4, 0xab1c5ed5, 0xd807aa98, 0x12835b01,
      0x243185be, 0x550c7dc3, 0x72be5d74, 0x80deb1fe, 0x9bdc06a7, 0xc19bf174, 0xe49b69c1, 0xefbe4786, 0x0fc19dc6, 0x240ca1cc,
      0x2de92c6f, 0x4a7484aa, 0x5cb0a9dc, 0x76f988da, 0x983e5152, 0xa831c66d, 0xb00327c8, 0xbf597fc7, 0xc6e00bf3, 0xd5a79147,
      0x06ca6351, 0x14292967, 0x27b70a85, 0x2e1b2138, 0x4d2c6dfc, 0x53380d13, 0x650a7354, 0x766a0abb, 0x81c2c92e, 0x92722c85,
      0xa2bfe8a1, 0xa81a664b, 0xc24b8b70, 0xc76c51a3, 0xd192e819, 0xd6990624, 0xf40e3585, 0x106aa070, 0x19a4c116, 0x1e376c08,
      0x2748774c, 0x34b0bcb5, 0x391c0cb3, 0x4ed8aa4a, 0x5b9cca4f, 0x682e6ff3, 0x748f82ee, 0x78a5636f, 0x84c87814, 0x8cc70208,
      0x90befffa, 0xa4506ceb, 0xbef9a3f7, 0xc67178f2]
_H0 = [0x6a09e667, 0xbb67ae85, 0x3c6ef372, 0xa54ff53a, 0x510e527f, 0x9b05688c, 0x1f83d9ab, 0x5be0cd19]


def _compress(state, block):
    w = [int.from_bytes(block[4 * i:4 * i + 4], "big") for i in range(16)]
    rr = lambda x, n: ((x >> n) | (x << (32 - n))) & 0xffffffff
    for i in range(16, 64):
        s0 = rr(w[i - 15], 7) ^ rr(w[i - 15], 18) ^ (w[i - 15] >> 3)
        s1 = rr(w[i - 2], 17) ^ rr(w[i - 2], 19) ^ (w[i - 2] >> 10)
        w.append((w[i - 16] + s0 + w[i - 7] + s1) & 0xffffffff)
    a, b, c, d, e, f, g, h = state
    for i in range(64):
        s1 = rr(e, 6) ^ rr(e, 11) ^ rr(e, 25)
        ch = (e & f) ^ (~e & 0xffffffff & g)
        t1 = (h + s1 + ch + _K[i] + w[i]) & 0xffffffff
        s0 = rr(a, 2) ^ rr(a, 13) ^ rr(a, 22)
        mj = (a & b) ^ (a & c) ^ (b & c)
        t2 = (s0 + mj) & 0xffffffff
        h, g, f, e, d, c, b, a = g, f, e, (d + t1) & 0xffffffff, c, b, a, (t1 + t2) & 0xffffffff
    return [(x + y) & 0xffffffff for x, y in zip(state, [a, b, c, d, e, f, g, h])]


def tagged_iv(tag):
    import hashlib
    d = hashlib.sha256(tag).digest()
    st = _compress(_H0, d + d)
    return b"".join(x.to_bytes(4, "big") for x in st).hex()


def c_iv_table():
    """precomputed.h: static const sha256_midstate NAME = {{w0..w7}} -> hex bytes"""
    import os
    txt = open(os.path.join(cside.SYS, "depend/simplicity/precomputed.h")).read()
    out = {}
    for m in re.finditer(r"static const sha256_midstate (\w+)\s*=\s*\{\{([^}]*)\}\}", txt):
        words = re.findall(r"0x([0-9a-fA-F]+)u?", m.group(2))
        if len(words) == 8:
            out[m.group(1)] = "".join(w.rjust(8, "0") for w in words).lower()
    return out


# ---------------------------------------------------------------------------------------------------------------------
# the rules
# ---------------------------------------------------------------------------------------------------------------------

def arms_of(f, min_arms=10):
    for b, si in enum_switches(f):
        if len(si[2]) >= min_arms:
            return si
    return None


def run(ctx, rep):
    F = ctx.facts("full")
    rep.rule("C03.tags", "per combinator: Rust bit code and payload = C decodeNode code/subcode and reads; fail = C's refusal; reserved code unused")
    rep.rule("C03.iv", "IV bytes of each algebra and tag = precomputed.h through C's selector functions")
    rep.rule("C03.recipe", "per algebra and combinator: compression sequence (IV, halves in order) = C's for that tag")
    rep.rule("C03.cost", "per combinator: NodeBounds cost with RedeemData::new's arguments = analyseBounds cost (max-plus normal form)")
    rep.rule("C03.vcc", "in every match on a node's combinator, the root/bounds algebra function called in arm V is the one named after V")
    rep.rule("C03.width", "bit width formulas of unit/sum/product = computeTypeAnalyses")
    try:
        C = cside.cfacts()
    except Exception as ex:
        rep.anchor("C03.recipe", "clang AST of the vendored C: %s" % ex)
        return FINISH
    cs = CSide(C)
    civ = c_iv_table()
    rep.count("c_iv_constants", len(civ))

    new = F.fn("simplicity::node::redeem::RedeemData::new")
    new = F.inlined(new) if new is not None else None   # private same-file helpers are spliced in
    if new is None:
        rep.anchor("C03.cost", "RedeemData::new")
        return FINISH
    si = arms_of(new)
    if si is None:
        rep.anchor("C03.cost", "match on Inner in RedeemData::new")
        return FINISH
    Tn = Terms(new)
    arms = {}
    for v, tgt in si[2].items():
        reg = new.dominated_by(tgt)
        ent = {}
        for c in new.calls(reg):
            cal = c.callee or ""
            if cal.startswith("simplicity::merkle::amr::Amr::"):
                ent["amr"] = Tn.local(c.dest[0])
            elif cal.startswith("simplicity::merkle::ihr::Imr::"):
                ent["imr"] = Tn.local(c.dest[0])
            elif cal.startswith("simplicity::analysis::NodeBounds::"):
                ent["bounds"] = Tn.local(c.dest[0])
        arms[v] = ent
    rust_variants = set(arms) | set(si[4] or [])
    if set(VARIANT_TAG) | {"Fail"} != rust_variants:
        rep.violation("C03.tags", "variants", "Inner has variants %s; the rule table knows %s" % (sorted(rust_variants), sorted(set(VARIANT_TAG) | {"Fail"})))
    ctags = [n for n, _ in C["enums"].get("tag_t", [])]
    if set(ctags) != set(VARIANT_TAG.values()) | {"HIDDEN"}:
        rep.violation("C03.tags", "c-tags", "C tag_t has %s; the rule table knows %s + HIDDEN" % (ctags, sorted(VARIANT_TAG.values())))

    typings = {}
    for v in list(VARIANT_TAG) + ["Fail"]:
        try:
            typings[v] = Typing(v)
        except Exception as ex:
            rep.anchor("C03.recipe", "typing rule of %s (%s)" % (v, ex))
    # ------------------------------------------------------------------------------------------------ C03.cost
    try:
        ab = cs.fn("depend/simplicity/eval.c", "rustsimplicity_0_7_analyseBounds")
        sws = [s for s in cbody.find(ab["body"], lambda s: s[0] == "switch") if cs.is_tag(s[1])]
    except Exception as ex:
        sws = []
        rep.anchor("C03.cost", "analyseBounds in eval.c (%s)" % ex)
    overhead = cs.enumval.get("overhead")
    cadd = F.fn("<simplicity::analysis::Cost as std::ops::Add>::add")
    if cadd is None or not any(c.name == "saturating_add" for c in cadd.calls()):
        rep.violation("C03.cost", "Cost::add", "Cost + Cost is not a saturating_add (C's bounded_add clips at UBOUNDED_MAX)")
    else:
        rep.ok("C03.cost", "Cost::add is saturating_add", None)

    def c_cost(e, tag, ty):
        e = cs.select(e, tag)
        if e[0] == "int":
            return MP.const(e[1])
        if e[0] == "enum":
            return MP.const(cs.enumval[e[1]]) if e[1] in cs.enumval else MP.atom("?" + e[1])
        if e[0] == "call" and e[1] == "bounded_add":
            return c_cost(e[2][0], tag, ty).add(c_cost(e[2][1], tag, ty))
        if e[0] == "call" and e[1] == "bounded_max":
            return c_cost(e[2][0], tag, ty).max(c_cost(e[2][1], tag, ty))
        if e[0] == "bin" and e[1] == "+":
            return c_cost(e[2], tag, ty).add(c_cost(e[3], tag, ty))
        if e[0] == "member" and e[2] == "cost":
            b = e[1]
            if b[0] == "index" and b[1] == ("var", "bound"):
                n = cs.child_index(b[2])
                if n and n != "self":
                    if (tag, n) in (("ASSERTL", "c1"), ("ASSERTR", "c0")):
                        return c_hidden_cost
                    return MP.atom("cost(%s)" % n)
            if cs.node(b) == "self":
                return MP.atom("jetcost")
        if e[0] == "member" and e[2] == "bitSize" and e[1][0] == "index" and e[1][1] == ("var", "type_dag"):
            t = cs.tyidx(e[1][2], ty)
            if t is not None:
                return ty.width(t)
        return MP.atom("?" + cbody.show(e)[:60])

    def rust_cost(t, v, ty):
        """NodeBounds term -> MP of its cost field"""
        t = expr.inline(F, t, lambda p: p.startswith("simplicity::analysis::"), depth=5)
        c = fm.project1(t, ".cost")
        return rust_mp(c, v, ty)

    def rust_mp(t, v, ty):
        if not isinstance(t, tuple) or not t:
            return MP.atom("?" + str(t))
        if t[0] == "int":
            return MP.const(int(t[1]))
        if t[0] == "call" and t[2] == "add" and len(t[3]) == 2:
            return rust_mp(t[3][0], v, ty).add(rust_mp(t[3][1], v, ty))
        if t[0] == "call" and t[2] == "max" and len(t[3]) == 2:
            return rust_mp(t[3][0], v, ty).max(rust_mp(t[3][1], v, ty))
        if t[0] == "adt" and t[1].endswith("Cost") and len(t[4]) == 1:
            return rust_mp(t[4][0], v, ty)
        if t[0] == "cast" or (t[0] == "un" and len(t) == 3):
            return rust_mp(t[-1], v, ty)
        if t[0] == "field" and t[2] == "0" and isinstance(t[1], tuple) and t[1][0] == "bin":
            return rust_mp(t[1], v, ty)
        if t[0] == "bin" and t[1] in expr.ARITH_ADD:
            return rust_mp(t[2], v, ty).add(rust_mp(t[3], v, ty))
        if t[0] == "bin" and t[1] in expr.ARITH_SUB:
            a, b = rust_mp(t[2], v, ty), rust_mp(t[3], v, ty)
            d = mp_sub(a, b)
            return d if d is not None else MP.atom("(%s - %s)" % (a.show(), b.show()))
        if t[0] == "call" and t[2] == "bit_width" and len(t[3]) == 1:
            tt = rust_type(t[3][0], ty)
            if tt is not None:
                return ty.width(tt)
        if t[0] == "call" and t[2] == "cost" and len(t[3]) == 1:
            return MP.atom("jetcost")
        if t[0] == "call" and t[2] == "len" and len(t[3]) == 1 and v == "Word":
            return ty.width(ty.pos("self.target"))
        if t[0] == "constitem" and len(t) > 2 and t[2] and len(t[2]) <= 16:
            return MP.const(int.from_bytes(bytes.fromhex(t[2]), "little"))
        base, path = child_of(t)
        if base is not None and path and path[-1] == "cost" and path[0].startswith("@") and path[1] in ("0", "1"):
            return MP.atom("cost(c%s)" % path[1])
        return MP.atom("?" + expr.canon(t)[:70])

    def mp_sub(a, b):
        """a - b when both are single sums and b's atoms are among a's"""
        if len(a.terms) != 1 or len(b.terms) != 1:
            return None
        (ca, aa), = a.terms
        (cb, ab_), = b.terms
        rest = list(aa)
        for x in ab_:
            if x in rest:
                rest.remove(x)
            else:
                return None
        if ca < cb:
            return None
        return MP([(ca - cb, tuple(sorted(rest)))])

    # cost of a hidden node, read from the C table itself
    c_hidden_cost = MP.atom("cost(hidden)")
    if sws:
        stm = cbody.run_for_tag(sws[0][2], "HIDDEN") or []
        for s in stm:
            if s[0] == "expr":
                e = cs.strip(s[1])
                if e[0] == "bin" and e[1] == "=" and e[2][0] == "member" and e[2][2] == "cost":
                    c_hidden_cost = c_cost(e[3], "HIDDEN", typings["Iden"])
    for v, tag in sorted(VARIANT_TAG.items()):
        ty = typings.get(v)
        if ty is None or not sws:
            continue
        stm = cbody.run_for_tag(sws[0][2], tag)
        ccost = None
        for s in stm or []:
            if s[0] == "expr":
                e = cs.strip(s[1])
                if e[0] == "bin" and e[1] == "=" and e[2][0] == "member" and e[2][2] == "cost" and cs.strip(e[2][1]) == ("index", ("var", "bound"), ("var", "i")):
                    ccost = c_cost(e[3], tag, ty)
        if ccost is None:
            rep.violation("C03.cost", v + ":c-row", "analyseBounds has no cost assignment for tag %s" % tag)
            continue
        b = arms.get(v, {}).get("bounds")
        if b is None:
            rep.violation("C03.cost", v + ":rust-row", "RedeemData::new computes no NodeBounds in arm %s" % v)
            continue
        rc = reduce_mp(rust_cost(b, v, ty))
        cc = reduce_mp(ccost)
        if rc == cc and "?" not in rc.show():
            rep.ok("C03.cost", v, rc.show())
        else:
            rep.violation("C03.cost", v, "cost of %s: Rust %s, C (%s) %s" % (v, rc.show(), tag, cc.show()))
    rep.floor("C03.cost", rep.instances("C03.cost"), 16)

    # ------------------------------------------------------------------------------------------------ C03.recipe / C03.iv
    iv_pairs = []   # (label, rust hex, c var)

    def compare_recipe(alg, v, tag, rust, cst):
        (riv, rsteps), (civ_name, csteps) = rust, cst
        key = "%s:%s" % (alg, v)
        probs = []
        if any(str(x).startswith("?") for st_ in rsteps + csteps for x in st_):
            probs.append("unrecognised input")
        if rsteps != csteps:
            probs.append("compressions differ")
        if civ_name is None:
            probs.append("C IV not resolved")
        if riv[0] == "?":
            probs.append("Rust IV not resolved")
        if probs:
            rep.violation("C03.recipe", key, "%s of %s: %s — Rust %s %s, C(%s) %s %s" % (alg, v, ", ".join(probs), riv[0].rsplit("::", 1)[-1] if isinstance(riv[0], str) else riv, rsteps, tag, civ_name, csteps))
        else:
            rep.ok("C03.recipe", key, {"iv": civ_name, "steps": rsteps})
        if civ_name and riv[0] != "?":
            iv_pairs.append((key, riv, civ_name))

    # AMR and IMR (pass 1) from RedeemData::new's arms
    try:
        amr_f = cs.fn(DAG_C, "rustsimplicity_0_7_computeAnnotatedMerkleRoot")
        ihr_f = cs.fn(DAG_C, "computeIdentityHashRoots")
        cmr_f = cs.fn(DAG_C, "rustsimplicity_0_7_computeCommitmentMerkleRoot")
        ty_f = cs.fn("depend/simplicity/type.c", "rustsimplicity_0_7_computeTypeAnalyses")
    except Exception as ex:
        rep.anchor("C03.recipe", "C root functions in dag.c/type.c (%s)" % ex)
        return FINISH

    def c_recipe(fbody, tag, ty, target_pred, which_loop=0):
        """run the per-node statements of the given loop (or function body) for `tag`"""
        loops = cbody.find(fbody, lambda s: s[0] == "for")
        body = loops[which_loop][4] if loops else fbody
        stmts = body[1] if body[0] == "block" else [body]
        flat = []
        for s in stmts:
            if s[0] == "switch" and cs.is_tag(s[1]):
                flat.extend(cbody.run_for_tag(s[2], tag) or [])
            else:
                flat.append(s)
        st = cs.run(flat, tag, ty, target_pred)
        return st["iv"], st["steps"]

    is_amr = lambda e: cs.strip(e)[0] == "member" and cs.strip(e)[2] == "annotatedMerkleRoot"
    is_ihr = lambda e: cs.strip(e)[0] == "index" and cs.strip(e)[1] == ("var", "ihr")
    is_cmr = lambda e: cs.strip(e)[0] == "member" and cs.strip(e)[2] == "cmr" and cs.node(cs.strip(e)[1]) == "self"
    is_tmr = lambda e: cs.strip(e)[0] == "member" and cs.strip(e)[2] == "typeMerkleRoot"

    amr_pred = alg_pred(("simplicity::merkle::amr::Amr::",))
    imr_pred = alg_pred(("simplicity::merkle::ihr::Imr::",))
    for v, tag in sorted(VARIANT_TAG.items()):
        ty = typings.get(v)
        if ty is None:
            continue
        if v in ("Jet", "Word"):
            # roots of jets and words are their CMR on both sides (dag.c: JET/WORD -> dag[i].cmr; Rust: Cmr::jet(..).into())
            for alg, fb, pr, key in (("amr", amr_f["body"], is_amr, "amr"), ("imr", ihr_f["body"], is_ihr, "imr")):
                civn, csteps = c_recipe(fb, tag, ty, pr)
                t = arms.get(v, {}).get(key)
                r = expr.canon(expr.inline(F, t, amr_pred if alg == "amr" else imr_pred, depth=4)) if t is not None else "?"
                if civn == "node.cmr" and not csteps and re.fullmatch(r"into\((jet|const_word)\(inner@\w+\.0\)\)", r):
                    rep.ok("C03.recipe", "%s:%s" % (alg, v), "the node's CMR on both sides")
                else:
                    rep.violation("C03.recipe", "%s:%s" % (alg, v), "%s of %s: Rust %s, C %s %s" % (alg, v, r, civn, csteps))
            continue
        for alg, fb, pr, key, pred in (("amr", amr_f["body"], is_amr, "amr", amr_pred), ("imr", ihr_f["body"], is_ihr, "imr", imr_pred)):
            t = arms.get(v, {}).get(key)
            if t is None:
                rep.violation("C03.recipe", "%s:%s:rust-row" % (alg, v), "RedeemData::new computes no %s in arm %s" % (alg, v))
                continue
            rust = rust_recipe(expr.inline(F, t, pred, depth=6), ty, alg)
            compare_recipe(alg, v, tag, rust, c_recipe(fb, tag, ty, pr))
    # IHR pass 2
    fi = F.fn("simplicity::merkle::ihr::Ihr::from_imr")
    if fi is None:
        rep.anchor("C03.recipe", "Ihr::from_imr")
    else:
        ty = typings["Witness"]   # any combinator: source A, target B
        t = expr.inline(F, Terms(fi).local(0), alg_pred(()), depth=4)
        rust = rust_recipe(t, ty, "imr", role={"imr": "self"})
        loops = cbody.find(ihr_f["body"], lambda s: s[0] == "for")
        civn, csteps = None, None
        if len(loops) >= 2:
            body = loops[1][4]
            st = cs.run(body[1] if body[0] == "block" else [body], "WITNESS", ty, is_ihr)
            civn, csteps = st["iv"], st["steps"]
            csteps = [tuple("imr(self)" if h == "?ihr[i]" else h for h in s_) for s_ in csteps]
        compare_recipe("ihr", "pass2", "any", rust, (civn, csteps))
    # CMR: Cmr::v bodies over their own parameters
    for v, tag in sorted(VARIANT_TAG.items()):
        if v in ("Jet", "Word"):
            continue
        name = {"Drop": "drop", "AssertL": "case", "AssertR": "case"}.get(v, v.lower())
        f = F.fn("simplicity::merkle::cmr::Cmr::" + name)
        ty = typings.get(v)
        if f is None or ty is None:
            rep.anchor("C03.recipe", "Cmr::" + name)
            continue
        params = [d for d in (f.debug or []) if d.get("arg")] if hasattr(f, "debug") else []
        role = {}
        names = [n for n in f.param_names()] if hasattr(f, "param_names") else []
        for k, n in enumerate(names):
            role[n] = "c%d" % k
        t = expr.inline(F, Terms(f).local(0), alg_pred(("simplicity::merkle::cmr::Cmr::",)), depth=6)   # private helpers shared by sibling constructors
        rust = rust_recipe(t, ty, "cmr", role=role)
        compare_recipe("cmr", v, tag, rust, c_recipe(cmr_f["body"], tag, ty, is_cmr))
    # TMR
    for kind, rname in (("ONE", "unit"), ("SUM", "sum"), ("PRODUCT", "product")):
        f = F.fn("simplicity::merkle::tmr::Tmr::" + rname)
        if f is None:
            rep.anchor("C03.recipe", "Tmr::" + rname)
            continue
        ty = typings["Witness"]
        names = f.param_names() if hasattr(f, "param_names") else []
        role = {n: "arg%d" % k for k, n in enumerate(names)}
        t = expr.inline(F, Terms(f).local(0), alg_pred(("simplicity::merkle::tmr::Tmr::",)), depth=6)
        rust = rust_recipe(t, ty, "tmr", role=role)
        loops = cbody.find(ty_f["body"], lambda s: s[0] == "for")
        body = loops[0][4]
        flat = []
        for s in (body[1] if body[0] == "block" else [body]):
            if s[0] == "switch" and cs.is_tag(s[1]):
                flat.extend(cbody.run_for_tag(s[2], kind) or [])
            else:
                flat.append(s)
        st = cs.run(flat, kind, ty, is_tmr)
        csteps = [tuple(re.sub(r"^\?tmr\(type_dag\[i\]\.typeArg\[(\d)\]\)$", r"tmr(arg\1)", h) for h in s_) for s_ in st["steps"]]
        compare_recipe("tmr", rname, kind, rust, (st["iv"], csteps))
    # the witness hash: C hashes dag[i].compactValue (the bit string as carried in the witness stream, i.e. the compact
    # encoding); Rust's compact_value must collect the compact bits of the value, not the padded ones
    cv = F.fn("simplicity::merkle::compact_value")
    c_compact = any("compactValue" in cbody.show(e) for e in [s_[1] for s_ in cbody.find(amr_f["body"], lambda s: s[0] == "expr" and s[1][0] == "call" and str(s[1][1]).endswith("sha256_bitstring"))])
    if cv is None or not c_compact:
        rep.anchor("C03.recipe", "merkle::compact_value / sha256_bitstring(&dag[i].compactValue)")
    else:
        forms = {c.name for c in cv.calls() if c.name in ("iter_compact", "iter_padded")}
        if forms == {"iter_compact"}:
            rep.ok("C03.recipe", "witness hash is over the compact encoding on both sides", None)
        else:
            rep.violation("C03.recipe", "compact_value:form", "merkle::compact_value hashes %s of the witness value; C hashes dag[i].compactValue (the compact encoding)" % sorted(forms), cv.where())
    rep.floor("C03.recipe", rep.instances("C03.recipe"), 47)

    # IV bytes
    seen_iv = set()
    for key, riv, cvar in iv_pairs:
        if riv[0] == "tag":
            tagb = riv[1]
            tb = None
            if isinstance(tagb, tuple) and tagb and tagb[0] in ("bytes", "str"):
                tb = tagb[1] if isinstance(tagb[1], bytes) else (bytes.fromhex(tagb[1]) if tagb[0] == "bytes" else tagb[1].encode("latin1"))
            rhex = tagged_iv(tb) if tb is not None else None
            rname = "bip340_iv(%r)" % (tb,)
        else:
            rhex, rname = riv[1], riv[0]
        if (rname, cvar) in seen_iv:
            continue
        seen_iv.add((rname, cvar))
        chex = civ.get(cvar)
        if chex is None:
            rep.violation("C03.iv", "%s=%s" % (rname.rsplit("::", 2)[-2:] if False else rname.split("merkle::")[-1], cvar), "C IV %s is not defined in precomputed.h" % cvar)
        elif rhex != chex:
            rep.violation("C03.iv", "%s=%s" % (rname.split("merkle::")[-1], cvar), "IV used for %s: Rust %s = %s…, C %s = %s…" % (key, rname, (rhex or "?")[:16], cvar, chex[:16]))
        else:
            rep.ok("C03.iv", "%s=%s" % (rname.split("merkle::")[-1], cvar), chex[:16] + "…")
    rep.floor("C03.iv", rep.instances("C03.iv"), 30)

    # ------------------------------------------------------------------------------------------------ C03.width
    loops = cbody.find(ty_f["body"], lambda s: s[0] == "for")
    if loops:
        body = loops[0][4]
        sw = [s for s in (body[1] if body[0] == "block" else [body]) if s[0] == "switch" and cs.is_tag(s[1])]
        for kind, rname in (("ONE", "unit"), ("SUM", "sum"), ("PRODUCT", "product")):
            stm = cbody.run_for_tag(sw[0][2], kind) if sw else None
            cw = None
            for s in stm or []:
                if s[0] != "expr":
                    continue
                e = cs.strip(s[1])
                if e[0] == "bin" and e[1] == "=" and e[2][0] == "member" and e[2][2] == "bitSize":
                    cw = c_width(cs, e[3])
                if e[0] == "call" and e[1] == "bounded_inc" and cw is not None:
                    cw = cw.add(MP.const(1))
            f = F.fn("simplicity::types::final_data::Final::" + rname)
            rw = None
            if f is not None:
                Tf = Terms(f)
                for b in f.rpo():
                    for s in f.blocks[b]["s"]:
                        if s[0] == "=" and s[2].get("k") == "agg" and str(s[2].get("adt", "")).endswith("Final"):
                            fields = s[2].get("fields") or []
                            ops = s[2]["ops"]
                            idx = fields.index("bit_width") if "bit_width" in fields else None
                            if idx is not None:
                                rw = expr.norm(Tf.operand(ops[idx]), rename=lambda x: re.sub(r"^(\w+)\.bit_width$", lambda m: "W(arg%d)" % (0 if m.group(1) in ("left",) else 1), x))
            if cw is None or rw is None:
                rep.violation("C03.width", rname, "bit width of %s not found (Rust %s, C %s)" % (rname, rw and rw.show(), cw and cw.show()))
            elif reduce_mp(cw) == reduce_mp(rw):
                rep.ok("C03.width", rname, rw.show())
            else:
                rep.violation("C03.width", rname, "bit width of %s: Rust %s, C %s" % (rname, rw.show(), cw.show()))
    rep.floor("C03.width", rep.instances("C03.width"), 3)

    # ------------------------------------------------------------------------------------------------ C03.vcc
    import vcc
    ALGS = {"simplicity::merkle::cmr::Cmr::": "Cmr", "simplicity::merkle::ihr::Imr::": "Imr", "simplicity::merkle::amr::Amr::": "Amr",
            "simplicity::analysis::NodeBounds::": "NodeBounds"}
    ctor_names = set(vcc.ALG_OF.values()) | {"case"}
    n_vcc = 0
    for f in sorted(F.fns.values(), key=lambda x: x.path):
        if not f.path.startswith("simplicity::") or f.path.startswith(tuple(ALGS)):
            continue
        for b, si in enum_switches(f, "node::inner::Inner"):
            if len(si[2]) < 8:
                continue
            tgt_count = {}
            for v, tgt in si[2].items():
                tgt_count[tgt] = tgt_count.get(tgt, 0) + 1
            for v, tgt in sorted(si[2].items()):
                if tgt_count[tgt] > 1 or v not in vcc.METHOD_OF:
                    continue     # an or-pattern arm shared by several combinators
                reg = f.dominated_by(tgt)
                # uses of an algebra function in the arm: direct calls, function items passed as values
                # (`child.imr.map(Imr::injl)`), and calls inside closures built in the arm (`.map(|(a, b)| Imr::comp(a, b))`)
                uses = []     # (callee path, name, block, where)
                for c in f.calls(reg):
                    uses.append((c.callee or "", c.name, c.bb, c.where()))
                for bb in sorted(reg):
                    ops = []
                    for st in f.blocks[bb]["s"]:
                        if st[0] == "=":
                            rv = st[2]
                            ops += [rv.get("a"), rv.get("b")] + list(rv.get("ops", []))
                            if rv.get("k") == "agg" and rv.get("agg") == "closure":
                                g = F.fns.get(rv.get("closure"))
                                if g is not None:
                                    for c2 in g.calls():
                                        uses.append((c2.callee or "", c2.name, bb, c2.where()))
                    t_ = f.blocks[bb]["t"]
                    if t_["k"] == "call":
                        ops += list(t_["args"])
                    for o in ops:
                        if isinstance(o, dict) and o.get("k") == "const" and isinstance(o.get("fn"), dict):
                            pth = o["fn"].get("res") or o["fn"].get("path") or ""
                            uses.append((pth, pth.rsplit("::", 1)[-1], bb, f.where()))
                for (cal, cname, cbb, cwhere) in uses:
                    alg = [a for pfx, a in ALGS.items() if cal.startswith(pfx)]
                    if not alg or cname not in ctor_names:
                        continue
                    # nested matches inside the arm (e.g. on a child's combinator) are someone else's arm
                    inner_sw = [bb for bb, si2 in enum_switches(f, "node::inner::Inner") if bb in reg and bb != b and f.dominates(bb, cbb)]
                    if inner_sw:
                        continue
                    c = type("U", (), {"name": cname, "where": staticmethod(lambda w=cwhere: w)})
                    want = {vcc.ALG_OF[vcc.METHOD_OF[v]]}
                    if alg[0] in ("Cmr", "Imr") and v in ("AssertL", "AssertR"):
                        want = {"case"}
                    if alg[0] == "Amr" and v in ("AssertL", "AssertR"):
                        want |= {"case"} if False else set()
                    n_vcc += 1
                    key = "%s:%s:%s" % (fm.short(f.path), v, alg[0])
                    if c.name in want:
                        rep.ok("C03.vcc", key, None)
                    else:
                        rep.violation("C03.vcc", key, "%s: the arm for %s computes its %s with %s::%s, expected %s::%s"
                                      % (fm.short(f.path), v, alg[0], alg[0], c.name, alg[0], "/".join(sorted(want))), c.where())
    rep.count("vcc_sites", n_vcc)
    rep.floor("C03.vcc", n_vcc, 60)
    # ------------------------------------------------------------------------------------------------ C03.tags
    tags_rule(F, rep, cs)
    return FINISH


def c_width(cs, e):
    e = cs.strip(e)
    if e[0] == "int":
        return MP.const(e[1])
    if e[0] == "call" and e[1] == "bounded_add":
        return c_width(cs, e[2][0]).add(c_width(cs, e[2][1]))
    if e[0] == "call" and e[1] == "bounded_max":
        return c_width(cs, e[2][0]).max(c_width(cs, e[2][1]))
    m = re.fullmatch(r"type_dag\[type_dag\[i\]\.typeArg\[(\d)\]\]\.bitSize", cbody.show(e))
    if m:
        return MP.atom("W(arg%s)" % m.group(1))
    return MP.atom("?" + cbody.show(e)[:60])


def reduce_mp(mp):
    """drop max-alternatives dominated by another alternative (max(x+100, 100) = x+100 for unsigned x)"""
    terms = list(mp.terms)
    keep = []
    for i, (c, a) in enumerate(terms):
        dominated = False
        for j, (c2, a2) in enumerate(terms):
            if i != j and c2 >= c and expr._multiset_contains(a2, a) and ((c2, a2) != (c, a)):
                dominated = True
                break
        if not dominated:
            keep.append((c, a))
    return MP(keep)


def tags_rule(F, rep, cs):
    import c01

    class Quiet:
        def anchor(self, *a):
            pass
    rows = c01.encoder_table(F, Quiet())
    if not rows:
        rep.anchor("C03.tags", "encode_node table")
        return
    try:
        f = cs.fn("depend/simplicity/deserialize.c", "decodeNode")
    except Exception as ex:
        rep.anchor("C03.tags", "decodeNode in deserialize.c (%s)" % ex)
        return
    body = f["body"]
    top = [s for s in body[1] if s[0] == "if" and s[1] == ("var", "bit")]
    if len(top) != 1 or top[0][3] is None:
        rep.anchor("C03.tags", "decodeNode: if (bit) {...} else {...}")
        return
    then_b, else_b = top[0][2], top[0][3]
    ctable = {}
    # bit 1: second bit selects jet / word
    inner = [s for s in then_b[1] if s[0] == "if" and s[1] == ("var", "bit")]
    if len(inner) == 1:
        jets = cbody.find(inner[0][2], lambda s: s[0] == "return" and s[1] and s[1][0] == "call" and s[1][1] == "decodeJet")
        if jets:
            ctable["JET"] = ("11", ("jet",))
        wd = cbody.find(inner[0][3], lambda s: s[0] == "expr" and s[1][0] == "bin" and s[1][1] == "=" and s[1][3] == ("enum", "WORD"))
        if wd:
            pl = []
            for s in cbody.find(inner[0][3], lambda s: s[0] == "decl" and s[2] is not None and s[2][0] == "call"):
                nm = s[2][1]
                if isinstance(nm, str) and nm.endswith("decodeUptoMaxInt"):
                    pl.append("nat:n+1")
                elif isinstance(nm, str) and nm.endswith("readBitstring"):
                    pl.append("value")
            ctable["WORD"] = ("10", tuple(pl))
    # bit 0: code / subcode
    decls = {s[1]: s[2] for s in else_b[1] if s[0] == "decl"}

    def ev(e, env):
        e = cs.strip(e)
        if e[0] == "int":
            return e[1]
        if e[0] == "var":
            return env.get(e[1])
        if e[0] == "cond":
            c = ev(e[1], env)
            return None if c is None else ev(e[2] if c else e[3], env)
        if e[0] == "bin":
            a, b = ev(e[2], env), ev(e[3], env)
            if a is None or b is None:
                return None
            return {"<": a < b, "<=": a <= b, ">": a > b, "-": a - b, "+": a + b, "==": a == b}.get(e[1])
        return None
    code_w = ev(decls["code"][2][0], {}) if "code" in decls and decls["code"][0] == "call" else None
    loops = [s for s in else_b[1] if s[0] == "for"]
    sw = [s for s in else_b[1] if s[0] == "switch" and s[1] == ("var", "code")]
    if code_w is None or not sw or not loops:
        rep.anchor("C03.tags", "decodeNode: code/subcode/children structure")
        return
    for code in range(2 ** code_w):
        sub_w = ev(decls["subcode"][2][0], {"code": code})
        nchild = 0
        cond = loops[0][2]
        while nchild < 4 and ev(cond, {"code": code, "j": nchild}):
            nchild += 1
        inner_stmts = cbody.run_for_tag(sw[0][2], code) or []
        isw = [s for s in inner_stmts if s[0] == "switch" and s[1] == ("var", "subcode")]
        for sub in range(2 ** (sub_w or 0)):
            stm = cbody.run_for_tag(isw[0][2], sub) if isw else None
            bits_ = "0" + format(code, "0%db" % code_w) + format(sub, "0%db" % sub_w)
            payload = tuple(["nat:L", "nat:R"][:nchild])
            for s in stm or []:
                if s[0] == "expr":
                    e = cs.strip(s[1])
                    if e[0] == "bin" and e[1] == "=" and e[2][0] == "member" and e[2][2] == "tag":
                        for nm in re.findall(r"[A-Z]+", cbody.show(e[3])):
                            if nm in ("HIDDEN",) and e[3][0] == "cond":
                                continue
                            ctable.setdefault(nm, (bits_, payload))
                elif s[0] == "return" and s[1] is not None:
                    if s[1][0] == "enum":
                        ctable["!" + s[1][1]] = (bits_, payload)
                    elif s[1][0] == "call" and s[1][1] == "getHash":
                        ctable["HIDDEN"] = (ctable.get("HIDDEN", (bits_, ()))[0], ("hash:cmr",))
    rep.count("c_decode_rows", len(ctable))
    inv = {t: v for v, t in VARIANT_TAG.items()}
    inv["HIDDEN"] = "Hidden"
    for tag, (bits_, payload) in sorted(ctable.items()):
        if tag.startswith("!"):
            continue
        v = inv.get(tag)
        r = rows.get(v)
        if v is None or not r:
            rep.violation("C03.tags", tag, "C tag %s (code %s) has no row in the Rust encoder" % (tag, bits_))
            continue
        if v in ("AssertL", "AssertR"):
            want = {(bits_, payload)}
        else:
            want = {(bits_, payload)}
        got = {(c, tuple(p)) for c, p in r}
        if v == "Word":
            got = {(c, tuple(p)) for c, p in got}
        if got == want:
            rep.ok("C03.tags", tag, "%s %s" % (bits_, list(payload)))
        else:
            rep.violation("C03.tags", tag, "%s is written as %s by Rust; C decodes %s as %s %s" % (v, sorted(got), tag, bits_, list(payload)))
    fail = ctable.get("!SIMPLICITY_ERR_FAIL_CODE")
    rf = rows.get("Fail")
    if fail is None or not rf or {c for c, _ in rf} != {fail[0]}:
        rep.violation("C03.tags", "Fail", "Rust writes fail as %s; C refuses code %s with SIMPLICITY_ERR_FAIL_CODE" % (sorted(rf or []), fail and fail[0]))
    else:
        rep.ok("C03.tags", "Fail", "%s is the code C refuses (designed exception)" % fail[0])
    res = ctable.get("!SIMPLICITY_ERR_RESERVED_CODE")
    if res is not None:
        # Disconnect1 is the commit-time encoding of a disconnect whose second branch is not yet attached: no such node
        # survives to a RedeemNode (finalisation demands the branch), so it is outside the programs this property compares
        users = [v for v, r in rows.items() if v != "Disconnect1" and any(c.startswith(res[0]) for c, _ in r)]
        if users:
            rep.violation("C03.tags", "reserved", "%s use(s) the code %s that C reserves" % (users, res[0]))
        else:
            rep.ok("C03.tags", "reserved", "%s unused" % res[0])
    extra = set(rows) - set(inv.values()) - {"Fail", "Disconnect1"}
    for v in sorted(extra):
        rep.violation("C03.tags", "rust-extra:" + v, "the Rust encoder has a row %s with no C tag" % v)
    rep.floor("C03.tags", rep.instances("C03.tags"), 18)
