"""Loader and classical intraprocedural analyses over the simp-facts JSON (simplified MIR).

Nothing here runs the analysed library.  Analyses: CFG, dominators, call graph (resolved callees,
trait dispatch to all workspace impls), SCCs, reachability, arm regions of enum switches, backward
def-use term reconstruction (provenance / expression trees), result-use.
"""
import json
import os
import sys
from collections import defaultdict

sys.setrecursionlimit(100000)


class CallSite:
    __slots__ = ("fn", "bb", "t")

    def __init__(self, fn, bb, t):
        self.fn, self.bb, self.t = fn, bb, t

    @property
    def f(self):
        return self.t["f"]

    @property
    def callee(self):
        """Resolved callee def path when known, else the declared (possibly trait) item."""
        f = self.t["f"]
        return f.get("res") or f.get("path")

    @property
    def decl(self):
        return self.t["f"].get("path")

    @property
    def name(self):
        return self.t["f"].get("name")

    @property
    def trait(self):
        return self.t["f"].get("trait")

    @property
    def self_ty(self):
        return self.t["f"].get("self")

    @property
    def args(self):
        return self.t["args"]

    @property
    def dest(self):
        return self.t["dest"]

    @property
    def line(self):
        return self.t.get("line")

    @property
    def resolved(self):
        return bool(self.t["f"].get("resolved"))

    def where(self):
        return "%s:%s" % (self.fn.file, self.line)

    def __repr__(self):
        return "<call %s in %s bb%d>" % (self.callee, self.fn.path, self.bb)


class Fn:
    def __init__(self, d, crate):
        self.d = d
        self.crate = crate
        self.path = d["path"]
        self.name = d["name"]
        self.kind = d["kind"]
        self.file = d["span"][0]
        self.line = d["span"][1]
        self.from_expansion = d["span"][2]
        self.blocks = d["blocks"]
        self.locals = d["locals"]
        self.arg_count = d["arg_count"]
        self.impl_trait = d.get("impl_trait")
        self.impl_self = d.get("impl_self")
        self.impl_adt = d.get("impl_adt")
        self.in_trait = d.get("in_trait")
        self.parent_fn = d.get("parent_fn")
        self.vis = d.get("vis")
        self.unsafe = d.get("unsafe", False)
        self._succ = None
        self._pred = None
        self._idom = None
        self._defs = None
        self._rpo = None

    def param_names(self):
        """names of the MIR parameters _1.._n (from debug info; 'arg<i>' when unnamed)"""
        names = {}
        for nm, place in self.d.get("debug") or []:
            if isinstance(place, list) and len(place) == 2 and not place[1] and 1 <= place[0] <= self.arg_count:
                names.setdefault(place[0], nm)
        return [names.get(i, "arg%d" % i) for i in range(1, self.arg_count + 1)]

    def where(self):
        return "%s:%d" % (self.file, self.line)

    # ---------------- CFG ----------------
    def term(self, b):
        return self.blocks[b]["t"]

    def succs(self, b, unwind=False):
        t = self.blocks[b]["t"]
        k = t["k"]
        out = []
        if k == "goto":
            out = [t["target"]]
        elif k == "switch":
            out = [x[1] for x in t["targets"]] + [t["otherwise"]]
        elif k in ("call", "drop", "assert"):
            if t.get("target") is not None:
                out = [t["target"]]
            if unwind and t.get("unwind") is not None:
                out = out + [t["unwind"]]
        return out

    def succ_map(self):
        if self._succ is None:
            self._succ = [list(dict.fromkeys(self.succs(b))) for b in range(len(self.blocks))]
            self._pred = [[] for _ in self.blocks]
            for b, ss in enumerate(self._succ):
                for s in ss:
                    self._pred[s].append(b)
        return self._succ

    def pred_map(self):
        self.succ_map()
        return self._pred

    def rpo(self):
        if self._rpo is None:
            succ = self.succ_map()
            seen = set()
            order = []
            stack = [(0, iter(succ[0]))]
            seen.add(0)
            while stack:
                b, it = stack[-1]
                adv = False
                for s in it:
                    if s not in seen:
                        seen.add(s)
                        stack.append((s, iter(succ[s])))
                        adv = True
                        break
                if not adv:
                    order.append(b)
                    stack.pop()
            self._rpo = order[::-1]
        return self._rpo

    def idom(self):
        """Immediate dominators over the normal-flow CFG (Cooper-Harvey-Kennedy)."""
        if self._idom is None:
            rpo = self.rpo()
            idx = {b: i for i, b in enumerate(rpo)}
            pred = self.pred_map()
            idom = {rpo[0]: rpo[0]}
            changed = True
            while changed:
                changed = False
                for b in rpo[1:]:
                    ps = [p for p in pred[b] if p in idom]
                    if not ps:
                        continue
                    new = ps[0]
                    for p in ps[1:]:
                        a, c = p, new
                        while a != c:
                            while idx[a] > idx[c]:
                                a = idom[a]
                            while idx[c] > idx[a]:
                                c = idom[c]
                        new = a
                    if idom.get(b) != new:
                        idom[b] = new
                        changed = True
            self._idom = idom
        return self._idom

    def dominates(self, a, b):
        """True if block a dominates block b (both reachable)."""
        idom = self.idom()
        if b not in idom or a not in idom:
            return False
        while True:
            if a == b:
                return True
            nb = idom[b]
            if nb == b:
                return False
            b = nb

    def dominated_by(self, a):
        """Blocks dominated by a (dominator-tree subtree)."""
        if getattr(self, "_domkids", None) is None:
            kids = {}
            for b, d in self.idom().items():
                if b != d:
                    kids.setdefault(d, []).append(b)
            self._domkids = kids
        if a not in self.idom():
            return set()
        out = set()
        stack = [a]
        while stack:
            x = stack.pop()
            if x in out:
                continue
            out.add(x)
            stack.extend(self._domkids.get(x, ()))
        return out

    def reachable(self, start, avoid=()):
        """Blocks reachable from `start` (inclusive) without entering blocks in `avoid`."""
        succ = self.succ_map()
        avoid = set(avoid)
        seen = set()
        stack = [start] if start not in avoid else []
        while stack:
            b = stack.pop()
            if b in seen:
                continue
            seen.add(b)
            for s in succ[b]:
                if s not in seen and s not in avoid:
                    stack.append(s)
        return seen

    def return_blocks(self):
        return [b for b in self.rpo() if self.blocks[b]["t"]["k"] == "return"]

    def can_reach(self, a, targets, avoid=()):
        return bool(self.reachable(a, avoid) & set(targets))

    def in_loop(self, b):
        succ = self.succ_map()
        seen = set()
        stack = list(succ[b])
        while stack:
            x = stack.pop()
            if x == b:
                return True
            if x in seen:
                continue
            seen.add(x)
            stack.extend(succ[x])
        return False

    # ---------------- calls ----------------
    def calls(self, blocks=None):
        rp = self.rpo() if blocks is None else [b for b in self.rpo() if b in blocks]
        for b in rp:
            t = self.blocks[b]["t"]
            if t["k"] == "call" and "path" in t["f"]:
                yield CallSite(self, b, t)

    def all_calls_incl_cleanup(self):
        for b, blk in enumerate(self.blocks):
            t = blk["t"]
            if t["k"] == "call" and "path" in t["f"]:
                yield CallSite(self, b, t)

    def stmts(self, b):
        return self.blocks[b]["s"]

    # ---------------- defs ----------------
    def defs(self):
        """local -> list of (bb, idx, kind, payload); kind in {'assign','call'}; whole-local and
        projected writes are both recorded (proj kept in payload['lhs'])."""
        if self._defs is None:
            d = defaultdict(list)
            reach = set(self.rpo())
            for b in range(len(self.blocks)):
                if b not in reach:
                    continue
                for i, s in enumerate(self.blocks[b]["s"]):
                    if s[0] == "=":
                        d[s[1][0]].append((b, i, "assign", s))
                t = self.blocks[b]["t"]
                if t["k"] == "call":
                    d[t["dest"][0]].append((b, -1, "call", t))
            self._defs = d
        return self._defs

    def local_of_name(self, name):
        out = []
        for n, p in self.d.get("debug", []):
            if n == name:
                out.append(p)
        return out

    def debug_name(self, local):
        for n, p in self.d.get("debug", []):
            if p[0] == local and not p[1]:
                return n
        return None


class Facts:
    def __init__(self, directory, crates=("simplicity", "simplicity_sys", "simpcli")):
        self.dir = directory
        self.crates = {}
        self.fns = {}
        self.consts = {}
        self.adts = {}
        self.foreign_adts = {}
        self.foreign_methods = {}
        self.impls = []
        self.traits = {}
        self.statics = []
        self.foreign = []
        for c in crates:
            p = os.path.join(directory, c + ".json")
            if not os.path.exists(p):
                continue
            with open(p) as f:
                d = json.load(f)
            self.crates[c] = d
            for fd in d["fns"]:
                fn = Fn(fd, c)
                if fn.path in self.fns:
                    # disambiguate (should not happen)
                    fn.path = fn.path + "#%d" % fn.line
                self.fns[fn.path] = fn
            for cd in d["consts"]:
                self.consts.setdefault(cd["path"], cd)
            for a in d["adts"]:
                self.adts[a["path"]] = a
            for a in d.get("foreign_adts") or []:
                self.foreign_adts.setdefault(a["path"], a)
            for a in d.get("foreign_methods") or []:
                self.foreign_methods.setdefault(a["path"], set()).update(a["methods"])
            for i in d["impls"]:
                i["crate"] = c
                self.impls.append(i)
            for t in d["traits"]:
                self.traits[t["path"]] = t
            for s in d["statics"]:
                s["crate"] = c
                self.statics.append(s)
            for fo in d["foreign"]:
                fo["crate"] = c
                self.foreign.append(fo)
        self._cg = None
        self._impl_methods = None

    # ---------- lookup ----------
    # ---------------- helper inlining (robustness against "extract function" refactorings) ----------------
    def inlinable(self, caller, callee_path, vocab=(), sites=2):
        """A call is spliced when the callee is a non-recursive workspace function that is private to the caller's file
        (a helper), and its name is not one the calling rule reasons about by name.  Size bound: 40 blocks, or 300 blocks
        when the caller has a single call site of it (a function that was merely split in two)."""
        g = self.fns.get(callee_path)
        if g is None or g is caller or g.kind not in ("Fn", "AssocFn"):
            return None
        if g.name in vocab or g.file != caller.file or len(g.blocks) > (300 if sites == 1 else 40):
            return None
        if g.vis == "pub" or g.impl_trait:
            return None
        return g

    # Option/Result combinators applied to a closure literal: callee path -> (adt, variants, matched variant, wrap variant)
    COMBINATORS = {
        "std::option::Option::<T>::map": ("std::option::Option", ("None", "Some"), "Some", "Some"),
        "std::option::Option::<T>::and_then": ("std::option::Option", ("None", "Some"), "Some", None),
        "std::result::Result::<T, E>::map": ("std::result::Result", ("Ok", "Err"), "Ok", "Ok"),
        "std::result::Result::<T, E>::and_then": ("std::result::Result", ("Ok", "Err"), "Ok", None),
        "std::result::Result::<T, E>::map_err": ("std::result::Result", ("Ok", "Err"), "Err", "Err"),
    }

    def _closure_of_operand(self, d, op):
        """the closure function whose literal is the (only) definition of the local an operand moves"""
        if not isinstance(op, dict) or op.get("k") not in ("move", "copy") or op["p"][1]:
            return None
        loc = op["p"][0]
        found = []
        for blk in d["blocks"]:
            for st in blk["s"]:
                if st[0] == "=" and st[1][0] == loc and not st[1][1]:
                    found.append(st[2])
        if len(found) != 1 or found[0].get("k") != "agg" or found[0].get("agg") != "closure":
            return None
        g = self.fns.get(found[0]["closure"])
        if g is None or g.arg_count != 2 or len(g.blocks) > 40:
            return None
        return g

    def inlined(self, f, vocab=(), depth=2):
        """A copy of function f with calls to private same-file helpers spliced into its MIR (bounded depth), and with
        `opt.map(|x| ..)`, `opt.and_then(|x| ..)`, `res.map(..)`, `res.and_then(..)`, `res.map_err(..)` on a closure literal
        lowered to the `match` they abbreviate (so a rule sees the same shape whichever spelling the code uses)."""
        key = (f.path, tuple(sorted(vocab)), depth)
        cache = self.__dict__.setdefault("_inl_cache", {})
        if key in cache:
            return cache[key]
        import copy
        d = copy.deepcopy(f.d)
        changed = False
        for _round in range(depth):
            blocks = d["blocks"]
            n0 = len(blocks)
            did = False
            for b in range(n0):
                t = blocks[b]["t"]
                if t["k"] != "call" or "path" not in t["f"] or t.get("target") is None:
                    continue
                cal = t["f"].get("res") or t["f"]["path"]
                comb = self.COMBINATORS.get(t["f"]["path"]) if t["f"].get("name") not in vocab and len(t["args"]) == 2 else None
                recv = t["args"][0] if comb else None
                g = None
                if comb and isinstance(recv, dict) and recv.get("k") in ("move", "copy"):
                    g = self._closure_of_operand(d, t["args"][1])
                if g is None:
                    comb = None
                    n_sites = sum(1 for bb in blocks if bb["t"]["k"] == "call" and (bb["t"]["f"].get("res") or bb["t"]["f"].get("path")) == cal)
                    g = self.inlinable(f, cal, vocab, n_sites)
                if g is None or cal == f.path:
                    continue
                if any((tt["t"]["k"] == "call" and (tt["t"]["f"].get("res") or tt["t"]["f"].get("path")) == cal) for tt in g.blocks):
                    continue   # directly recursive helper
                off = len(d["locals"])
                nb0 = len(blocks)
                d["locals"] = list(d["locals"]) + list(g.locals)
                line = t.get("line")

                def sh_place(pl):
                    out = [pl[0] + off, [(("[_%d]" % (int(x[2:-1]) + off)) if isinstance(x, str) and x.startswith("[_") else x) for x in pl[1]]]
                    return out + list(pl[2:])

                def sh(x):
                    if isinstance(x, dict):
                        o = {}
                        for k2, v2 in x.items():
                            if k2 == "p" and isinstance(v2, list) and v2 and isinstance(v2[0], int):
                                o[k2] = sh_place(v2)
                            elif k2 in ("target", "unwind", "otherwise") and isinstance(v2, int):
                                o[k2] = v2 + nb0
                            elif k2 == "targets":
                                o[k2] = [[a_, b_ + nb0] for a_, b_ in v2]
                            elif k2 == "dest" and isinstance(v2, list):
                                o[k2] = sh_place(v2)
                            else:
                                o[k2] = sh(v2)
                        return o
                    if isinstance(x, list):
                        return [sh(y) for y in x]
                    return x
                newb = []
                for gb in g.blocks:
                    stm = []
                    for st in gb["s"]:
                        if st[0] == "=":
                            stm.append(["=", sh_place(st[1]), sh(st[2])] + list(st[3:]))
                        elif st[0] in ("live", "dead") and len(st) > 1 and isinstance(st[1], int):
                            stm.append([st[0], st[1] + off])
                        else:
                            stm.append(copy.deepcopy(st))
                    tt = gb["t"]
                    if tt["k"] == "return":
                        if comb and comb[3]:
                            stm.append(["=", copy.deepcopy(t["dest"]), {"k": "agg", "agg": "adt", "adt": comb[0], "variant": comb[3], "fields": ["0"],
                                                                         "ops": [{"k": "move", "p": [off, []]}]}, line, False])
                        else:
                            stm.append(["=", copy.deepcopy(t["dest"]), {"k": "use", "a": {"k": "move", "p": [off, []]}}, line, False])
                        nt = {"k": "goto", "target": t["target"]}
                    else:
                        nt = sh(tt)
                    newb.append({"s": stm, "t": nt, "cleanup": gb.get("cleanup", False), "origin": gb.get("origin") or g.path})
                if comb:
                    # match recv { Matched(x) => Wrap(closure(x)), Other(y) => Other(y) }
                    adt, variants, matched, _wrap = comb
                    other = variants[0] if variants[1] == matched else variants[1]
                    rp = recv["p"]
                    dl = len(d["locals"])
                    d["locals"] = list(d["locals"]) + ["isize"]
                    b_some = nb0 + len(newb)
                    b_other = b_some + 1
                    blocks[b]["s"].append(["=", [off + 1, []], {"k": "use", "a": copy.deepcopy(t["args"][1])}, line, False])
                    blocks[b]["s"].append(["=", [dl, []], {"k": "discr", "p": [rp[0], list(rp[1]), "?"], "adt": adt,
                                                          "variants": [[str(i), v] for i, v in enumerate(variants)]}, line, False])
                    blocks[b]["t"] = {"k": "switch", "discr": {"k": "move", "p": [dl, []]}, "targets": [[str(variants.index(matched)), b_some]],
                                      "otherwise": b_other, "line": line}
                    newb.append({"s": [["=", [off + 2, []], {"k": "use", "a": {"k": recv["k"], "p": [rp[0], list(rp[1]) + ["@" + matched, ".0"], "?"]}}, line, False]],
                                 "t": {"k": "goto", "target": nb0}, "cleanup": False})
                    if adt == "std::option::Option":
                        oth = {"k": "agg", "agg": "adt", "adt": adt, "variant": other, "fields": [], "ops": []}
                    else:
                        oth = {"k": "agg", "agg": "adt", "adt": adt, "variant": other, "fields": ["0"],
                               "ops": [{"k": recv["k"], "p": [rp[0], list(rp[1]) + ["@" + other, ".0"], "?"]}]}
                    newb.append({"s": [["=", copy.deepcopy(t["dest"]), oth, line, False]], "t": {"k": "goto", "target": t["target"]}, "cleanup": False})
                    d.setdefault("lowered_closures", []).append(g.path)
                else:
                    # the call site: bind the arguments, jump into the spliced body
                    for k_, a_ in enumerate(t["args"]):
                        blocks[b]["s"].append(["=", [off + k_ + 1, []], {"k": "use", "a": copy.deepcopy(a_)}, line, False])
                    blocks[b]["t"] = {"k": "goto", "target": nb0}
                # error exits of the spliced body are error exits of the caller when the call's result goes straight into `?`
                cont = blocks[t["target"]] if isinstance(t.get("target"), int) and t["target"] < len(blocks) else None
                ct = cont["t"] if cont else None
                if ct and ct["k"] == "call" and ct["f"].get("name") == "branch" and ct["f"].get("trait") == "std::ops::Try" and ct["args"] \
                        and ct["args"][0].get("k") in ("move", "copy"):
                    src = ct["args"][0]["p"]
                    dst = t["dest"]
                    via = {src[0]} if not src[1] else set()
                    for st in cont["s"]:
                        if st[0] == "=" and st[1][0] in via and not st[1][1] and st[2].get("k") == "use" and st[2]["a"].get("k") in ("move", "copy"):
                            via.add(st[2]["a"]["p"][0])
                    if dst[0] in via and not dst[1]:
                        errs = d.setdefault("inlined_error_blocks", [])
                        # where the caller's `?` goes on an error: the Break target of the switch behind `branch(..)`
                        brk = None
                        swb = blocks[ct["target"]] if isinstance(ct.get("target"), int) and ct["target"] < len(blocks) else None
                        if swb and swb["t"]["k"] == "switch":
                            vmap = {}
                            for st in swb["s"]:
                                if st[0] == "=" and st[2].get("k") == "discr":
                                    vmap = {v_: n_ for n_, v_ in st[2].get("variants", [])}
                            bi = vmap.get("Break")
                            tg = [x for v_, x in swb["t"]["targets"] if v_ == bi]
                            named = {v_ for v_, _x in swb["t"]["targets"]}
                            if bi is not None:
                                brk = tg[0] if tg else (swb["t"]["otherwise"] if bi not in named else None)
                        if not (comb and comb[3]):
                            for gi, gb in enumerate(g.blocks):
                                is_err = any(st[0] == "=" and st[1][0] == 0 and not st[1][1] and st[2].get("k") == "agg"
                                             and st[2].get("variant") in ("Err", "None") for st in gb["s"])
                                gt = gb["t"]
                                if gt["k"] == "call" and gt["f"].get("name") == "from_residual" and gt["dest"][0] == 0:
                                    is_err = True
                                if is_err:
                                    errs.append(nb0 + gi)
                                    # an error exit of the helper can only continue on the error side of the caller's `?`:
                                    # jump there directly, so that no infeasible "helper failed, caller goes on" path exists
                                    if brk is not None:
                                        nt_ = newb[gi]["t"]
                                        if nt_["k"] == "goto":
                                            nt_["target"] = brk
                                        elif nt_["k"] == "call" and nt_.get("target") is not None:
                                            nt_["target"] = brk
                        if comb and comb[2] in ("Some", "Ok"):
                            errs.append(nb0 + len(newb) - 1)
                            if brk is not None and newb[-1]["t"]["k"] == "goto":
                                newb[-1]["t"]["target"] = brk
                        # with the helper's error exits gone to the error side, what still reaches the `?` is a success value: if
                        # every other result the helper sets is an explicit Ok/Some, the `?` cannot fail there any more
                        if brk is not None and not comb:
                            sets = []
                            for gi, gb in enumerate(g.blocks):
                                for st in gb["s"]:
                                    if st[0] == "=" and st[1][0] == 0 and not st[1][1]:
                                        sets.append((nb0 + gi, st[2]))
                                gt = gb["t"]
                                if gt["k"] == "call" and gt.get("dest") and gt["dest"][0] == 0 and not gt["dest"][1]:
                                    sets.append((nb0 + gi, {"k": "call", "name": gt["f"].get("name")}))
                            ok_only = bool(sets) and all((bi_ in errs) or (rv_.get("k") == "agg" and rv_.get("variant") in ("Ok", "Some", "Continue"))
                                                         for bi_, rv_ in sets)
                            tgt_c = t["target"]

                            def _succs(bt):
                                out_ = []
                                for k_ in ("target", "otherwise"):
                                    if isinstance(bt.get(k_), int):
                                        out_.append(bt[k_])
                                out_ += [x for _v, x in bt.get("targets", [])]
                                return out_
                            other_preds = [i_ for i_, bb in enumerate(blocks) if i_ != b and tgt_c in _succs(bb["t"])]
                            sw_preds = [i_ for i_, bb in enumerate(blocks) if i_ != tgt_c and ct.get("target") in _succs(bb["t"])]
                            if ok_only and not other_preds and not sw_preds:
                                cont_i = vmap.get("Continue")
                                ctg = [x for v_, x in swb["t"]["targets"] if v_ == cont_i]
                                ctarget = ctg[0] if ctg else swb["t"]["otherwise"]
                                swb["t"] = {"k": "goto", "target": ctarget}
                # the helper's result *is* the caller's result (`fn f(..) -> R { helper(..) }`): its error exits are the caller's
                if not comb and t["dest"][0] == 0 and not t["dest"][1]:
                    errs = d.setdefault("inlined_error_blocks", [])
                    for gi, gb in enumerate(g.blocks):
                        is_err = any(st[0] == "=" and st[1][0] == 0 and not st[1][1] and st[2].get("k") == "agg"
                                     and st[2].get("variant") in ("Err", "None") for st in gb["s"])
                        gt = gb["t"]
                        if gt["k"] == "call" and gt["f"].get("name") == "from_residual" and gt["dest"][0] == 0:
                            is_err = True
                        if is_err and nb0 + gi not in errs:
                            errs.append(nb0 + gi)
                blocks.extend(newb)
                d.setdefault("inlined_helpers", []).append(g.path)
                did = changed = True
            if not did:
                break
        if not changed:
            cache[key] = f
            return f
        nf = Fn(d, f.crate)
        # a spliced helper that calls through a function pointer its caller passed as a named function (`Cmr::injl`) calls
        # that function: make the call direct, so that call-site rules see it
        Tn = Terms(nf)
        fixed = False
        for blk in d["blocks"]:
            t = blk["t"]
            if t["k"] != "call":
                continue
            via = None
            if "path" not in t["f"] and isinstance(t["f"].get("indirect"), dict):
                via, new_args = t["f"]["indirect"], t["args"]                      # fn pointer
            elif t["f"].get("name") in ("call_once", "call_mut", "call") and (t["f"].get("trait") or t["f"].get("path", "")).startswith(
                    ("std::ops::Fn", "core::ops::Fn")) and len(t["args"]) == 2 and t["args"][1].get("k") in ("move", "copy"):
                tup = Tn.operand(t["args"][1])                                       # `impl FnOnce(..)` parameter
                if isinstance(tup, tuple) and tup and tup[0] == "tuple":
                    via = t["args"][0]
                    pl = t["args"][1]["p"]
                    new_args = [{"k": "copy", "p": [pl[0], list(pl[1]) + [".%d" % i_]] + list(pl[2:])} for i_ in range(len(tup[1]))]
            if via is None:
                continue
            tgt = Tn.operand(via)
            if isinstance(tgt, tuple) and tgt and tgt[0] == "fnitem" and isinstance(tgt[1], str):
                fd = dict(FNITEMS.get(tgt[1]) or {"path": tgt[1], "full": tgt[1], "name": tgt[1].rsplit("::", 1)[-1],
                                                    "local": tgt[1].startswith("simplicity"), "res_kind": "item", "resolved": True})
                fd["via_pointer"] = True
                t["f"] = fd
                t["args"] = new_args
                fixed = True
        if fixed:
            nf = Fn(d, f.crate)
        nf.inlined_from = f
        nf.lowered_closures = tuple(d.get("lowered_closures") or ())
        nf.inlined_helpers = tuple(d.get("inlined_helpers") or ())
        cache[key] = nf
        return nf

    def fn(self, path):
        """The function with this def path.  If it is not there (e.g. it was moved to another module), fall back to the
        unique non-closure function of the same crate whose last two path segments (`Type::name` / `module::name`, generic
        arguments ignored) are the same; ambiguous or absent -> None (the caller reports the missing anchor)."""
        f = self.fns.get(path)
        if f is not None or path.startswith("<"):
            return f
        cache = self.__dict__.setdefault("_tail_index", None)
        if cache is None:
            cache = {}
            for p_, g in self.fns.items():
                if g.kind == "Closure" or p_.startswith("<") or "{closure" in p_:
                    continue
                cache.setdefault(self._tail(p_), []).append(g)
            self.__dict__["_tail_index"] = cache
        crate = path.split("::", 1)[0]
        cands = [g for g in cache.get(self._tail(path), []) if g.path.split("::", 1)[0] == crate]
        if len(cands) == 1:
            return cands[0]
        tail = self._tail(path).split("::")
        if not cands and len(tail) == 2 and tail[0][:1].islower():
            # a free function whose module was renamed or which moved to another module: unique by name among free functions
            by_name = self.__dict__.setdefault("_free_by_name", None)
            if by_name is None:
                by_name = {}
                for p_, g in self.fns.items():
                    if g.kind == "Fn" and not p_.startswith("<") and "{closure" not in p_:
                        by_name.setdefault(g.name, []).append(g)
                self.__dict__["_free_by_name"] = by_name
            c2 = [g for g in by_name.get(tail[1], []) if g.path.split("::", 1)[0] == crate]
            if len(c2) == 1:
                return c2[0]
        return None

    def fn_sig(self, path, prefix, ret=(), nargs=None):
        """The function at `path`, or — when it was renamed or turned into a method — the unique non-closure function under
        `prefix` whose return type mentions every string of `ret` (and that takes `nargs` arguments): anchoring by what a
        function *is* (its signature) survives renames that anchoring by name does not."""
        f = self.fn(path)
        if f is not None:
            return f
        out = []
        for p_, g in self.fns.items():
            if not p_.startswith(prefix) or g.kind not in ("Fn", "AssocFn"):
                continue
            r0 = g.locals[0] if g.locals else ""
            r0 = r0 if isinstance(r0, str) else r0.get("ty", "")
            if all(x in r0 for x in ret) and (nargs is None or g.arg_count == nargs):
                out.append(g)
        return out[0] if len(out) == 1 else None

    @staticmethod
    def _tail(path):
        import re as _re
        segs = [x for x in _re.sub(r"::<[^>]*>", "", path).split("::") if x]
        return "::".join(segs[-2:])

    def need_fn(self, path):
        f = self.fn(path)
        if f is None:
            raise AnchorMissing("function", path)
        return f

    def find_fns(self, pred):
        return [f for f in self.fns.values() if pred(f)]

    def fns_suffix(self, suffix):
        return [f for p, f in self.fns.items() if p.endswith(suffix)]

    def impl_methods(self):
        """(trait path, method name) -> [Fn] over all workspace impls."""
        if self._impl_methods is None:
            m = defaultdict(list)
            for f in self.fns.values():
                if f.impl_trait:
                    m[(f.impl_trait, f.name)].append(f)
            self._impl_methods = m
        return self._impl_methods

    def call_names_deep(self, f, vocab=()):
        """names of the calls in f, in the private helpers spliced into it, and in the closures of all of these"""
        fi = self.inlined(f, vocab)
        names = [cs.name for cs in fi.calls()]
        owners = [f] + [self.fns[p] for p in getattr(fi, "inlined_helpers", ()) if p in self.fns]
        for o in owners:
            for c in self.closures_of(o):
                names += [cs.name for cs in c.calls()]
        return names

    def closures_of(self, fn):
        pre = fn.path + "::{closure#"
        return [f for p, f in self.fns.items() if p.startswith(pre)]

    # ---------- call graph ----------
    def callees_of(self, fn, with_sites=False):
        """Workspace functions `fn` may transfer control to: resolved callees; for unresolved trait
        calls every workspace impl of the method (plus the default body); closures it creates."""
        out = []
        im = self.impl_methods()
        for cs in fn.all_calls_incl_cleanup():
            tgt = cs.callee
            hits = []
            if tgt in self.fns and (cs.resolved or not cs.trait):
                hits = [self.fns[tgt]]
            elif cs.trait:
                hits = list(im.get((cs.trait, cs.name), []))
                if cs.decl in self.fns:  # default method body
                    hits.append(self.fns[cs.decl])
                if tgt in self.fns and self.fns[tgt] not in hits:
                    hits.append(self.fns[tgt])
            elif tgt in self.fns:
                hits = [self.fns[tgt]]
            for h in hits:
                out.append((h, cs) if with_sites else h)
        # closures created here may run here or in a callee; treat creation as a call edge
        for b in range(len(fn.blocks)):
            for s in fn.blocks[b]["s"]:
                if s[0] == "=" and s[2].get("k") == "agg" and s[2].get("agg") == "closure":
                    c = self.fns.get(s[2]["closure"])
                    if c is not None:
                        out.append((c, None) if with_sites else c)
        return out

    def callgraph(self):
        if self._cg is None:
            cg = {}
            for p, f in self.fns.items():
                cg[p] = sorted({c.path for c in self.callees_of(f)})
            self._cg = cg
        return self._cg

    def callgraph_rec(self):
        """Call graph for recursion analysis, with edge kinds.  p -> {callee: 'hard' | 'generic'}.
        hard: direct/resolved calls, calls through `dyn Trait` (expanded to every workspace impl), closures
        created, function items passed as values.  generic: static dispatch on a type parameter through a
        workspace trait (expanded to every workspace impl).  Unresolved calls through *std* traits on a type
        parameter (T::clone, T::eq ...) are not expanded at all: they re-enter the workspace only at a strictly
        smaller type, and expanding them would merge all derives into one component."""
        if getattr(self, "_cgr", None) is None:
            cg = {}
            im = self.impl_methods()
            for p, f in self.fns.items():
                out = {}

                def add(q, kind):
                    if out.get(q) != "hard":
                        out[q] = kind
                for cs in f.all_calls_incl_cleanup():
                    tgt = cs.callee
                    if tgt in self.fns and (cs.resolved or not cs.trait):
                        add(tgt, "hard")
                    elif cs.trait:
                        st = cs.self_ty or ""
                        is_dyn = st.startswith("dyn ") or "(dyn " in st or cs.f.get("res_kind") == "virtual"
                        if tgt in self.fns and cs.resolved:
                            add(tgt, "hard")
                        elif cs.trait.startswith(("std::", "core::", "alloc::")) and not is_dyn:
                            continue
                        else:
                            for h in im.get((cs.trait, cs.name), []):
                                add(h.path, "hard" if is_dyn else "generic")
                            if cs.decl in self.fns:
                                add(cs.decl, "hard" if is_dyn else "generic")
                    elif tgt in self.fns:
                        add(tgt, "hard")
                for b in range(len(f.blocks)):
                    for s in f.blocks[b]["s"]:
                        if s[0] == "=" and s[2].get("k") == "agg" and s[2].get("agg") == "closure" and s[2]["closure"] in self.fns:
                            add(s[2]["closure"], "hard")
                    t = f.blocks[b]["t"]
                    if t["k"] == "call":
                        for a in t["args"]:
                            if a.get("k") == "const" and "fn" in a:
                                q = a["fn"].get("res") or a["fn"].get("path")
                                if q in self.fns:
                                    add(q, "hard")
                cg[p] = out
            self._cgr = cg
        return self._cgr

    def sccs_rec(self, roots):
        """cyclic SCCs of callgraph_rec() among functions reachable from roots."""
        cg = self.callgraph_rec()
        seen = set()
        stack = list(roots)
        while stack:
            p = stack.pop()
            if p in seen or p not in cg:
                continue
            seen.add(p)
            stack.extend(cg[p])
        save = self._cg
        self._cg = {k: sorted(v) for k, v in cg.items()}
        try:
            comps = self.sccs(seen)
        finally:
            self._cg = save
        out = []
        for comp in comps:
            cs = set(comp)
            hard = sorted((a, b) for a in comp for b, k in cg[a].items() if b in cs and k == "hard")
            out.append((comp, hard))
        return out, seen

    def reach_from(self, roots):
        cg = self.callgraph()
        seen = set()
        stack = [r for r in roots]
        while stack:
            p = stack.pop()
            if p in seen or p not in cg:
                continue
            seen.add(p)
            stack.extend(cg[p])
        return seen

    def sccs(self, nodes=None):
        """Tarjan SCCs of the call graph restricted to `nodes`; returns only cyclic components."""
        cg = self.callgraph()
        nodes = set(cg) if nodes is None else set(nodes)
        index = {}
        low = {}
        onstack = set()
        stack = []
        out = []
        counter = [0]
        for root in sorted(nodes):
            if root in index:
                continue
            work = [(root, iter([c for c in cg[root] if c in nodes]))]
            index[root] = low[root] = counter[0]
            counter[0] += 1
            stack.append(root)
            onstack.add(root)
            while work:
                v, it = work[-1]
                adv = False
                for w in it:
                    if w not in index:
                        index[w] = low[w] = counter[0]
                        counter[0] += 1
                        stack.append(w)
                        onstack.add(w)
                        work.append((w, iter([c for c in cg[w] if c in nodes])))
                        adv = True
                        break
                    elif w in onstack:
                        low[v] = min(low[v], index[w])
                if adv:
                    continue
                work.pop()
                if work:
                    u = work[-1][0]
                    low[u] = min(low[u], low[v])
                if low[v] == index[v]:
                    comp = []
                    while True:
                        w = stack.pop()
                        onstack.discard(w)
                        comp.append(w)
                        if w == v:
                            break
                    if len(comp) > 1 or v in cg[v]:
                        out.append(sorted(comp))
        return out

    def callers_of(self, path):
        cg = self.callgraph()
        return sorted(p for p, cs in cg.items() if path in cs)


class AnchorMissing(Exception):
    def __init__(self, kind, what):
        Exception.__init__(self, "%s not found: %s" % (kind, what))
        self.kind, self.what = kind, what


# =====================================================================================
# Term reconstruction (PROV / EXPR): backward def-use closure of an operand, flow-insensitive
# over the function's assignments, as an expression tree.  Never invents values: inputs stay
# symbolic ('param', i), loops are cut ('loop',).
# =====================================================================================

TRANSPARENT_CALLS = {
    # callee name -> index of the argument whose provenance is passed through
    "clone": 0, "shallow_clone": 0, "deref": 0, "deref_mut": 0, "as_ref": 0, "as_mut": 0,
    "borrow": 0, "borrow_mut": 0, "into": 0, "from": 0, "to_owned": 0, "as_deref": 0,
    "into_iter": 0, "iter": 0, "copied": 0, "cloned": 0, "as_slice": 0, "unwrap": 0,
    "expect": 0, "make_mut": 0, "get_mut": 0, "as_str": 0, "to_string": 0, "map_err": 0,
}


def strip_derefs(proj):
    return tuple(p for p in proj if p != "*")


class Terms:
    """Expression-tree reconstruction for one function."""

    def __init__(self, fn, transparent=TRANSPARENT_CALLS, max_depth=60, opaque=None):
        self.fn = fn
        self.defs = fn.defs()
        self.transparent = transparent
        self.max_depth = max_depth
        self.memo = {}
        # locals to be kept symbolic under a given name (e.g. a loop-carried cursor such as `ip`)
        self.opaque = opaque or {}
        # calls whose result identity matters (allocators of fresh objects): tagged with their call site
        self.site_names = set()
        self.fnitems = {}          # path -> callee description of every function item seen as a value
        self._term_bb = {}
        for _b, _blk in enumerate(fn.blocks):
            self._term_bb[id(_blk["t"])] = _b

    def operand(self, op, depth=0, stack=()):
        k = op["k"]
        if k in ("copy", "move"):
            return self.place(op["p"], depth, stack)
        if k == "const":
            return const_term(op)
        return ("unknown", k)

    def place(self, p, depth=0, stack=()):
        local = p[0]
        proj = strip_derefs(p[1])
        base = self.local(local, depth, stack)
        return project(base, proj)

    def local(self, l, depth=0, stack=()):
        if l in self.memo:
            return self.memo[l]
        if l in self.opaque:
            return ("param", 1000 + l, self.opaque[l])
        if l in stack:
            return ("loop", l)
        if depth > self.max_depth:
            return ("deep", l)
        fn = self.fn
        if 1 <= l <= fn.arg_count and not self._has_whole_def(l):
            t = ("param", l, fn.debug_name(l))
            self.memo[l] = t
            return t
        ds = self.defs.get(l, [])
        alts = []
        st2 = stack + (l,)
        for (b, i, kind, payload) in ds:
            if kind == "assign":
                lhs = payload[1]
                rv = payload[2]
                t = self.rvalue(rv, depth + 1, st2)
                lp = strip_derefs(lhs[1])
                if lp:
                    t = ("fieldwrite", lp, t)
                alts.append(t)
            else:
                alts.append(self.call(payload, depth + 1, st2))
        if 1 <= l <= fn.arg_count:
            alts.insert(0, ("param", l, fn.debug_name(l)))
        if not alts:
            t = ("undef", l)
        else:
            whole = [a for a in alts if a[0] != "fieldwrite"]
            fw = [a for a in alts if a[0] == "fieldwrite"]
            uniq = []
            for a in whole:
                if a not in uniq:
                    uniq.append(a)
            if len(uniq) == 1:
                t = uniq[0]
            elif len(uniq) == 0:
                t = ("struct", tuple(fw))
            else:
                t = ("phi", tuple(uniq))
            if fw and whole:
                t = ("with", t, tuple(fw))
        if not _has_loop(t):
            self.memo[l] = t
        return t

    def _has_whole_def(self, l):
        for (b, i, kind, payload) in self.defs.get(l, []):
            if kind == "call" or not payload[1][1]:
                return True
        return False

    def rvalue(self, rv, depth, stack):
        k = rv["k"]
        if k == "use":
            return self.operand(rv["a"], depth, stack)
        if k == "ref" or k == "rawptr":
            return self.place(rv["p"], depth, stack)
        if k == "cast":
            return self.operand(rv["a"], depth, stack)
        if k == "bin":
            return ("bin", rv["op"], self.operand(rv["a"], depth, stack), self.operand(rv["b"], depth, stack))
        if k == "un":
            return ("un", rv["op"], self.operand(rv["a"], depth, stack))
        if k == "discr":
            return ("discr", self.place(rv["p"], depth, stack))
        if k == "agg":
            ops = tuple(self.operand(o, depth, stack) for o in rv["ops"])
            if rv["agg"] == "adt":
                return ("adt", rv["adt"], rv["variant"], tuple(rv.get("fields", [])), ops)
            if rv["agg"] == "closure":
                return ("closure", rv["closure"], ops)
            return (rv["agg"], ops)
        if k == "repeat":
            return ("repeat", self.operand(rv["a"], depth, stack), rv.get("n"))
        if k == "tls":
            return ("tls", rv["item"])
        return ("unknown", k)

    def call(self, t, depth, stack):
        f = t["f"]
        if "path" not in f:
            # a call through a function pointer whose value is a known function item (a helper handed `Cmr::injl`, spliced
            # into its caller by Facts.inlined) is a call of that function
            tgt = self.operand(f["indirect"], depth, stack) if isinstance(f.get("indirect"), dict) else None
            while isinstance(tgt, tuple) and tgt and tgt[0] == "cast" and len(tgt) > 1 and isinstance(tgt[1], tuple):
                tgt = tgt[1]
            if isinstance(tgt, tuple) and tgt and tgt[0] == "fnitem" and isinstance(tgt[1], str):
                return ("call", tgt[1], tgt[1].rsplit("::", 1)[-1], tuple(self.operand(a, depth, stack) for a in t["args"]), None, None)
            return ("icall", tuple(self.operand(a, depth, stack) for a in t["args"]))
        name = f.get("name")
        args = t["args"]
        if name == "branch" and f.get("trait") == "std::ops::Try" and len(args) == 1:
            # `expr?`: the Continue payload is the Ok/Some payload of expr
            return ("try", self.operand(args[0], depth, stack))
        if name == "from_residual" and len(args) == 1:
            return ("residual", self.operand(args[0], depth, stack))
        if name in self.transparent and len(args) > self.transparent[name] and len(args) <= 2:
            # pass-through wrappers (clone, deref, as_ref, ...)
            if name in ("from", "into") and not _is_identityish(f):
                pass
            else:
                return self.operand(args[self.transparent[name]], depth, stack)
        callee = f.get("res") or f.get("path")
        if name in self.site_names:
            return ("call", callee, f.get("name"), tuple(self.operand(a, depth, stack) for a in args),
                    f.get("self"), f.get("trait"), ("site", self._term_bb.get(id(t), -1)))
        return ("call", callee, f.get("name"), tuple(self.operand(a, depth, stack) for a in args),
                f.get("self"), f.get("trait"))


def _is_identityish(f):
    # `From::from`/`Into::into` used by `?` on identical error types etc. are treated as transparent only
    # when source and target generic args are textually identical
    a = f.get("args") or []
    return len(a) >= 2 and a[0] == a[1]


def _has_loop(t):
    if not isinstance(t, tuple):
        return False
    if t and t[0] in ("loop", "deep"):
        return True
    return any(_has_loop(x) for x in t if isinstance(x, tuple))


FNITEMS = {}     # path -> callee description of every function item seen as a value


def const_term(op):
    if "fn" in op:
        FNITEMS[op["fn"].get("res") or op["fn"].get("path")] = op["fn"]
        return ("fnitem", op["fn"].get("res") or op["fn"].get("path"))
    if "variant" in op and "enum" in op:
        return ("enumconst", op["enum"], op["variant"])
    if "int" in op:
        if "item" in op:
            return ("int", op["int"], op.get("ty"), op["item"])
        return ("int", op["int"], op.get("ty"))
    if "uint_s" in op:
        return ("int", int(op["uint_s"]), op.get("ty"))
    if "str" in op:
        return ("str", op["str"])
    if "item" in op:
        return ("constitem", op["item"], op.get("bytes"))
    if "bytes" in op:
        return ("bytes", op["bytes"], op.get("ty"))
    if op.get("zst"):
        return ("zst", op.get("ty"))
    return ("constunk", op.get("ty"))


def linearise(f, path):
    """a straight-line copy of f along `path` (terminators become gotos): every local has at most one definition on it, so
    Terms over the copy evaluates values *on that path* (no phi of alternatives the path did not take)"""
    import copy
    blocks = []
    for i, b in enumerate(path):
        blk = copy.deepcopy(f.blocks[b])
        t = blk["t"]
        nxt = i + 1 if i + 1 < len(path) else None
        if t["k"] == "call":
            t["target"] = nxt
            t["unwind"] = None
        elif nxt is not None:
            blk["t"] = {"k": "goto", "target": nxt}
        else:
            blk["t"] = {"k": "return"}
        blocks.append(blk)
    d = dict(f.d)
    d["blocks"] = blocks
    return Fn(d, f.crate)


def project(base, proj):
    """Apply field projections to a term, resolving through aggregates where possible."""
    t = base
    for p in proj:
        t = project1(t, p)
    return t


def project1(t, p):
    if t[0] == "try":
        if p == "@Continue":
            return ("tryc", t[1])
        if p == "@Break":
            return ("trybreak", t[1])
    if t[0] == "tryc" and p == ".0":
        return t[1]
    if p.startswith("@"):
        # downcast: keep as marker unless the term is an aggregate of that variant
        if t[0] == "adt" and t[2] == p[1:]:
            return t
        return ("as", t, p[1:])
    if p.startswith("."):
        name = p[1:]
        if t[0] == "adt":
            fields, ops = t[3], t[4]
            if name in fields:
                return ops[fields.index(name)]
            if name.isdigit() and int(name) < len(ops):
                return ops[int(name)]
        if t[0] == "tuple" and name.isdigit() and int(name) < len(t[1]):
            return t[1][int(name)]
        if t[0] == "closure" and name.isdigit() and int(name) < len(t[2]):
            return t[2][int(name)]
        if t[0] == "as" and t[1][0] == "adt" and t[1][2] == t[2]:
            return project1(t[1], p)
        if t[0] == "phi":
            return ("phi", tuple(project1(a, p) for a in t[1]))
        return ("field", t, name)
    if t[0] == "array" and p.startswith("[") and p[1:-1].isdigit() and int(p[1:-1]) < len(t[1]):
        return t[1][int(p[1:-1])]          # constant index into an array literal
    return ("index", t, p)


def leaves(t, out=None):
    """All leaf origins of a term (params with their field paths, consts, calls as opaque leaves
    are expanded through their arguments)."""
    if out is None:
        out = []
    if not isinstance(t, tuple) or not t:
        return out
    k = t[0]
    if k in ("param", "int", "str", "constitem", "bytes", "zst", "constunk", "fnitem", "undef", "loop", "deep",
             "unknown", "tls"):
        out.append(t)
    elif k == "field":
        # param.field chain stays one leaf
        root = t
        chain = []
        while root[0] in ("field", "as", "index"):
            chain.append(root[2])
            root = root[1]
        if root[0] == "param":
            out.append(("parampath", root[1], root[2], tuple(reversed(chain))))
        else:
            leaves(root, out)
    else:
        for x in t[1:]:
            if isinstance(x, tuple):
                if x and isinstance(x[0], tuple):
                    for y in x:
                        leaves(y, out)
                else:
                    leaves(x, out)
    return out


def calls_in(t, out=None):
    """All ('call', callee, name, args, self, trait) nodes inside a term."""
    if out is None:
        out = []
    if not isinstance(t, tuple) or not t:
        return out
    if t[0] == "call":
        out.append(t)
    for x in t[1:]:
        if isinstance(x, tuple):
            if x and isinstance(x[0], tuple):
                for y in x:
                    calls_in(y, out)
            else:
                calls_in(x, out)
    return out


def show(t, depth=0):
    """Compact rendering of a term for reports."""
    if not isinstance(t, tuple) or not t:
        return str(t)
    if depth > 8:
        return "…"
    k = t[0]
    if k == "param":
        return t[2] or ("arg%d" % t[1])
    if k == "int":
        return str(t[1])
    if k == "str":
        return repr(t[1])
    if k == "constitem":
        return t[1].split("::", 1)[-1]
    if k == "field":
        return "%s.%s" % (show(t[1], depth + 1), t[2])
    if k == "as":
        return "%s@%s" % (show(t[1], depth + 1), t[2])
    if k == "index":
        return "%s%s" % (show(t[1], depth + 1), t[2])
    if k == "call":
        return "%s(%s)" % (short(t[1]), ", ".join(show(a, depth + 1) for a in t[3]))
    if k == "bin":
        return "(%s %s %s)" % (show(t[2], depth + 1), t[1], show(t[3], depth + 1))
    if k == "un":
        return "%s(%s)" % (t[1], show(t[2], depth + 1))
    if k == "adt":
        return "%s::%s{%s}" % (short(t[1]), t[2], ", ".join(show(a, depth + 1) for a in t[4]))
    if k == "tuple":
        return "(%s)" % ", ".join(show(a, depth + 1) for a in t[1])
    if k == "phi":
        return "φ(%s)" % " | ".join(show(a, depth + 1) for a in t[1])
    if k == "fnitem":
        return "fn " + short(t[1])
    return k


def short(path):
    if path is None:
        return "?"
    p = path
    if p.startswith("<"):
        return p
    parts = p.split("::")
    return "::".join(parts[-2:]) if len(parts) > 2 else p


# =====================================================================================
# Closure captures
# =====================================================================================

def closure_env(F, closure_fn, _depth=0):
    """Terms (in the defining function's vocabulary) of the values a closure captured, by env field index."""
    path = closure_fn.path
    i = path.rfind("::{closure#")
    if i < 0 or _depth > 4:
        return []
    parent = F.fns.get(path[:i])
    if parent is None:
        return []
    T = Terms(parent)
    for b in parent.rpo():
        for s in parent.blocks[b]["s"]:
            if s[0] == "=" and s[2].get("k") == "agg" and s[2].get("agg") == "closure" and s[2]["closure"] == path:
                env = [T.operand(o) for o in s[2]["ops"]]
                if "::{closure#" in parent.path:
                    penv = closure_env(F, parent, _depth + 1)
                    env = [subst_env(t, penv) for t in env]
                return env
    return []


def subst_env(t, env):
    """replace fields of the closure environment parameter (param 1, field k) by the captured terms."""
    if not isinstance(t, tuple) or not t:
        return t
    if t[0] == "field" and t[1][0] == "param" and t[1][1] == 1 and t[2].isdigit() and int(t[2]) < len(env):
        return env[int(t[2])]
    out = []
    for x in t:
        if isinstance(x, tuple):
            if x and isinstance(x[0], tuple):
                out.append(tuple(subst_env(y, env) for y in x))
            else:
                out.append(subst_env(x, env))
        else:
            out.append(x)
    return tuple(out)


# =====================================================================================
# Enum switches and arm regions
# =====================================================================================

def switch_info(fn, b):
    """If block b ends in a SwitchInt on an enum discriminant, return
    (place, adt, {variant name: target bb}, otherwise bb, otherwise variants); else None."""
    t = fn.blocks[b]["t"]
    if t["k"] != "switch":
        return None
    d = t["discr"]
    if d["k"] not in ("copy", "move"):
        return None
    l = d["p"][0]
    # find the defining `discr` statement, searching this block backwards then dominators
    cur = b
    seen = 0
    while cur is not None and seen < 50:
        for s in reversed(fn.blocks[cur]["s"]):
            if s[0] == "=" and s[1][0] == l and not s[1][1]:
                rv = s[2]
                if rv["k"] == "discr" and "variants" in rv:
                    vmap = {v[0]: v[1] for v in rv["variants"]}
                    targets = {}
                    named = set()
                    for val, tgt in t["targets"]:
                        nm = vmap.get(val, "#" + val)
                        targets[nm] = tgt
                        named.add(nm)
                    rest = [v for v in vmap.values() if v not in named]
                    return (rv["p"], rv["adt"], targets, t["otherwise"], rest)
                return None
        idom = fn.idom()
        nxt = idom.get(cur)
        if nxt is None or nxt == cur:
            break
        cur = nxt
        seen += 1
    return None


def enum_switches(fn, adt_suffix=None):
    out = []
    for b in fn.rpo():
        si = switch_info(fn, b)
        if si and (adt_suffix is None or si[1].endswith(adt_suffix)):
            out.append((b, si))
    return out


def bool_switch(fn, b):
    """For a SwitchInt on a bool/int local: return (operand, {value(str): target}, otherwise)."""
    t = fn.blocks[b]["t"]
    if t["k"] != "switch":
        return None
    return (t["discr"], {v: tg for v, tg in t["targets"]}, t["otherwise"])


def arm_region(fn, target):
    """Blocks exclusively inside an arm: those dominated by the arm's first block."""
    return fn.dominated_by(target)


# =====================================================================================
# Result use
# =====================================================================================

def local_uses(fn, l):
    """All read sites of local l: list of (bb, idx|-1, how)."""
    uses = []

    def in_op(op):
        return op.get("k") in ("copy", "move") and op["p"][0] == l

    def in_place_idx(p):
        return any(x == "[_%d]" % l for x in p[1])

    for b in fn.rpo():
        for i, s in enumerate(fn.blocks[b]["s"]):
            if s[0] == "=":
                rv = s[2]
                hit = False
                for key in ("a", "b"):
                    if key in rv and isinstance(rv[key], dict) and in_op(rv[key]):
                        hit = True
                if "p" in rv and rv["p"][0] == l:
                    hit = True
                if "ops" in rv and any(in_op(o) for o in rv["ops"]):
                    hit = True
                if s[1][0] == l and s[1][1]:
                    pass  # field write: not a read
                if in_place_idx(s[1]):
                    hit = True
                if hit:
                    uses.append((b, i, rv["k"]))
        t = fn.blocks[b]["t"]
        k = t["k"]
        if k == "call":
            if any(in_op(a) for a in t["args"]):
                uses.append((b, -1, "callarg"))
            if "indirect" in t["f"] and in_op(t["f"]["indirect"]):
                uses.append((b, -1, "callee"))
        elif k == "switch":
            if in_op(t["discr"]):
                uses.append((b, -1, "switch"))
        elif k == "assert":
            if in_op(t["cond"]):
                uses.append((b, -1, "assert"))
        elif k == "return" and l == 0:
            uses.append((b, -1, "return"))
    return uses


def value_flows_to_decision(fn, l, depth=0, seen=None):
    """Does the value of local l reach a switch/assert, a return, or a call argument (i.e. is the
    verdict consumed)?  Follows moves/copies/refs/discriminants/field reads."""
    if seen is None:
        seen = set()
    if l in seen or depth > 30:
        return False
    seen.add(l)
    if l == 0:
        return True
    for (b, i, how) in local_uses(fn, l):
        if how in ("switch", "assert", "callarg", "return"):
            return True
        if i >= 0:
            s = fn.blocks[b]["s"][i]
            dst = s[1][0]
            if value_flows_to_decision(fn, dst, depth + 1, seen):
                return True
    return False
