"""Extraction of the Bit Machine instruction template of each combinator from the MIR of
BitMachine::exec_with_tracker (ARM + path enumeration + EXPR), shared by C05 and C07.

For every arm of the interpreter's `match ip.inner()` and every decision path inside it (variant of a
shared arm, value of the peeked choice bit) the ordered list of machine operations is reconstructed:
direct calls on the machine in program order, then the operations pushed on the call stack in reverse
(LIFO) order.  Width arguments are canonical expressions over `self.source/target`, `c0/c1.source/target`.
"""
import re
from facts import Terms, switch_info, project1, show, linearise
import expr

BM = "simplicity::bit_machine::BitMachine::"
EXEC = BM + "exec_with_tracker"
CALLSTACK = EXEC + "::CallStack"


def is_callstack(path):
    """the interpreter's deferred-action enum, wherever in the bit_machine module it is declared"""
    return isinstance(path, str) and path.startswith("simplicity::bit_machine::") and path.endswith("::CallStack")
MACHINE_OPS = {"new_write_frame", "move_write_frame_to_read", "drop_read_frame", "write_bit", "skip", "copy", "fwd",
               "back", "write_bytes", "write_value", "write_u8", "exec_jet", "read_bit"}
PUSH_OP = {"Goto": "run", "MoveWriteFrameToRead": "move_write_frame_to_read", "DropReadFrame": "drop_read_frame",
           "CopyFwd": "copyfwd", "Back": "back"}


class TemplateError(Exception):
    pass


def find_ip(fn):
    """(main switch block, switch info, local holding the current node `ip`)."""
    for b in fn.rpo():
        si = switch_info(fn, b)
        if si and si[1].endswith("node::inner::Inner") and len(si[2]) >= 14:
            place = si[0]
            base = place[0]
            for (bb, i, kind, pl) in fn.defs().get(base, []):
                if kind == "call" and pl["f"].get("name") == "inner" and pl["args"]:
                    a = pl["args"][0]
                    if a["k"] in ("copy", "move"):
                        l = a["p"][0]
                        # follow a reborrow `_47 = &*_17`
                        for (b2, i2, k2, p2) in fn.defs().get(l, []):
                            if k2 == "assign" and p2[2].get("k") == "ref":
                                return b, si, p2[2]["p"][0], base
                        return b, si, l, base
    raise TemplateError("main switch on Inner / ip local not found in exec_with_tracker")


def renamer(s):
    """canonical atom names shared by interpreter and analysis."""
    # children of the current node: inner(ip)@Variant.k  ->  ck
    s = re.sub(r"inner\(ip\)@(\w+)\.(\d)", r"c\2", s)
    s = re.sub(r"phi\((c\d)(?:\|c\d)*\)", r"\1", s)
    # arrow(x).source -> x.source
    s = re.sub(r"arrow\((c\d)\)\.(source|target)", r"\1.\2", s)
    s = re.sub(r"arrow\(ip\)\.(source|target)", r"self.\1", s)
    s = re.sub(r"(c\d)\.arrow\.(source|target)", r"\1.\2", s)
    s = re.sub(r"(?<![\w.])arrow\.(source|target)", r"self.\1", s)
    s = re.sub(r"inner@(\w+)\.(\d)", r"c\2", s)
    return s


def paths(fn, start, inside, limit=64, feasible=None):
    """All simple paths (lists of blocks) from `start` that stay inside `inside`; a path ends when it
    leaves the region (exit block recorded) or at a return/diverging block."""
    out = []
    succ = fn.succ_map()

    def go(b, acc):
        if len(out) > limit:
            raise TemplateError("too many paths in arm")
        acc = acc + [b]
        nxt = succ[b]
        if not nxt:
            out.append((acc, None))
            return
        for s in nxt:
            if feasible is not None and not feasible(b, s):
                continue
            if s not in inside:
                out.append((acc, s))
            elif s in acc:
                raise TemplateError("loop inside an arm")
            else:
                go(s, acc)
    go(start, [])
    # dedupe
    uniq = []
    for p in out:
        if p not in uniq:
            uniq.append(p)
    return uniq


def extract(F):
    """-> dict with 'arms': {(variant, cond...): {'ops': [...], 'err': ..}}, 'unwinder': {...}"""
    fn = F.fn(EXEC)
    if fn is None:
        raise TemplateError("function %s not found" % EXEC)
    # private same-file helpers are spliced in, except the machine operations themselves (the rule's vocabulary)
    fn = F.inlined(fn, tuple(MACHINE_OPS) + ("visit_node", "exec_with_tracker", "pad_left", "pad_right", "bit_width"))
    sb, si, ip, inner_local = find_ip(fn)
    T = Terms(fn, opaque={ip: "ip"})
    # the deferred-action enum: whatever private enum of the bit_machine module is pushed on a Vec here (its name and its
    # variants' names are the maintainer's business)
    deferred = set()
    for cs in fn.calls():
        if cs.name in ("push", "extend") and "Vec" in (cs.callee or "") and len(cs.args) == 2:
            it = T.operand(cs.args[1])
            its = list(it[1]) if isinstance(it, tuple) and it and it[0] == "array" else [it]
            for it in its:
                if isinstance(it, tuple) and it and it[0] == "adt" and str(it[1]).startswith("simplicity::bit_machine::"):
                    deferred.add(it[1])
    if len(deferred) != 1:
        raise TemplateError("the interpreter's deferred-action enum was not found (enums pushed on a Vec: %s)" % sorted(deferred))
    DEF = next(iter(deferred))

    def is_deferred(path):
        return path == DEF
    # what each deferred variant does when it is popped (read off the unwinder below): variant -> operation name
    unw = {}
    for b in fn.rpo():
        si3 = switch_info(fn, b)
        if si3 and is_deferred(si3[1]):
            for v, tgt in si3[2].items():
                reg = fn.dominated_by(tgt)
                names = []
                for cs in fn.calls(reg):
                    if cs.callee.startswith(BM) and cs.name in MACHINE_OPS:
                        names.append((cs.name, [expr.canon(T.operand(a), renamer) for a in cs.args[1:]]))
                sets_ip = any(s_[0] == "=" and s_[1][0] == ip and not s_[1][1] for bb in reg for s_ in fn.blocks[bb]["s"])
                unw[v] = {"ops": names, "sets_ip": sets_ip}
    push_op = {}
    dadt = F.adts.get(DEF)
    node_variants = {vd["name"] for vd in (dadt["variants"] if dadt else []) if any("RedeemNode" in fd["ty"] or "node::Node<" in fd["ty"] for fd in vd["fields"])}
    for v, u in unw.items():
        nm = [n for n, _a in u["ops"]]
        # "continue with this node": the arm makes the popped node the current one — by assigning it, or (when the pop loop is
        # a helper returning the next node) by handing the variant's node payload back without any machine operation
        if not nm and (u["sets_ip"] or v in node_variants):
            u["sets_ip"] = True
            push_op[v] = "run"
        else:
            push_op[v] = "copyfwd" if nm == ["copy", "fwd"] else nm[0] if len(nm) == 1 else "?" + v

    def feasible(b, s_):
        """a branch on a constant (a flag handed to a spliced helper) has one live successor"""
        t = fn.blocks[b]["t"]
        if t["k"] != "switch":
            return True
        dt = T.operand(t["discr"])
        neg = 0
        while isinstance(dt, tuple) and dt and dt[0] == "un" and dt[1] == "Not":
            neg += 1
            dt = dt[2]
        if not (isinstance(dt, tuple) and dt and dt[0] == "int"):
            return True
        val = int(bool(dt[1])) ^ (neg % 2) if (len(dt) > 2 and dt[2] == "bool") or neg else dt[1]
        tg = [x for v_, x in t["targets"] if v_ == str(val)]
        return s_ == (tg[0] if tg else t["otherwise"])
    place, adt, targets, otherwise, rest = si
    result = {"fn": fn, "arms": {}, "ip": ip}
    by_target = {}
    for v, tgt in targets.items():
        by_target.setdefault(tgt, []).append(v)
    for tgt, variants in by_target.items():
        region = fn.dominated_by(tgt)
        # the blocks that dominate the arm (they hold the definitions an arm's expressions refer to)
        idom = fn.idom()
        chain, x_ = [], tgt
        while x_ in idom and idom[x_] != x_:
            x_ = idom[x_]
            chain.append(x_)
        chain.reverse()
        for (blocks, exit_b) in paths(fn, tgt, region, feasible=feasible):
            Tp_cache = []

            def on_path(op_):
                """the operand's value along this very path when the path-insensitive term is a choice between alternatives"""
                t_ = T.operand(op_)
                if "phi" not in repr(t_):
                    return t_
                if not Tp_cache:
                    Tp_cache.append(Terms(linearise(fn, chain + blocks), opaque={ip: "ip"}))
                return Tp_cache[0].operand(op_)
            conds = []
            ops = []
            pushes = []
            err = None
            helper_err = None
            vs = list(variants)
            dead = False
            for idx, b in enumerate(blocks):
                nb = blocks[idx + 1] if idx + 1 < len(blocks) else exit_b
                for s in fn.blocks[b]["s"]:
                    if s[0] == "=" and s[1][0] == 0 and not s[1][1]:
                        t = T.rvalue(s[2], 0, ())
                        if t[0] == "adt" and t[2] == "Err":
                            err = t[4][0]
                    elif s[0] == "=" and not s[1][1] and s[2].get("k") == "agg" and s[2].get("variant") == "Err" and "Result" in str(s[2].get("adt")) \
                            and fn.blocks[b].get("origin"):
                        # the error a spliced helper returns; the caller's `?` hands it on unchanged
                        t = T.rvalue(s[2], 0, ())
                        if t[0] == "adt" and t[4]:
                            helper_err = t[4][0]
                t = fn.blocks[b]["t"]
                if t["k"] == "call" and "path" in t["f"]:
                    cal = t["f"].get("res") or t["f"]["path"]
                    name = t["f"]["name"]
                    if cal.startswith(BM) and name in MACHINE_OPS:
                        args = [on_path(a) for a in t["args"][1:]]
                        ops.append((name, args))
                    elif name == "push" and "Vec" in cal and len(t["args"]) == 2:
                        item = on_path(t["args"][1])
                        if item[0] == "adt" and is_deferred(item[1]):
                            pushes.append((item[2], list(item[4])))
                    elif name == "extend" and "Vec" in cal and len(t["args"]) == 2:
                        # `pending.extend([A, B, C])`: pushes in array order
                        arr = on_path(t["args"][1])
                        while isinstance(arr, tuple) and arr and arr[0] in ("ref", "deref", "cast") and isinstance(arr[-1], tuple):
                            arr = arr[-1]
                        if isinstance(arr, tuple) and arr and arr[0] == "array":
                            for item in arr[1]:
                                if isinstance(item, tuple) and item and item[0] == "adt" and is_deferred(item[1]):
                                    pushes.append((item[2], list(item[4])))
                    elif name == "from_residual":
                        err = helper_err if helper_err is not None else ("residual",)
                    elif name in ("panic", "panic_fmt", "unreachable_display") or "panicking" in cal:
                        dead = True
                elif t["k"] == "switch" and nb is not None:
                    si2 = switch_info(fn, b)
                    if si2 and si2[1].endswith("node::inner::Inner"):
                        took = [vv for vv, tg in si2[2].items() if tg == nb]
                        if took:
                            vs = [x for x in vs if x in took]
                        else:
                            vs = [x for x in vs if x in si2[4]]
                    elif si2:
                        took = [vv for vv, tg in si2[2].items() if tg == nb]
                        conds.append((si2[1].rsplit("::", 1)[-1], tuple(took) or ("other",)))
                    else:
                        dt = T.operand(t["discr"])
                        val = [vv for vv, tg in t["targets"] if tg == nb]
                        cname = expr.canon(dt, renamer)
                        if "peek_bit" in cname:
                            cname = "bit"
                        conds.append((cname, val[0] if val else "else"))
                elif t["k"] == "unreachable":
                    dead = True
            if exit_b is not None and fn.blocks[exit_b]["t"]["k"] == "unreachable":
                dead = True
            if dead or not vs:
                continue
            seq = [(n, [expr.norm(a, renamer).show() if _is_int_like(a) else expr.canon(a, renamer) for a in args])
                   for (n, args) in ops]
            for (v, args) in reversed(pushes):
                opn = push_op.get(v, "?" + v)
                seq.append((opn, [expr.norm(a, renamer).show() if _is_int_like(a) else expr.canon(a, renamer) for a in args]))
            for v in vs:
                key = (v,) + tuple(c for c in conds if c[0] == "bit" or c[0] in ("ControlFlow",))
                ent = {"ops": seq, "err": (expr.canon(err, renamer) if err else None), "raw_pushes": pushes}
                if key in result["arms"] and result["arms"][key] != ent:
                    # several paths for the same key (e.g. n==0 short circuits): keep all
                    k2 = key + (("path", len(result["arms"])),)
                    result["arms"][k2] = ent
                else:
                    result["arms"][key] = ent
    result["unwinder"] = unw
    result["push_op"] = push_op
    result["deferred"] = DEF
    return result


def _is_int_like(t):
    return isinstance(t, tuple) and t and t[0] in ("int", "bin", "field", "call", "param", "phi")


# ----------------------------------------------------------------------------------------
# resource requirement of a template (cells / frames high-water), as max-plus polynomials
# ----------------------------------------------------------------------------------------

def requirement(ops):
    """High-water marks of a template: returns (cells MP, frames MP) over atoms given as strings."""
    cur_c = expr.MP.const(0)
    cur_f = expr.MP.const(0)
    high_c = expr.MP.const(0)
    high_f = expr.MP.const(0)
    frames = []  # widths of live frames (LIFO over read stack is what drop removes)
    for (name, args) in ops:
        if name == "new_write_frame":
            w = _mp_of(args[0])
            frames.append(w)
            cur_c = cur_c.add(w)
            cur_f = cur_f.add(expr.MP.const(1))
            high_c = high_c.max(cur_c)
            high_f = high_f.max(cur_f)
        elif name == "run":
            child = args[0]
            high_c = high_c.max(cur_c.add(expr.MP.atom(child + ".bounds.extra_cells")))
            high_f = high_f.max(cur_f.add(expr.MP.atom(child + ".bounds.extra_frames")))
        elif name == "drop_read_frame":
            if not frames:
                raise TemplateError("drop without frame")
            frames.pop()
            # recompute current usage from the live frames
            cur_c = expr.MP.const(0)
            for w in frames:
                cur_c = cur_c.add(w)
            cur_f = expr.MP.const(len(frames))
    return high_c, high_f, len(frames)


def _mp_of(s):
    """parse the string produced by MP.show() of a single-term polynomial back to an MP (atoms joined by +)."""
    if s.startswith("max("):
        raise TemplateError("frame width is a max")
    parts = _split_plus(s)
    c = 0
    atoms = []
    for p in parts:
        p = p.strip()
        if re.fullmatch(r"\d+", p):
            c += int(p)
        else:
            atoms.append(p)
    return expr.MP([(c, tuple(sorted(atoms)))])


def _split_plus(s):
    out = []
    depth = 0
    cur = ""
    i = 0
    while i < len(s):
        ch = s[i]
        if ch in "([":
            depth += 1
        elif ch in ")]":
            depth -= 1
        if depth == 0 and s[i:i + 3] == " + ":
            out.append(cur)
            cur = ""
            i += 3
            continue
        cur += ch
        i += 1
    out.append(cur)
    return out
