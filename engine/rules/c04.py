"""C04 — type inference is sound, principal and order-independent: structural clauses.

Does not decide soundness/principality/order-independence of the unifier itself (statements about unification
results).  Decides:
  C04.rules   each Arrow constructor builds the typing rule of its combinator: which child types reach
              source/target, which fresh variables are shared between positions, which pairs are unified /
              bound to products, operand order inside sums and products — compared with the language
              definition up to renaming of fresh variables and order of independent constraints
  C04.occurs  Type::finalize and Incomplete::from_bound_ref run the occurs check before iterating the
              (possibly cyclic) bound graph and return early on a cycle; a free variable finalises to unit;
              every Display/Debug over a possibly cyclic type is depth- and length-bounded
  C04.root    finalize_types = set_arrow_to_program then finalize_types_non_program; set_arrow_to_program
              unifies both source and target with unit
  C04.lock    no call that can reach Context::lock while a MutexGuard returned by it is live (std Mutex is not
              re-entrant: self-deadlock)
  C04.errors  in the Arrow constructors a unification or binding that can fail returns its error: unwrap/expect on its result
              is accepted only when one operand is a fresh variable that no earlier constraint of the function mentions
              (then it cannot fail)
  C04.rec     recursion inside type inference is reviewed (bind <-> unify is input-depth: known finding)
"""
import itertools
import re
import facts as fm
import flow
import rec
from facts import Terms, show, calls_in, leaves, enum_switches
import vcc

ARROW = "simplicity::types::arrow::Arrow"
TYPE = "simplicity::types::Type::<'brand>::"
CTX = "simplicity::types::context::Context::<'brand>::"
LOCK = CTX + "lock"


def lock_path(F):
    """path of `Context::lock`: by name, or — renamed — the one function of types::context that locks a std Mutex"""
    if LOCK in F.fns:
        return LOCK
    c = [p for p, f in F.fns.items() if p.startswith("simplicity::types::context::") and f.kind in ("Fn", "AssocFn")
         and any(cs.name == "lock" and "std::sync::Mutex" in (cs.callee or "") for cs in f.calls())]
    return c[0] if len(c) == 1 else None

FINISH = dict(level="other",
              explanation="Provenance shapes of the 18 Arrow constructors compared with the typing rules of the Simplicity "
                          "language definition (up to variable renaming); dominator rules for the occurs check and bounded "
                          "display; guard-liveness + call-graph rule for the context mutex; reviewed recursion table.",
              assumptions=["the union-bound unifier (bind/unify) computes most general unifiers (not decided)",
                           "PostOrderIter over an acyclic bound graph terminates (C18)"])

# ---------------------------------------------------------------------------------------------------------------
# typing rules (language definition), variables A,B,C,T are fresh unless bound to a child type
# child types: l.s, l.t, r.s, r.t (left/right child source/target); c.s, c.t for the only child
# ---------------------------------------------------------------------------------------------------------------
SPEC = {
    "iden": ("A", "A", []),
    "unit": ("A", "unit", []),
    "injl": ("c.s", "sum(c.t,A)", []),
    "injr": ("c.s", "sum(A,c.t)", []),
    "take": ("prod(c.s,A)", "c.t", []),
    "drop_": ("prod(A,c.s)", "c.t", []),
    "comp": ("l.s", "r.t", ["unify(l.t,r.s)"]),
    "pair": ("l.s", "prod(l.t,r.t)", ["unify(l.s,r.s)"]),
    "fail": ("A", "B", []),
    "witness": ("A", "B", []),
    "const_word": ("unit", "word(n(word))", []),
    "jet": ("jet.s", "jet.t", []),
    # helpers
    "for_case": ("prod(sum(A,B),C)", "T", ["bindprod(l.s,A,C)", "unify(T,l.t)", "bindprod(r.s,B,C)", "unify(T,r.t)"]),
    "for_disconnect": ("A", "prod(B,r.t)", ["bindprod(l.s,word(8),A)", "bindprod(l.t,B,r.s)"]),
}
# how the trait methods use the helpers
HELPER_CALLS = {
    "case": ("for_case", ["Some(l)", "Some(r)"]),
    "assertl": ("for_case", ["Some(l)", "None"]),
    "assertr": ("for_case", ["None", "Some(r)"]),
}


def render(t, role):
    """type term -> canonical string; role maps parameter index -> child name"""
    if not isinstance(t, tuple) or not t:
        return str(t)
    k = t[0]
    if k == "call":
        name, args = t[2], t[3]
        callee = t[1]
        if name == "free" and callee.startswith("simplicity::types::Type"):
            site = t[6][1] if len(t) > 6 else "?"
            return "$%s" % site
        if name == "sum" and len(args) == 3:
            return "sum(%s,%s)" % (render(args[1], role), render(args[2], role))
        if name == "product" and len(args) == 3:
            return "prod(%s,%s)" % (render(args[1], role), render(args[2], role))
        if name == "unit" and callee.startswith("simplicity::types::Type"):
            return "unit"
        if name == "two_two_n":
            return "word(%s)" % render(args[1], role)
        if name == "to_type":
            return render(args[0], role)
        if name == "source_ty":
            return "jet.s"
        if name == "target_ty":
            return "jet.t"
        if name == "n":
            return "n(%s)" % render(args[0], role)
        return "%s(%s)" % (name, ",".join(render(a, role) for a in args))
    if k == "int":
        return str(t[1])
    if k == "param":
        return role.get(t[1], t[2] or "p%d" % t[1])
    if k == "field":
        base = render(t[1], role)
        if t[2] == "source":
            return base + ".s"
        if t[2] == "target":
            return base + ".t"
        if t[2] == "0" and t[1][0] == "as" and t[1][2] == "Some":
            return render(t[1][1], role)
        return base + "." + t[2]
    if k == "as":
        return render(t[1], role)
    if k == "adt":
        if t[2] == "Some":
            return "Some(%s)" % render(t[4][0], role)
        if t[2] == "None":
            return "None"
        return "%s{%s}" % (t[2], ",".join(render(a, role) for a in t[4]))
    if k == "phi":
        return "phi(%s)" % "|".join(sorted(render(a, role) for a in t[1]))
    return k


OCC_VOCAB = ("occurs_check", "post_order_iter", "reassign_non_complete", "get", "unit", "sum", "product", "next")
ARROW_VOCAB = ("for_case", "for_disconnect", "free", "sum", "product", "unit", "two_two_n", "unify", "bind_product", "bind_sum", "check_eq",
               "shallow_clone", "to_type", "source_ty", "target_ty")
_FACTS = [None]


def shape_of(fn, role):
    """(source, target, [constraints]) of the Arrow a function builds."""
    if _FACTS[0] is not None:
        fn = _FACTS[0].inlined(fn, ARROW_VOCAB)   # private same-file helpers are spliced in
    T = Terms(fn)
    T.site_names = {"free"}
    src = tgt = None
    for b in fn.rpo():
        for s in fn.blocks[b]["s"]:
            if s[0] == "=" and s[2].get("k") == "agg" and s[2].get("adt") == ARROW:
                ops = dict(zip(s[2]["fields"], s[2]["ops"]))
                src = render(T.operand(ops["source"]), role)
                tgt = render(T.operand(ops["target"]), role)
    cons = []
    for cs in fn.calls():
        if cs.callee == CTX + "unify":
            a, b2 = render(T.operand(cs.args[1]), role), render(T.operand(cs.args[2]), role)
            cons.append("unify(%s)" % ",".join(sorted([a, b2])))
        elif cs.callee == CTX + "bind_product":
            cons.append("bindprod(%s,%s,%s)" % tuple(render(T.operand(cs.args[i]), role) for i in (1, 2, 3)))
    return src, tgt, cons, T


def match_up_to_renaming(got, want):
    """got uses $site variables, want uses single capital letters."""
    gs, gt, gc = got
    ws, wt, wc = want
    gvars = sorted(set(re.findall(r"\$-?\w+", " ".join([gs or "", gt or ""] + gc))))
    wvars = sorted(set(re.findall(r"\b[A-Z]\b", " ".join([ws, wt] + wc))))
    if len(gvars) != len(wvars):
        return False, "uses %d fresh variables, the rule has %d" % (len(gvars), len(wvars))

    def norm_unify(c):
        m = re.fullmatch(r"unify\((.*)\)", c)
        if not m:
            return c
        parts = _split_top(m.group(1))
        return "unify(%s)" % ",".join(sorted(parts))
    wantset = sorted(norm_unify(c) for c in wc)
    for perm in itertools.permutations(wvars):
        mp = dict(zip(gvars, perm))

        def sub(s):
            return re.sub(r"\$-?\w+", lambda m: mp[m.group(0)], s)
        if sub(gs) == ws and sub(gt) == wt and sorted(norm_unify(sub(c)) for c in gc) == wantset:
            return True, None
    return False, "no renaming of fresh variables makes it equal"


def _split_top(s):
    out, depth, cur = [], 0, ""
    for ch in s:
        if ch == "(":
            depth += 1
        elif ch == ")":
            depth -= 1
        if ch == "," and depth == 0:
            out.append(cur)
            cur = ""
        else:
            cur += ch
    out.append(cur)
    return out


def run(ctx, rep):
    F = ctx.facts("full")
    rep.rule("C04.rules", "each Arrow constructor = typing rule of its combinator (up to renaming of fresh variables)")
    rep.rule("C04.occurs", "occurs check precedes iteration of possibly cyclic types; free → unit; display is bounded")
    rep.rule("C04.root", "finalize_types sets the root arrow to 1→1 before finalising")
    rep.rule("C04.lock", "Context::lock is never re-entered while its guard is live")
    rep.rule("C04.rec", "recursion inside type inference is reviewed")

    # ------------------------------------------------------------------ errors
    rep.rule("C04.errors", "a fallible unification/binding in an Arrow constructor returns its error instead of panicking")
    n_con = 0
    for f in sorted(F.fns.values(), key=lambda x: x.path):
        if not f.path.startswith("simplicity::types::arrow::"):
            continue
        f = F.inlined(f, ARROW_VOCAB)
        T = Terms(f)
        T.site_names = {"free"}
        cons = [cs for cs in f.calls() if cs.name in ("unify", "bind_product", "bind_sum")]
        n_con += len(cons)
        for cs in f.calls():
            if cs.name not in ("unwrap", "expect") or not cs.args:
                continue
            t = T.operand(cs.args[0])
            inner = [c for c in calls_in(t) if c[2] in ("unify", "bind_product", "bind_sum")]
            if not inner:
                continue
            # the constraint whose result is unwrapped
            target = [c2 for c2 in cons if not c2.dest[1] and any(cc[2] == c2.name for cc in inner) and f.dominates(c2.bb, cs.bb)]
            target = target[-1] if target else None
            key = "%s:%s" % (f.name, cs.name)
            if target is None:
                rep.violation("C04.errors", key, "an unwrapped constraint result could not be traced in %s" % f.path, cs.where())
                continue
            fresh = set()
            for a in target.args:
                ta = T.operand(a)
                top = ta
                while isinstance(top, tuple) and top and top[0] in ("ref", "un", "deref"):
                    top = top[-1]
                if isinstance(top, tuple) and top and top[0] == "call" and top[2] == "free" and len(top) > 6:
                    fresh.add(top[6][1])
            earlier = [c2 for c2 in cons if c2 is not target and target.bb in f.reachable(c2.bb) and c2.bb != target.bb]
            used = set()
            for c2 in earlier:
                for a in c2.args:
                    for cc in calls_in(T.operand(a)):
                        if cc[2] == "free" and len(cc) > 6:
                            used.add(cc[6][1])
            if fresh - used:
                rep.ok("C04.errors", key + ": operand is a fresh, still unconstrained variable", None)
            else:
                rep.violation("C04.errors", key, "%s: the result of %s is unwrapped although none of its operands is a fresh variable untouched by earlier "
                              "constraints: an ill-typed program panics instead of getting a type error" % (f.path, target.name), cs.where())
    rep.count("arrow_constraints", n_con)
    # ------------------------------------------------------------------ rules
    _FACTS[0] = F
    arrow_methods = {}
    for f in F.fns.values():
        if f.impl_adt == ARROW and f.impl_trait in vcc.CONSTRUCTIBLE_TRAITS and f.name in vcc.VARIANT_OF:
            arrow_methods.setdefault(f.name, []).append(f)
    for m in sorted(set(vcc.VARIANT_OF) - set(arrow_methods)):
        rep.anchor("C04.rules", "Arrow::" + m)
    for name, fs in sorted(arrow_methods.items()):
        for f in fs:
            label = name if len(fs) == 1 else "%s<%s>" % (name, (f.d.get("impl_trait_ref") or "").split("DisconnectConstructible<")[-1].rstrip(">").replace("simplicity::", "").replace("'brand, ", ""))
            arity = len(vcc.ARG_PARAMS[name])
            if name in ("fail", "const_word", "jet", "witness", "iden", "unit"):
                role = {2: {"const_word": "word", "jet": "jet"}.get(name, "p2")}
            elif arity == 1:
                role = {1: "c"}
            else:
                role = {1: "l", 2: "r"}
            if name in HELPER_CALLS:
                helper, want_args = HELPER_CALLS[name]
                if name == "assertl":
                    role = {1: "l"}
                if name == "assertr":
                    role = {2: "r"}
                T = Terms(f)
                hc = [cs for cs in f.calls() if cs.name == helper]
                if len(hc) != 1:
                    rep.violation("C04.rules", label, "expected one call to %s" % helper, f.where())
                    continue
                got = [render(T.operand(a), role) for a in hc[0].args]
                if got == want_args:
                    rep.ok("C04.rules", label, "%s(%s)" % (helper, ", ".join(got)))
                else:
                    rep.violation("C04.rules", label, "%s calls %s(%s), the rule needs %s(%s)" % (name, helper, ", ".join(got), helper, ", ".join(want_args)), hc[0].where())
                continue
            if name == "disconnect":
                # delegations to for_disconnect
                f = F.inlined(f, ARROW_VOCAB)   # a private constructor helper for the placeholder arrow is spliced in
                T = Terms(f)
                T.site_names = {"free"}
                hc = [cs for cs in f.calls() if cs.name in ("for_disconnect", "disconnect")]
                if not hc:
                    rep.violation("C04.rules", label, "disconnect does not delegate to for_disconnect", f.where())
                    continue
                okk = True
                for cs in hc:
                    a0 = render(T.operand(cs.args[0]), {1: "l", 2: "r"})
                    a1t = T.operand(cs.args[1])
                    a1 = render(a1t, {1: "l", 2: "r"})
                    if a0 != "l":
                        rep.violation("C04.rules", label + ":left", "left child passed as %s" % a0, cs.where())
                        okk = False
                    if a1.startswith("Arrow{"):
                        # the placeholder arrow of a missing right child: two *independent* fresh variables
                        m = re.fullmatch(r"Arrow\{(\$-?\w+),(\$-?\w+),.*\}", a1)
                        if not m or m.group(1) == m.group(2):
                            rep.violation("C04.rules", label + ":placeholder", "the placeholder arrow of the missing right child is %s: its source and "
                                          "target must be two independent fresh variables (otherwise the rule gains the constraint C = D)" % a1, cs.where())
                            okk = False
                    elif a1 in ("bytes", "zst", "constunk") and "NoDisconnect" in cs.callee:
                        pass
                    elif a1 not in ("r", "NoDisconnect{}", "phi(NoDisconnect{}|r)"):
                        rep.violation("C04.rules", label + ":right", "right child passed as %s" % a1, cs.where())
                        okk = False
                if okk:
                    rep.ok("C04.rules", label, "delegates to for_disconnect(l, r | fresh placeholder)")
                continue
            want = SPEC.get(name)
            if want is None:
                rep.violation("C04.rules", label + ":UNREVIEWED", "no typing rule recorded for %s" % name, f.where())
                continue
            s, t, cons, _ = shape_of(f, role)
            if s is None:
                rep.violation("C04.rules", label, "constructor builds no Arrow", f.where())
                continue
            okk, why = match_up_to_renaming((s, t, cons), want)
            if okk:
                rep.ok("C04.rules", label, "%s → %s %s" % (s, t, cons))
            else:
                rep.violation("C04.rules", label, "constructor builds %s → %s with %s; the typing rule is %s → %s with %s (%s)"
                              % (s, t, cons, want[0], want[1], want[2], why), f.where())
    for helper, role in (("for_case", {1: "l", 2: "r"}), ("for_disconnect", {1: "l", 2: "r"})):
        hs = [f for f in F.fns.values() if f.impl_adt == ARROW and f.name == helper]
        if len(hs) != 1:
            rep.anchor("C04.rules", "Arrow::" + helper)
            continue
        s, t, cons, _ = shape_of(hs[0], role)
        okk, why = match_up_to_renaming((s, t, cons), SPEC[helper])
        if okk:
            rep.ok("C04.rules", helper, "%s → %s %s" % (s, t, cons))
        else:
            rep.violation("C04.rules", helper, "%s builds %s → %s with %s; the typing rule is %s → %s with %s (%s)"
                          % (helper, s, t, cons, SPEC[helper][0], SPEC[helper][1], SPEC[helper][2], why), hs[0].where())
        if helper == "for_case":
            # each child's constraints are applied exactly when that child is present
            f = hs[0]
            T = Terms(f)
            for cs in f.calls():
                if cs.callee in (CTX + "unify", CTX + "bind_product"):
                    child = None
                    for a in cs.args[1:3]:
                        for lf in leaves(T.operand(a)):
                            if lf[0] == "parampath" and lf[1] in (1, 2) and lf[3] and lf[3][-1] in ("source", "target"):
                                child = lf[1]
                    if child is None:
                        continue
                    # dominated by the Some-branch of a switch on that parameter
                    guarded = False
                    for b, si in enum_switches(f, "option::Option"):
                        if "Some" in si[2] and f.dominates(si[2]["Some"], cs.bb) and \
                                vcc.param_roots(T.place(si[0]), fm) == {child}:
                            guarded = True
                    if not guarded:
                        rep.violation("C04.rules", "for_case:guard:%s" % cs.name, "constraint on child %d is not conditional on that child being present" % child, cs.where())
    rep.floor("C04.rules", rep.instances("C04.rules"), 20)

    # ------------------------------------------------------------------ occurs check / bounded display
    for path, label in (("simplicity::types::Type::<'brand>::finalize", "Type::finalize"),
                        ("simplicity::types::incomplete::Incomplete::from_bound_ref", "Incomplete::from_bound_ref")):
        f = F.fn(path)
        if f is None:
            rep.anchor("C04.occurs", path)
            continue
        f = F.inlined(f, OCC_VOCAB)   # the iteration may live in a private helper the function was split into
        oc = [cs for cs in f.calls() if cs.name == "occurs_check"]
        it = [cs for cs in f.calls() if cs.name == "post_order_iter"]
        if not oc or not it:
            rep.violation("C04.occurs", label + ":missing", "occurs_check/post_order_iter not found (found %d/%d)" % (len(oc), len(it)), f.where())
            continue
        okk = all(f.dominates(oc[0].bb, x.bb) and oc[0].bb != x.bb for x in it) and flow.flows_to_branch(f, oc[0].dest[0])
        # the Some verdict returns before the iteration
        if okk:
            sw = [b for b, si in enum_switches(f, "option::Option") if si[0][0] == oc[0].dest[0]]
            okk = False
            for b in sw:
                si = fm.switch_info(f, b)
                some_b = si[2].get("Some")
                if some_b is not None and not (f.reachable(some_b) & {x.bb for x in it}):
                    okk = True
        if okk:
            rep.ok("C04.occurs", label, "occurs_check dominates the iteration; a cycle returns early")
        else:
            rep.violation("C04.occurs", label, "the bound graph is iterated without a preceding occurs check whose failure returns early: "
                          "a cyclic type makes finalisation diverge", f.where())
    # error construction unfolds the offending bound with sharing: without it a DAG-shaped type (T_n = T_{n-1} x T_{n-1})
    # becomes a tree of 2^n nodes before it is ever displayed
    f = F.fn("simplicity::types::incomplete::Incomplete::from_bound_ref")
    if f is not None:
        for cs in F.inlined(f).calls():
            if cs.name == "post_order_iter":
                ga = " ".join(cs.f.get("args", []))
                if "NoSharing" in ga:
                    rep.violation("C04.occurs", "from_bound_ref:sharing", "Incomplete::from_bound_ref unfolds the bound graph with NoSharing: building the error "
                                  "for a shared (DAG-shaped) incomplete type takes time and space exponential in its depth", cs.where())
                else:
                    rep.ok("C04.occurs", "from_bound_ref: shared traversal", ga[-60:])
    _undo(F, rep)
    f = F.fn("simplicity::types::Type::<'brand>::finalize")
    if f is not None:
        f = F.inlined(f, OCC_VOCAB)
        _writeback(F, rep, f)
    if f is not None:
        okk = False
        for b, si in enum_switches(f, "types::Bound"):
            tgt = si[2].get("Free")
            if tgt is not None:
                reg = f.dominated_by(tgt)
                names = [cs.name for cs in f.calls(reg) if "final_data::Final" in cs.callee]
                if names[:1] == ["unit"]:
                    okk = True
        if okk:
            rep.ok("C04.occurs", "free variable finalises to unit", None)
        else:
            rep.violation("C04.occurs", "free-to-unit", "a remaining free variable is not finalised to the unit type", f.where())
    n_disp = 0
    site_fns = set()
    for g in F.fns.values():
        for cs in g.calls():
            if cs.name == "verbose_pre_order_iter":
                ga = " ".join(cs.f.get("args", []))
                if not ("BoundRef" in ga or "Incomplete" in ga or "types::" in (cs.self_ty or "") and "Final" not in (cs.self_ty or "")):
                    continue
                n_disp += 1
                site_fns.add(g.path)
                T = Terms(g)
                a = T.operand(cs.args[1])
                key = "display:" + fm.short(g.path)
                lim = a[0] == "adt" and a[2] == "Some" and a[4][0][0] == "int"
                # the loop has a length cut-off
                cut = False
                nexts = {c.bb for c in g.calls() if c.name == "next" and g.in_loop(c.bb)}
                for b in g.rpo():
                    t = g.blocks[b]["t"]
                    if t["k"] == "switch":
                        dt = T.operand(t["discr"])
                        # `if data.index > LIMIT { ..; return }`: the counter of yielded items (not the depth, which the
                        # iterator already bounds) against a real limit, and the true branch leaves the loop
                        if dt[0] == "bin" and dt[1] in ("Gt", "Ge") and "index" in repr(dt[2]) and dt[3][0] == "int" and dt[3][1] >= 64:
                            true_t = [x for v_, x in t["targets"] if v_ != "0"]
                            true_t = true_t[0] if true_t else t["otherwise"]
                            reach = g.reachable(true_t, avoid=nexts)
                            if any(g.blocks[x]["t"]["k"] == "return" for x in reach) and not (reach & nexts):
                                cut = True
                if lim and cut:
                    rep.ok("C04.occurs", key, "depth limit %s, length cut-off present" % a[4][0][1])
                else:
                    rep.violation("C04.occurs", key, "Display over a possibly cyclic type without depth limit (%s) or length cut-off (%s)" % (lim, cut), cs.where())
    # non-vacuity: the Display/Debug entry points that print possibly-incomplete types (counted on today's tree: Debug and
    # Display of Type, Display of Incomplete) each reach such a bounded loop — directly or through a shared helper
    entries = 0
    for g in F.fns.values():
        if g.name != "fmt" or g.kind == "Closure" or not (g.impl_trait or "").endswith(("fmt::Display", "fmt::Debug")):
            continue
        seen, todo = {g.path}, [(g, 0)]
        hit = g.path in site_fns
        while todo and not hit:
            h, dpt = todo.pop()
            if dpt >= 3:
                continue
            for c in F.callees_of(h):
                if c.path in seen or not c.path.startswith("simplicity::types"):
                    continue
                seen.add(c.path)
                if c.path in site_fns:
                    hit = True
                    break
                todo.append((c, dpt + 1))
        entries += hit
    rep.floor("C04.occurs(bounded displays)", entries, 3)

    # occurs_check itself: three-colour DFS — a bound is marked in-progress only after the completed test
    oc = F.fn("simplicity::types::incomplete::Incomplete::occurs_check")
    if oc is None:
        rep.anchor("C04.occurs", "Incomplete::occurs_check")
    else:
        # the two sets may be wrapped in a private struct with accessor methods: splice those back in
        oc = F.inlined(oc, ("remove", "insert", "contains", "new"), depth=3)
        To = Terms(oc)
        To.site_names = {"new"}
        removes = [cs for cs in oc.calls() if cs.name == "remove" and "HashSet" in cs.callee]
        inserts = [cs for cs in oc.calls() if cs.name == "insert" and "HashSet" in cs.callee]
        contains = [cs for cs in oc.calls() if cs.name == "contains" and "HashSet" in cs.callee]

        def set_local(cs):
            t = To.operand(cs.args[0])
            return repr(t)
        if len(removes) == 1 and len(inserts) == 2 and len(contains) == 1:
            in_prog = set_local(removes[0])
            ins_prog = [c for c in inserts if set_local(c) == in_prog]
            ins_done = [c for c in inserts if set_local(c) != in_prog]
            okk = (len(ins_prog) == 1 and len(ins_done) == 1 and set_local(contains[0]) == set_local(ins_done[0])
                   and oc.dominates(contains[0].bb, ins_prog[0].bb) and contains[0].bb != ins_prog[0].bb
                   and oc.dominates(removes[0].bb, ins_done[0].bb)
                   and flow.flows_to_branch(oc, ins_prog[0].dest[0]) and flow.flows_to_branch(oc, contains[0].dest[0]))
            # a finished bound is *always* entered into the completed set: the next trip of the loop cannot be reached from the
            # point where the bound leaves the in-progress set on a path that avoids the insertion (else the shortcut never fires
            # and a DAG-shaped type is re-walked once per path: exponential)
            if okk and contains[0].bb in oc.reachable(removes[0].bb, avoid=(ins_done[0].bb,)):
                rep.violation("C04.occurs", "occurs_check:completed-conditional", "a bound that leaves the in-progress set is entered into the completed set only "
                              "on some paths: the already-checked shortcut does not fire for the others and shared sub-types are re-walked once per "
                              "path (exponential in the depth of a DAG-shaped type)", ins_done[0].where())
            elif okk:
                rep.ok("C04.occurs", "occurs_check: a finished bound is always entered into the completed set", None)
            if okk:
                rep.ok("C04.occurs", "occurs_check: completed-test precedes in-progress marking", None)
            else:
                rep.violation("C04.occurs", "occurs_check:order", "a bound is marked in-progress before (or without) testing whether it is already "
                              "completed, or a verdict is dropped: a finite type reachable along several edges is reported as a cycle", oc.where())
        else:
            rep.violation("C04.occurs", "occurs_check:shape", "expected one remove, two inserts and one contains on the two sets (found %d/%d/%d): "
                          "re-read the occurs check and update this rule" % (len(removes), len(inserts), len(contains)), oc.where())

    # component-wise decomposition in ContextInner::bind
    rep.rule("C04.bind", "binding a sum/product binds both components, first with first and second with second, on every success path")
    # the store type (ContextInner on the pinned tree) is private and may be renamed: its `bind` is the method of that name on
    # the ghost-token wrapper in types::context
    bind = [f for f in F.fns.values() if f.name == "bind" and f.path.startswith("simplicity::types::context::<impl simplicity::types::union_bound::WithGhostToken<")
            and f.kind != "Closure"]
    if len(bind) != 1:
        rep.anchor("C04.bind", "ContextInner::bind")
    else:
        f = F.inlined(bind[0], ("unify", "bind", "shallow_clone", "deref", "as_ref", "borrow"), depth=3)
        # decision table of bind over (kind of the existing bound, kind of the new bound), by abstract evaluation: a sum bound
        # against a product bound (either way round) is a type error on every path and never decomposed; matching
        # constructors are decomposed; a free bound on either side never fails
        import absint
        kinds = ("Free", "Complete", "Sum", "Product")
        pn = f.param_names()
        new_idx = pn.index("new") + 1 if "new" in pn else 3

        def bind_paths(k1, k2):
            first = [True]

            def call_value(t, env, run_):
                nm = t["f"].get("name")
                if nm == "shallow_clone" and first[0]:
                    first[0] = False
                    return ("enum", "Bound", k1, None)
                if nm in ("deref", "as_ref", "borrow") and t["args"]:
                    return run_.operand(env, t["args"][0])
                return None

            def effect(t, env, run_):
                nm = t["f"].get("name")
                pth = t["f"].get("path") or ""
                if "{closure" in pth or nm in ("call", "call_once", "call_mut"):
                    return ("err",)
                if nm in ("unify", "bind"):
                    return ("rec",)
                return None
            out = set()
            # an error is the bind_error closure's value or an `Err(..)` built in place (or propagated with `?`)
            marks = {b_: ("err",) for b_ in flow.error_blocks(f)}
            for eff, normal in absint.evaluate(f, {new_idx: ("enum", "Bound", k2, None)}, call_value, effect, mark_blocks=marks):
                sh = []
                for x in eff:
                    if x[0] in ("err", "rec") and not (x[0] == "err" and sh and sh[-1] == "err"):
                        sh.append(x[0])
                out.add((tuple(sh), normal, any(x[0] in ("?", "?branch") and x[0] == "?" for x in eff)))
            return out
        for k1 in kinds:
            for k2 in kinds:
                ps = bind_paths(k1, k2)
                shapes = {p_[0] for p_ in ps if p_[1]}
                key = "bind(%s, %s)" % (k1, k2)
                if {k1, k2} == {"Sum", "Product"}:
                    if shapes == {("err",)}:
                        rep.ok("C04.bind", key, "type error on every path")
                    else:
                        rep.violation("C04.bind", key, "binding a %s bound to a %s bound is not an error on every path (effects %s): an ill-typed program "
                                      "would be accepted, with a type that depends on unification order" % (k1.lower(), k2.lower(), sorted(shapes)), f.where())
                elif "Free" in (k1, k2):
                    if any("err" in sh for sh in shapes):
                        rep.violation("C04.bind", key, "binding involving a free bound can fail (effects %s)" % sorted(shapes), f.where())
                    else:
                        rep.ok("C04.bind", key, "never an error")
                elif k1 == k2 and k1 in ("Sum", "Product"):
                    if ("rec", "rec") in {sh[:2] for sh in shapes} and not any(sh == () for sh in shapes):
                        rep.ok("C04.bind", key, "decomposed component-wise")
                    else:
                        rep.violation("C04.bind", key, "matching %s bounds are not decomposed into two component-wise unifications (effects %s)" % (k1.lower(), sorted(shapes)), f.where())
        # the two component-wise calls sit in bind itself or in one private helper of it (which the view above may contain
        # once per call site): look at the function that holds them
        cands = [bind[0]] + [F.fns[p_] for p_ in sorted(set(getattr(f, "inlined_helpers", ()))) if p_ in F.fns]
        for nm in ("bind", "unify"):
            holders = [g for g in cands if any(cs.name == nm and "types::context::" in (cs.callee or "") for cs in g.calls())]
            f = holders[0] if len(holders) == 1 else bind[0]
            Tb = Terms(f)
            errs = flow.error_blocks(f)
            calls = [cs for cs in f.calls() if cs.name == nm and "types::context::" in (cs.callee or "")]
            if len(calls) != 2:
                rep.violation("C04.bind", nm + ":count", "expected two component-wise %s calls in bind, found %d" % (nm, len(calls)), f.where())
                continue
            c1, c2 = calls if f.dominates(calls[0].bb, calls[1].bb) else calls[::-1]
            # no success path from the first component to a return that skips the second
            seen, stack, leak = set(), [c1.t["target"]], None
            while stack:
                b = stack.pop()
                if b in seen or b == c2.bb or b in errs:
                    continue
                seen.add(b)
                if f.blocks[b]["t"]["k"] == "return":
                    leak = b
                stack.extend(f.succ_map()[b])
            comp_ok = True
            for idx, cs in ((0, c1), (1, c2)):
                fields = set()
                for a in cs.args[1:]:
                    for lf in leaves(Tb.operand(a)):
                        if lf[0] in ("parampath",) and lf[3]:
                            fields.add(lf[3][-1])
                    fields |= set(re.findall(r"'field', .*?'([01])'\)", repr(Tb.operand(a))))
                if str(1 - idx) in fields and str(idx) not in fields:
                    comp_ok = False
            if leak is not None:
                rep.violation("C04.bind", nm + ":skip", "after binding the first component a success return is reachable without binding the second "
                              "(block %d): (V ⊗ V) ~ (S ⊗ T) is accepted with V := S" % leak, c1.where())
            elif not comp_ok:
                rep.violation("C04.bind", nm + ":pairing", "components are paired crosswise", c1.where())
            else:
                rep.ok("C04.bind", nm + " ×2", "both components on every success path, verdicts propagated")
            for cs in (c1, c2):
                if not flow.flows_to_branch(f, cs.dest[0]):
                    rep.violation("C04.bind", nm + ":dropped", "the verdict of a component-wise %s is dropped" % nm, cs.where())

    # ------------------------------------------------------------------ root
    ft = [f for f in F.fns.values() if f.name == "finalize_types" and "construct" in f.path and f.kind != "Closure"]
    if len(ft) != 1:
        rep.anchor("C04.root", "ConstructNode::finalize_types")
    else:
        f = ft[0]
        a = [cs for cs in f.calls() if cs.name == "set_arrow_to_program"]
        b = [cs for cs in f.calls() if cs.name == "finalize_types_non_program"]
        if a and b and f.dominates(a[0].bb, b[0].bb) and a[0].bb != b[0].bb and flow.flows_to_branch(f, a[0].dest[0]):
            rep.ok("C04.root", "finalize_types", "set_arrow_to_program? → finalize_types_non_program")
        else:
            rep.violation("C04.root", "finalize_types", "finalize_types does not set the root arrow to 1→1 (checked) before finalising", f.where())
    sp = [f for f in F.fns.values() if f.name == "set_arrow_to_program" and "construct" in f.path]
    if len(sp) != 1:
        rep.anchor("C04.root", "ConstructNode::set_arrow_to_program")
    else:
        f = sp[0]
        T = Terms(f)
        got = set()
        for cs in f.calls():
            if cs.callee == CTX + "unify":
                x, y = T.operand(cs.args[1]), T.operand(cs.args[2])
                rx, ry = repr(x), repr(y)
                side = "source" if "'source'" in rx + ry else ("target" if "'target'" in rx + ry else "?")
                unit = any(c[2] == "unit" for c in calls_in(x) + calls_in(y))
                if unit and flow.flows_to_branch(f, cs.dest[0]):
                    got.add(side)
        if not got:
            # `[(source, hint), (target, hint)].into_iter().try_for_each(|(ty, hint)| ctx.unify(ty, &unit, hint))`
            def _arrays(t, out):
                if isinstance(t, tuple) and t:
                    if t[0] == "array":
                        out.append(t)
                    for y in t[1:]:
                        if isinstance(y, tuple):
                            if y and isinstance(y[0], tuple):
                                for z in y:
                                    _arrays(z, out)
                            else:
                                _arrays(y, out)
            for ad in f.calls():
                if ad.name not in ("try_for_each", "try_fold") or len(ad.args) < 2:
                    continue
                cl = [c for c in F.closures_of(f) if any(cs.callee == CTX + "unify" for cs in c.calls())]
                ct = T.operand(ad.args[-1])
                if not cl or not (isinstance(ct, tuple) and ct and ct[0] == "closure" and ct[1] == cl[0].path):
                    continue
                c = cl[0]
                Tc = Terms(c)
                env = fm.closure_env(F, c)
                ok_c = False
                for cs in c.calls():
                    if cs.callee == CTX + "unify":
                        x, y = Tc.operand(cs.args[1]), fm.subst_env(Tc.operand(cs.args[2]), env)
                        from_item = any(l[0] == "parampath" and l[1] == 2 for l in leaves(x)) or any(l[0] == "param" and l[1] == 2 for l in leaves(x))
                        unit = any(k[2] == "unit" for k in calls_in(y))
                        ok_c = from_item and unit
                ret_ok = vcc.param_roots(T.local(0), fm) is not None and (flow.flows_to_branch(f, ad.dest[0]) or ad.dest[0] == 0)
                arrs = []
                _arrays(T.operand(ad.args[0]), arrs)
                if ok_c and ret_ok and len(arrs) == 1:
                    for el in arrs[0][1]:
                        r_ = repr(el)
                        if "'source'" in r_:
                            got.add("source")
                        if "'target'" in r_:
                            got.add("target")
        if got == {"source", "target"}:
            rep.ok("C04.root", "set_arrow_to_program", "unify(source, unit)?; unify(target, unit)?")
        else:
            rep.violation("C04.root", "set_arrow_to_program", "only %s unified with unit" % sorted(got), f.where())

    # ------------------------------------------------------------------ lock discipline
    cg = {p: list(v) for p, v in F.callgraph_rec().items()}
    lockers = set()
    lk = lock_path(F)
    if lk is None:
        rep.anchor("C04.lock", LOCK)
    else:
        # functions that may reach Context::lock
        rev = {}
        for p, cs in cg.items():
            for c in cs:
                rev.setdefault(c, set()).add(p)
        stack = [lk]
        while stack:
            x = stack.pop()
            if x in lockers:
                continue
            lockers.add(x)
            stack.extend(rev.get(x, ()))
        n_scopes = 0
        for f in F.fns.values():
            for cs in f.calls():
                if cs.callee != lk:
                    continue
                n_scopes += 1
                g = cs.dest[0]
                bad = _calls_while_live(F, f, g, cs.t.get("target"), lockers)
                key = "guard:%s" % fm.short(f.path)
                if bad:
                    for (where, callee) in bad:
                        rep.violation("C04.lock", key + ":" + fm.short(callee), "%s is called while the context's MutexGuard is live; it can reach "
                                      "Context::lock (std::sync::Mutex is not re-entrant: deadlock)" % callee, where)
                else:
                    rep.ok("C04.lock", key, "no re-entrant call while the guard is live")
        # nine on the pinned tree; two constructors sharing one private helper (and so one guard) lower it without harm
        rep.floor("C04.lock", n_scopes, 7)

    # ------------------------------------------------------------------ recursion
    roots = [p for p in F.fns if p.startswith("simplicity::types::") and "::tests::" not in p]
    comps, nreach, dropped = rec.classify(F, roots)
    for c in comps:
        if not any(m.startswith("simplicity::types::") for m in c["members"]):
            continue
        if c["kind"] is None:
            rep.violation("C04.rec", "UNREVIEWED:" + c["sig"][:150], "unreviewed recursion in type inference: %s" % c["sig"], F.fns[c["members"][0]].where())
        elif c["kind"] == "input-depth":
            rep.violation("C04.rec", "input-depth:bind-unify", "%s: producing the result (or the error) of an ill- or deeply-typed program is not "
                          "stack-bounded" % c["reason"], F.fns[c["members"][0]].where())
        else:
            rep.ok("C04.rec", "scc:" + c["sig"][:120], "%s: %s" % (c["kind"], c["reason"]))
    return FINISH




def _undo(F, rep):
    """UbElement::unify replaces the data of the class representative that is dropped (mem::replace(&mut y.data, EqualTo(x)))
    and, when binding fails, puts the saved data back: into the very cell it was taken from.  Restoring into another element
    leaves the failed union in place (the classes stay merged with an incompatible bound) and corrupts that element."""
    fs = [g for g in F.fns.values() if g.name == "unify" and g.path.startswith("simplicity::types::union_bound::")]
    if len(fs) != 1:
        rep.anchor("C04.bind", "union_bound::UbElement::unify")
        return
    f = F.inlined(fs[0], ("replace", "borrow_mut", "borrow", "root_element"))
    T = Terms(f)
    import expr as _e
    reps = [cs for cs in f.calls() if cs.name == "replace" and cs.callee.endswith("mem::replace") and len(cs.args) == 2]
    if len(reps) != 1:
        rep.anchor("C04.bind", "UbElement::unify: one mem::replace of the dropped representative's data")
        return
    cell = _e.canon(T.operand(reps[0].args[0]))
    saved = reps[0].dest[0]
    # the field that is replaced (`data` on the pinned tree): the last projection of the replaced place
    fld = "." + re.sub(r"[^A-Za-z0-9_]+$", "", cell).rsplit(".", 1)[-1] if "." in cell else ".data"
    restores = []
    for b in f.rpo():
        for st in f.blocks[b]["s"]:
            if st[0] == "=" and st[1][1] and st[1][1][-1] == fld and b in f.reachable(reps[0].bb):
                rv = st[2]
                src = rv.get("a", {}).get("p", [None])[0] if rv.get("k") == "use" else None
                if src is not None and saved in _copies_of(f, src, saved):
                    restores.append((b, st))
    if not restores:
        rep.violation("C04.bind", "unify:undo:missing", "UbElement::unify never puts the replaced data back when binding fails: a rejected unification "
                      "leaves the two classes merged", f.where())
        return
    for b, st in restores:
        bt = T.place([st[1][0], st[1][1][:-1]] + list(st[1][2:]))
        while isinstance(bt, tuple) and bt and bt[0] == "with":      # Terms' record of the field write itself
            bt = bt[1]
        base = _e.canon(bt) + fld
        if base.replace("*", "") == cell.replace("*", ""):
            rep.ok("C04.bind", "unify: failed binding restores the data of the cell it replaced", cell[:80])
        else:
            rep.violation("C04.bind", "unify:undo:cell", "UbElement::unify saves the data of `%s` but, when binding fails, writes it back into `%s`: the failed "
                          "union stays in place and another element's data is overwritten" % (cell[:80], base[:80]),
                          "%s:%s" % (f.file, st[3] if len(st) > 3 else f.line))


def _copies_of(f, local, target, depth=0):
    """locals `local` is a (transitive) move/copy of"""
    out = {local}
    if depth > 6:
        return out
    for (b, i, kind, pl) in f.defs().get(local, []):
        if kind == "assign" and pl[2].get("k") == "use" and pl[2]["a"].get("k") in ("move", "copy") and not pl[2]["a"]["p"][1]:
            out |= _copies_of(f, pl[2]["a"]["p"][0], target, depth + 1)
    return out

def _writeback(F, rep, f):
    """Type::finalize: on every iteration whose bound is not yet Complete (Free, Sum, Product) the finalised type is written
    back into the context (reassign_non_complete) before the loop goes on, so that a variable defaulted to unit cannot be
    bound to something else by later construction on the same nodes.  Path search with the decisions on the bound kept
    consistent (a second test of the same bound takes the same variant)."""
    wb = {cs.bb for cs in f.calls() if cs.name == "reassign_non_complete"}
    sws = [(b, si) for b, si in enum_switches(f, "types::Bound") if f.in_loop(b)]
    if not wb or not sws:
        rep.anchor("C04.occurs", "Type::finalize: match on Bound in the loop / reassign_non_complete")
        return
    b0, si0 = sws[0]
    for b, si in sws:
        if f.dominates(b, b0):
            b0, si0 = b, si
    subject = (si0[0][0], tuple(si0[0][1]))
    heads = {cs.bb for cs in f.calls() if cs.name == "next" and f.in_loop(cs.bb) and f.dominates(cs.bb, b0)}
    errs = flow.error_blocks(f)
    variants = [v for v in list(si0[2]) + list(si0[4]) if v != "Complete"]

    def target_for(b, si, v):
        return si[2].get(v, f.blocks[b]["t"]["otherwise"] if v in si[4] else None)
    for v in variants:
        start = target_for(b0, si0, v)
        if start is None:
            continue
        # depth-first search carrying the boolean constants assigned on the way (`matches!` stores its verdict in a
        # temporary and branches on it in a later block)
        seen, todo, bypass = set(), [(start, ())], None
        while todo and bypass is None:
            b, st = todo.pop()
            if (b, st) in seen or b in wb or b in errs:
                continue
            seen.add((b, st))
            if b in heads or f.blocks[b]["t"]["k"] == "return":
                bypass = b
                break
            env = dict(st)
            for stmt in f.blocks[b]["s"]:
                if stmt[0] == "=" and not stmt[1][1]:
                    c = fm.const_term(stmt[2]["a"]) if stmt[2].get("k") == "use" else None
                    if c is not None and c[0] == "int" and len(c) > 2 and c[2] == "bool":
                        env[stmt[1][0]] = int(c[1])
                    else:
                        env.pop(stmt[1][0], None)
            st2 = tuple(sorted(env.items()))
            t = f.blocks[b]["t"]
            si = fm.switch_info(f, b)
            if si and (si[0][0], tuple(si[0][1])) == subject:
                t2 = target_for(b, si, v)
                todo.append((t2 if t2 is not None else t["otherwise"], st2))
                continue
            if t["k"] == "switch" and t["discr"].get("k") in ("move", "copy") and not t["discr"]["p"][1] and t["discr"]["p"][0] in env:
                val = str(env[t["discr"]["p"][0]])
                tg = [x for vv, x in t["targets"] if vv == val]
                todo.append((tg[0] if tg else t["otherwise"], st2))
                continue
            todo.extend((x, st2) for x in f.succs(b))
        key = "finalize: %s bound is written back as Complete" % v
        if bypass is None:
            rep.ok("C04.occurs", key, None)
        else:
            rep.violation("C04.occurs", "finalize:writeback:" + v, "Type::finalize goes on to the next node without reassign_non_complete when the bound is %s: "
                          "the context keeps the old bound, so a later unification can contradict the type already handed out" % v, f.where())

def _calls_while_live(F, f, g, start, lockers, env_field=None):
    """Calls that can reach Context::lock made while guard local `g` (or closure env field) is live."""
    bad = []
    if start is None:
        return bad
    succ = f.succ_map()
    seen = set()
    stack = [start]
    while stack:
        b = stack.pop()
        if b in seen:
            continue
        seen.add(b)
        released = False
        # statements: the guard moved into a closure aggregate
        for s in f.blocks[b]["s"]:
            if s[0] == "=" and s[2].get("k") == "use" and s[2]["a"].get("k") == "move" and s[2]["a"]["p"][0] == g \
                    and not s[2]["a"]["p"][1] and not s[1][1]:
                bad += _calls_while_live(F, f, s[1][0], b, lockers)
                released = True
            if s[0] == "=" and s[2].get("k") == "agg" and s[2].get("agg") == "closure":
                for i, o in enumerate(s[2]["ops"]):
                    if o.get("k") == "move" and o["p"][0] == g and not o["p"][1]:
                        released = True
                        c = F.fns.get(s[2]["closure"])
                        if c is not None:
                            bad += _closure_live(F, c, i, lockers)
        t = f.blocks[b]["t"]
        if t["k"] == "drop" and t["p"][0] == g and not t["p"][1]:
            released = True
        if t["k"] == "call" and "path" in t["f"]:
            moved = any(a.get("k") == "move" and a["p"][0] == g and not a["p"][1] for a in t["args"])
            callee = t["f"].get("res") or t["f"]["path"]
            if moved:
                released = True
            elif not released:
                tg = _targets(F, t)
                hit = [x for x in tg if x in lockers]
                if hit:
                    bad.append(("%s:%s" % (f.file, t.get("line")), hit[0]))
        if not released:
            stack.extend(succ[b])
    return bad


def _closure_live(F, c, field_idx, lockers):
    """inside a closure that captured the guard by value as env field #field_idx"""
    bad = []
    succ = c.succ_map()
    seen = set()
    stack = [0]
    fld = ".%d" % field_idx
    aliases = set()
    while stack:
        b = stack.pop()
        if b in seen:
            continue
        seen.add(b)
        released = False
        for s in c.blocks[b]["s"]:
            if s[0] == "=" and s[2].get("k") == "use" and s[2]["a"].get("k") == "move" and s[2]["a"]["p"][0] == 1 \
                    and fld in s[2]["a"]["p"][1] and not s[1][1]:
                aliases.add(s[1][0])
        t = c.blocks[b]["t"]
        if t["k"] == "call" and "path" in t["f"]:
            moved = any(a.get("k") == "move" and ((a["p"][0] == 1 and fld in a["p"][1]) or (a["p"][0] in aliases and not a["p"][1]))
                        for a in t["args"])
            if moved:
                released = True
            else:
                hit = [x for x in _targets(F, t) if x in lockers]
                if hit:
                    bad.append(("%s:%s" % (c.file, t.get("line")), hit[0]))
        if t["k"] == "drop" and t["p"][0] == 1 and fld in t["p"][1]:
            released = True
        if not released:
            stack.extend(succ[b])
    return bad


def _targets(F, t):
    f = t["f"]
    tgt = f.get("res") or f.get("path")
    out = []
    if tgt in F.fns and (f.get("resolved") or not f.get("trait")):
        out.append(tgt)
    elif f.get("trait"):
        for h in F.impl_methods().get((f["trait"], f.get("name")), []):
            out.append(h.path)
        if tgt in F.fns:
            out.append(tgt)
    elif tgt in F.fns:
        out.append(tgt)
    return out
