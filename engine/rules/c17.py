"""C17 — the human-readable encoding round-trips: structural clauses (writer's alphabet ⊆ reader's).

Does not decide that the reparsed program has the same types/encoding (needs type inference to run).  Decides:
  C17.keywords  the text each Inner variant is rendered with (Display for Inner and the special cases of
                string_serialize, read from the format templates in MIR) is the token the parser maps back to
                that variant (logos #[token]/#[regex] table, parse_expr arms); payload literals are rendered in a
                form the literal parser accepts (0x/0b prefix, #cmr, ?hole)
  C17.literal   a literal CMR read by parse_cmr is carried to the assertion node that is built from it
  C17.types     every token class the type printer (Display for Final) can emit is accepted by parse_type*:
                1, 2, 2^k for every power of two the printer can produce, +, * (× is rewritten), parentheses and
                the postfix ?
  C17.names     every generated name (Namer prefixes + index, hole names, main) lexes as a single Symbol; generated
                names are checked against the names the program defines; the renderer prints every node a
                printed line refers to (iteration by identity, or by a sharing id that includes the name)
  C17.rec       parser recursion is reviewed (recursive descent with input-controlled depth: known finding)
"""
import os
import re
import facts as fm
import rec
import extract
from facts import Terms, enum_switches, calls_in, show, leaves
import vcc

HE = "simplicity::human_encoding::"
AST = HE + "parse::ast::"
TOKEN = AST + "Token"
SER = HE + "Forest::string_serialize"
SYMBOL_RE_EXPECTED_CLASS = r"[a-zA-Z_\-.'][0-9a-zA-Z_\-.']*"

FINISH = dict(level="other",
              explanation="Writer/reader table agreement for the human-readable encoding: format templates and string "
                          "constants of the renderer (from MIR) against the lexer's token table (logos attributes) and the "
                          "parser's arms (MIR), plus provenance of literal payloads and names, and a recursion review.",
              assumptions=["the logos-generated lexer implements the #[token]/#[regex] attributes as written",
                           "type inference reproduces the same types for the reparsed program (not decided)"])


# ------------------------------------------------------------------------------------------------
def token_table(F):
    """variant -> ('token'|'regex', string) read from the logos attributes in the source of enum Token."""
    a = F.adts.get(TOKEN)
    if a is None:
        return None
    path = os.path.join(extract.REPO, a["span"][0])
    if not os.path.exists(path):
        return None
    lines = open(path, encoding="utf-8").read().split("\n")
    i = a["span"][1] - 1
    # find the opening brace of the enum
    while i < len(lines) and "enum Token" not in lines[i]:
        i += 1
    table = {}
    pending = None
    depth = 0
    for ln in lines[i:]:
        s = ln.strip()
        depth += ln.count("{") - ln.count("}")
        m = re.match(r'#\[token\("((?:[^"\\]|\\.)*)"', s)
        if m:
            pending = ("token", m.group(1))
            continue
        m = re.match(r'#\[regex\(r"((?:[^"\\]|\\.)*)"', s)
        if m:
            pending = ("regex", m.group(1))
            continue
        m = re.match(r"([A-Z][A-Za-z0-9]*)\s*(\(.*\))?,", s)
        if m and pending:
            table[m.group(1)] = pending
            pending = None
        if depth <= 0 and "}" in ln and table:
            break
    return table


def decode_template(hexbytes):
    """format_args! template bytes -> list of ('lit', text) / ('arg',)"""
    b = bytes.fromhex(hexbytes)
    out = []
    i = 0
    while i < len(b):
        x = b[i]
        if x == 0:
            break
        if x >= 0x80:
            out.append(("arg",))
            i += 1
            # optional formatting spec bytes follow some markers; 0xc0 is the plain `{}`
            continue
        out.append(("lit", b[i + 1:i + 1 + x].decode("utf-8", "replace")))
        i += 1 + x
    return out


def templates_in(fn, blocks):
    """format templates used in the given blocks: list of (bb, pieces)."""
    out = []
    for b in fn.rpo():
        if b not in blocks:
            continue
        t = fn.blocks[b]["t"]
        if t["k"] == "call" and t["f"].get("name") in ("new", "new_const", "from_str") and "fmt::Arguments" in (t["f"].get("path") or ""):
            for a in t["args"][:1]:
                tm = None
                if a.get("k") == "const" and "bytes" in a:
                    tm = a
                elif a.get("k") in ("copy", "move"):
                    for (bb, i, kind, pl) in fn.defs().get(a["p"][0], []):
                        if kind == "assign":
                            rv = pl[2]
                            src = rv.get("a") if rv.get("k") in ("use", "cast") else None
                            if rv.get("k") == "ref":
                                for (b3, i3, k3, p3) in fn.defs().get(rv["p"][0], []):
                                    if k3 == "assign" and p3[2].get("k") == "use" and p3[2]["a"].get("k") == "const":
                                        src = p3[2]["a"]
                            if src and src.get("k") == "const" and ("bytes" in src or "str" in src):
                                tm = src
                if tm is not None:
                    if "str" in tm and t["f"].get("name") == "from_str":
                        out.append((b, [("lit", tm["str"])]))
                    else:
                        out.append((b, decode_template(tm["bytes"])))
    return out


def str_consts(fn, blocks=None):
    out = []
    for b in fn.rpo():
        if blocks is not None and b not in blocks:
            continue
        for s in fn.blocks[b]["s"]:
            if s[0] == "=":
                for o in _ops(s[2]):
                    if o.get("k") == "const" and "str" in o:
                        out.append(o["str"])
        t = fn.blocks[b]["t"]
        if t["k"] == "call":
            for o in t["args"]:
                if o.get("k") == "const" and "str" in o:
                    out.append(o["str"])
    return out


def _downcasts(t, out=None):
    """variant names a term is downcast to, outermost last"""
    if out is None:
        out = []
    if isinstance(t, tuple) and t:
        for x in t[1:]:
            if isinstance(x, tuple):
                if x and isinstance(x[0], tuple):
                    for y in x:
                        _downcasts(y, out)
                else:
                    _downcasts(x, out)
        if t[0] == "as":
            out.append(t[2])
    return out


def _token_consts(o):
    out = set()
    if o.get("k") == "const":
        if o.get("enum") == TOKEN:
            out.add(o["variant"])
        for e, v in o.get("nested", []):
            if e == TOKEN:
                out.add(v)
    return out


def _full(rx, text):
    try:
        return re.fullmatch(rx, text) is not None
    except re.error:
        return False


def _ops(rv):
    out = []
    for k in ("a", "b"):
        if isinstance(rv.get(k), dict):
            out.append(rv[k])
    out += rv.get("ops", [])
    return out




def _ascii_rx(rx):
    return not (re.search(r"\[\^|(?<!\\)\.", rx) or not all(ord(c) < 128 for c in rx))


def _ascii_subject(F, f, subj, toks, depth):
    """why the str `subj` (a term of function f) is ASCII-only text: the payload of a token whose pattern is ASCII, a slice
    of such text, or a parameter / captured variable of a private function that receives such text at every call site"""
    if depth > 4 or not isinstance(subj, tuple) or not subj:
        return None
    tokv = [t for t in _downcasts(subj) if t in toks]
    if tokv:
        return "the payload of Token::%s (`%s`)" % (tokv[-1], toks[tokv[-1]][1]) if _ascii_rx(toks[tokv[-1]][1]) else None
    t = subj
    while isinstance(t, tuple) and t and t[0] in ("ref", "deref", "cast") and isinstance(t[-1], tuple):
        t = t[-1]
    if t[0] == "call" and t[2] in ("index", "as_str", "as_ref", "deref", "trim_start_matches", "strip_prefix") and t[3]:
        return _ascii_subject(F, f, t[3][0], toks, depth + 1)
    if f.kind == "Closure" and t[0] == "field" and t[1][0] == "param" and t[1][1] == 1:
        env = fm.closure_env(F, f)
        i = f.path.rfind("::{closure#")
        parent = F.fns.get(f.path[:i])
        if parent is None or not t[2].isdigit() or int(t[2]) >= len(env):
            return None
        return _ascii_subject(F, parent, env[int(t[2])], toks, depth + 1)
    if t[0] == "param" and f.kind in ("Fn", "AssocFn") and f.vis != "pub":
        k = t[1]
        sites = [(g, cs) for g in F.fns.values() for cs in g.calls() if cs.callee == f.path]
        if not sites:
            return None
        whys = []
        for g, cs in sites:
            if len(cs.args) < k:
                return None
            w = _ascii_subject(F, g, Terms(g).operand(cs.args[k - 1]), toks, depth + 1)
            if not w:
                return None
            whys.append(w)
        return whys[0]
    return None


def resolve_arms(F, rep):
    """parse_inner turns each resolved expression (`ResolvedInner::V`) into a node: the arm for V builds `node::Inner::V` and no
    other combinator (an `assertr #cmr child` built as `AssertL(child, cmr)` exchanges the hidden side and the child)"""
    fs = [f for f in F.fns.values() if f.name == "parse_inner" and f.path.startswith("simplicity::human_encoding::parse")]
    if len(fs) != 1:
        rep.anchor("C17.resolve", "human_encoding::parse::parse_inner")
        return
    n = 0
    views = [F.inlined(fs[0], ("map", "zip"), depth=3)] + [F.inlined(c, (), depth=3) for c in F.closures_of(fs[0])]
    for f in views:
        for b, si in enum_switches(f, "ResolvedInner"):
            for v, tgt in si[2].items():
                if v not in vcc.VARIANTS and v not in ("AssertL", "AssertR"):
                    continue
                reg = f.dominated_by(tgt)
                built = set()
                for bb in reg:
                    for st in f.blocks[bb]["s"]:
                        if st[0] == "=" and st[2].get("k") == "agg" and st[2].get("agg") == "adt" and st[2].get("adt") == vcc.INNER:
                            built.add(st[2]["variant"])
                    for st in f.blocks[bb]["s"]:
                        if st[0] == "=" and st[2].get("k") == "agg" and st[2].get("agg") == "closure":
                            c = F.fns.get(st[2]["closure"])
                            for cb in (c.blocks if c else []):
                                for s2 in cb["s"]:
                                    if s2[0] == "=" and s2[2].get("k") == "agg" and s2[2].get("adt") == vcc.INNER:
                                        built.add(s2[2]["variant"])
                if not built:
                    continue
                n += 1
                key = "parse_inner: %s" % v
                if built == {v}:
                    rep.ok("C17.resolve", key, None)
                else:
                    rep.violation("C17.resolve", v, "the arm of parse_inner for a resolved `%s` builds node::Inner::%s: the reparsed program has another "
                                  "combinator there (for the assertions: hidden side and child exchanged)" % (v.lower(), sorted(built)), f.where())
    rep.floor("C17.resolve", n, 2)

def comment_lines(F, rep):
    """the lexer skips from `--` to the end of the line: a comment the printer writes without a terminating newline swallows
    whatever is printed next (a definition line disappears from the reparsed program)"""
    n = 0
    for f in sorted(F.fns.values(), key=lambda x: x.path):
        if not f.path.startswith("simplicity::human_encoding::") or f.path.startswith("simplicity::human_encoding::parse") \
                or "error" in f.path or f.name == "fmt":
            continue
        blocks = set(f.rpo())
        texts = list(str_consts(f))
        for _b, pieces in templates_in(f, blocks):
            lit = [p_[1] if p_[0] == "lit" else "\0" for p_ in pieces]
            texts.append("".join(lit))
        for tx in texts:
            if "--" not in tx:
                continue
            n += 1
            key = "%s: %r" % (fm.short(f.path), tx.replace("\0", "{}")[:40])
            # every `--` must be followed, later in the same text, by a newline
            tail = tx[tx.rindex("--"):]
            if "\n" in tail:
                rep.ok("C17.comment", key, None)
            else:
                rep.violation("C17.comment", "%s:%s" % (fm.short(f.path), tx.replace("\0", "{}").strip()[:30]),
                              "%s writes the comment %r without a newline after it: the lexer skips to the end of the line, so the text printed "
                              "next (a definition) is swallowed by the comment" % (f.path, tx.replace("\0", "{}")[:60]), f.where())
    rep.floor("C17.comment", n, 4)

def run(ctx, rep):
    F = ctx.facts("full")
    rep.rule("C17.keywords", "rendered keyword/payload of each combinator is what the lexer+parser map back to it")
    rep.rule("C17.literal", "a literal CMR is carried into the assertion node")
    rep.rule("C17.types", "every token the type printer emits is accepted by the type parser")
    rep.rule("C17.names", "generated names lex as symbols, cannot clash with user names, and every referenced node is printed")
    rep.rule("C17.rec", "parser recursion is reviewed")
    rep.rule("C17.resolve", "the node built from a resolved expression is the variant the expression names")
    resolve_arms(F, rep)
    rep.rule("C17.comment", "every `--` comment the printer writes ends its line")
    comment_lines(F, rep)
    rep.rule("C17.entropy", "the parser's length guards on a fail literal admit the 512 bits the printer writes")

    toks = token_table(F)
    if not toks:
        rep.anchor("C17.keywords", "logos token table of " + TOKEN)
        return FINISH
    rep.count("lexer_tokens", len(toks))
    tok_by_str = {s: v for v, (k, s) in toks.items() if k == "token"}
    regexes = {v: s for v, (k, s) in toks.items() if k == "regex"}

    # ---- Display for Inner: variant -> keyword
    disp = [f for f in F.fns.values() if f.impl_adt == vcc.INNER and f.impl_trait == "std::fmt::Display" and f.name == "fmt"]
    kw = {}
    if len(disp) != 1:
        rep.anchor("C17.keywords", "Display for Inner")
    else:
        f = disp[0]
        for b, si in enum_switches(f, "node::inner::Inner"):
            for v, tgt in si[2].items():
                reg = f.dominated_by(tgt)
                cs = str_consts(f, reg)
                tms = templates_in(f, reg)
                if cs:
                    kw[v] = cs[0]
                elif tms:
                    lits = [p[1] for p in tms[0][1] if p[0] == "lit"]
                    kw[v] = lits[0] if lits else ""

    # ---- string_serialize: special-cased renderings per variant
    ser = F.fn(SER)
    special = {}
    suffix = {}
    if ser is None:
        rep.anchor("C17.keywords", SER)
    else:
        Ts = Terms(ser)
        for b, si in enum_switches(ser, "node::inner::Inner"):
            for v, tgt in si[2].items():
                reg = ser.dominated_by(tgt)
                for (bb, pieces) in templates_in(ser, reg):
                    lits = "".join(p[1] if p[0] == "lit" else "\0" for p in pieces)
                    if " := " in lits and len(si[2]) >= 3:
                        special[v] = lits.split(" := ", 1)[1]
                    elif len(si[2]) <= 2 and v in ("Disconnect", "AssertL"):
                        suffix.setdefault(v, []).append(lits)
                for c in str_consts(ser, reg):
                    if len(si[2]) <= 2 and v in ("Disconnect", "AssertL"):
                        suffix.setdefault(v, []).append(c)

    # ---- the fail literal: the printer writes the whole FailEntropy (64 bytes = 512 bits, `fail 0x<128 hex digits>`); both
    # length guards of the parser (too little / too much entropy) must let exactly that length through
    pe0 = [f for f in F.fns.values() if f.path.startswith(AST + "parse_expr") and f.kind == "Fn"]
    if len(pe0) == 1:
        fe = F.inlined(pe0[0], ("parse_literal",))
        Te = Terms(fe)
        ent = F.adts.get("simplicity::FailEntropy") or next((a for p_, a in F.adts.items() if p_.endswith("::FailEntropy")), None)
        nbits = None
        if ent is not None:
            m_ = re.search(r"\[u8; (\d+)\]", ent["variants"][0]["fields"][0]["ty"]) if ent["variants"] and ent["variants"][0]["fields"] else None
            nbits = 8 * int(m_.group(1)) if m_ else None
        if nbits is None:
            rep.anchor("C17.entropy", "FailEntropy([u8; N])")
        else:
            idom = fe.idom()
            n_g = 0
            for b in fe.rpo():
                for st in fe.blocks[b]["s"]:
                    if not (st[0] == "=" and st[2].get("k") == "agg" and st[2].get("variant") in ("EntropyTooMuch", "EntropyInsufficient")
                            and str(st[2].get("adt", "")).endswith("human_encoding::error::Error")):
                        continue
                    x, sw = b, None
                    while x in idom and idom[x] != x and sw is None:
                        x = idom[x]
                        if fe.blocks[x]["t"]["k"] == "switch":
                            sw = x
                    if sw is None:
                        continue
                    t = fe.blocks[sw]["t"]
                    d = Te.operand(t["discr"])
                    neg = 0
                    while isinstance(d, tuple) and d[0] == "un" and d[1] == "Not":
                        neg += 1
                        d = d[2]
                    if not (isinstance(d, tuple) and d[0] == "bin" and d[1] in ("Lt", "Le", "Gt", "Ge", "Eq", "Ne") and d[3][0] == "int"):
                        rep.note("guard of Error::%s is not a comparison with a constant: not decided" % st[2]["variant"])
                        continue
                    c = d[3][1]
                    val = {"Lt": nbits < c, "Le": nbits <= c, "Gt": nbits > c, "Ge": nbits >= c, "Eq": nbits == c, "Ne": nbits != c}[d[1]]
                    if neg % 2:
                        val = not val
                    tg = [x_ for v_, x_ in t["targets"] if v_ == ("1" if val else "0")]
                    taken = tg[0] if tg else t["otherwise"]
                    n_g += 1
                    key = "fail literal: %s guard at %d bits" % (st[2]["variant"], nbits)
                    if b == taken or b in fe.dominated_by(taken):
                        rep.violation("C17.entropy", st[2]["variant"], "the parser rejects a fail literal of %d bits with Error::%s (guard `len %s %d`), but "
                                      "that is exactly what the printer writes for every fail node: rendered text does not parse again"
                                      % (nbits, st[2]["variant"], d[1], c), "%s:%s" % (fe.file, st[3] if len(st) > 3 else fe.line))
                    else:
                        rep.ok("C17.entropy", key, "len %s %d is false" % (d[1], c))
            rep.floor("C17.entropy", n_g, 2)
    # ---- parse_expr: Token variant -> Inner variant built
    pe = [f for f in F.fns.values() if f.path.startswith(AST + "parse_expr") and f.kind == "Fn"]
    built = {}
    if len(pe) != 1:
        rep.anchor("C17.keywords", "parse_expr")
    else:
        # per-token helpers (`parse_unary(p, pos, Inner::InjL)`, `parse_const_body`, `Expression::inline`) are spliced in
        f = F.inlined(pe[0], ("parse_expr", "parse_cmr", "parse_literal", "parse_type", "advance", "peek", "expect"), depth=3)
        Tk = Terms(f)
        for b, si in enum_switches(f, "parse::ast::Token"):
            for tv, tgt in si[2].items():
                reg = f.dominated_by(tgt)
                vs = set()
                for bb in reg:
                    for s in f.blocks[bb]["s"]:
                        if s[0] == "=" and s[2].get("k") == "agg" and s[2].get("agg") == "adt":
                            if s[2]["adt"] == vcc.INNER:
                                vs.add(s[2]["variant"])
                            elif s[2]["adt"].endswith("ast::ExprInner") and s[2]["variant"] in ("AssertL", "AssertR"):
                                vs.add(s[2]["variant"])
                    # a variant constructor handed over as a function value and applied to the parsed children
                    t_ = f.blocks[bb]["t"]
                    if t_["k"] == "call" and t_["f"].get("via_pointer"):
                        # already made a direct call of the constructor by Facts.inlined
                        m_ = re.search(r"node::inner::Inner(?:::<.*>)?::(\w+)$", t_["f"].get("path") or "")
                        if m_:
                            vs.add(m_.group(1))
                    if t_["k"] == "call" and "indirect" in t_["f"]:
                        ct = Tk.operand(t_["f"]["indirect"])
                        while isinstance(ct, tuple) and ct and ct[0] in ("cast", "ref", "deref") and isinstance(ct[-1], tuple):
                            ct = ct[-1]
                        if isinstance(ct, tuple) and ct and ct[0] == "fnitem" and isinstance(ct[1], str):
                            m_ = re.search(r"node::inner::Inner(?:::<.*>)?::(\w+)$", ct[1])
                            if m_:
                                vs.add(m_.group(1))
                if vs:
                    built.setdefault(tv, set()).update(vs)

    def accepts(text):
        """token variant that lexes exactly `text` (exact tokens first, then regexes)."""
        if text in tok_by_str:
            return tok_by_str[text]
        for v, rx in regexes.items():
            try:
                if re.fullmatch(rx, text):
                    return v
            except re.error:
                continue
        return None

    for v in vcc.VARIANTS:
        if v in special:
            text = special[v]
        elif v in kw:
            text = kw[v]
        else:
            rep.violation("C17.keywords", v + ":norender", "no rendering found for Inner::%s" % v, ser.where() if ser else None)
            continue
        head = re.split(r"[ \0]", text, 1)[0]
        rest = text[len(head):]
        sample = head
        if v == "Jet":
            sample = head + "x"  # "jet_" + a jet name
        tv = accepts(sample)
        if tv is None:
            rep.violation("C17.keywords", v, "Inner::%s is rendered as `%s…`, which is not a token of the lexer" % (v, head), ser.where() if ser else None)
            continue
        got = built.get(tv, set())
        if v not in got:
            rep.violation("C17.keywords", v, "Inner::%s is rendered as `%s`, lexed as Token::%s, which parse_expr turns into %s" % (v, head, tv, sorted(got) or "nothing"),
                          pe[0].where() if pe else None)
            continue
        # payload form
        if v in ("Fail", "Word"):
            lit_ok = False
            m = re.match(r" ?(0x|0b)?\0", rest)
            if m and m.group(1):
                lit_ok = True
            else:
                # the payload's own Display writes the prefix
                dty = {"Word": "simplicity::value::Word", "Fail": "simplicity::merkle::FailEntropy"}[v]
                df = F.fn("<%s as std::fmt::Display>::fmt" % dty)
                if df is not None:
                    cs = str_consts(df) + ["".join(p[1] for p in pieces if p[0] == "lit") for _, pieces in templates_in(df, set(df.rpo()))]
                    lit_ok = any(c.startswith(("0x", "0b")) for c in cs)
            if not lit_ok:
                rep.violation("C17.keywords", v + ":literal", "the payload of `%s` is printed without a 0x/0b prefix, but the parser reads it with parse_literal "
                              "(tokens %s)" % (head, sorted(x for x in regexes if "Literal" in x)), ser.where() if ser else None)
                continue
        if v == "AssertR" and not rest.startswith(" #"):
            rep.violation("C17.keywords", v + ":cmr", "assertr's CMR is printed as `%s`, expected `#<hex>`" % rest, ser.where())
            continue
        rep.ok("C17.keywords", v, "`%s` → Token::%s → Inner::%s" % (text.replace("\0", "{}"), tv, v))
    for v, want in (("AssertL", " #"), ("Disconnect", " ?")):
        if any(want in s for s in suffix.get(v, [])):
            rep.ok("C17.keywords", v + " suffix", "`%s…`" % want)
        else:
            rep.violation("C17.keywords", v + ":suffix", "%s's second operand is not printed with `%s`" % (v, want.strip()), ser.where() if ser else None)
    rep.floor("C17.keywords", rep.instances("C17.keywords"), 18)

    # ---- literal CMR carried through
    pc = F.fn(AST + "parse_cmr")
    okk = False
    if pc is None:
        rep.anchor("C17.literal", "parse_cmr")
    else:
        Tc = Terms(pc)
        for b in pc.rpo():
            for s in pc.blocks[b]["s"]:
                if s[0] == "=" and s[2].get("k") == "agg" and s[2].get("adt", "").endswith("AstCmr") and s[2]["variant"] == "Literal":
                    if s[2]["ops"]:
                        t = Tc.operand(s[2]["ops"][0])
                        if "CmrLiteral" in repr(t) or any(c[2] in ("parse", "from_str") for c in calls_in(t)):
                            okk = True
        if okk:
            rep.ok("C17.literal", "parse_cmr keeps the literal", None)
        else:
            rep.violation("C17.literal", "parse_cmr", "AstCmr::Literal is built without the value of the `#…` token: an assertion written with a literal "
                          "CMR (which is how the renderer prints every assertion) cannot be reconstructed", pc.where())
    conv = [f for f in F.fns.values() if f.path.startswith(HE + "parse::parse") and not f.path.startswith(AST)]
    if conv:
        n = 0
        for f in conv:
            Tp = Terms(f)
            env = fm.closure_env(F, f) if f.kind == "Closure" else []
            for b in f.rpo():
                for s in f.blocks[b]["s"]:
                    if s[0] == "=" and s[2].get("k") == "agg" and s[2].get("adt") == vcc.INNER and s[2]["variant"] in ("AssertL", "AssertR"):
                        idx = 1 if s[2]["variant"] == "AssertL" else 0
                        t = fm.subst_env(Tp.operand(s[2]["ops"][idx]), env)
                        if "Literal" in repr(t):
                            n += 1
        f = conv[0]
        if n >= 2:
            rep.ok("C17.literal", "parse: assertions built from ResolvedCmr::Literal", n)
        else:
            rep.violation("C17.literal", "parse:conversion", "no assertion node is built from a literal CMR (found %d of 2)" % n, f.where())
    else:
        rep.anchor("C17.literal", HE + "parse::parse")

    # ---- types
    fd = F.fn("<simplicity::types::final_data::Final as std::fmt::Display>::fmt")
    tparsers = [f for f in F.fns.values() if f.path.startswith(AST + "parse_type")]
    if fd is None or not tparsers:
        rep.anchor("C17.types", "Display for Final / parse_type*")
    else:
        emitted = set(c.strip() for c in str_consts(fd))
        for _, pieces in templates_in(fd, set(fd.rpo())):
            lit = "".join(p[1] if p[0] == "lit" else "{}" for p in pieces)
            emitted.add(lit.strip())
        emitted.discard("")
        handled = set()
        per_fn = {}
        for f in tparsers:
            mine = per_fn.setdefault(f.path, set())
            for b in f.rpo():
                for s in f.blocks[b]["s"]:
                    if s[0] == "=" and s[2].get("k") == "agg" and s[2].get("adt") == TOKEN:
                        mine.add(s[2]["variant"])
                    if s[0] == "=":
                        for o in _ops(s[2]):
                            mine.update(_token_consts(o))
                t = f.blocks[b]["t"]
                if t["k"] == "call":
                    for o in t["args"]:
                        mine.update(_token_consts(o))
                for bb, si in enum_switches(f, "parse::ast::Token"):
                    mine.update(si[2].keys())
            handled |= mine
        # precedence: the printer writes the postfix `?` directly after an atom (it parenthesises every binary
        # operand), so the reader must consume it per operand, not at the level of the binary-operator loop
        if "?" in emitted:
            lvl = [p for p, toks2 in per_fn.items() if "Question" in toks2]
            binlvl = [p for p in lvl if per_fn[p] & {"Plus", "Star"}]
            if lvl and not binlvl:
                rep.ok("C17.types", "postfix ? binds tighter than + and *", [fm.short(p) for p in lvl])
            elif binlvl:
                rep.violation("C17.types", "question-precedence", "the postfix `?` is consumed in %s, the same loop that handles `+`/`*`: "
                              "`A * B?` is read as `(A * B)?` although the printer means `A * (1 + B)`" % fm.short(binlvl[0]), F.fns[binlvl[0]].where())
            # repetition: the printer emits one un-parenthesised `?` per option node while walking the type, so
            # `1 + (1 + A)` is printed `A??`; the reader must accept the postfix repeatedly (a loop around the site
            # that consumes Token::Question, or a function that calls itself after consuming it)
            emit_in_loop = False
            Tfd = Terms(fd)
            for b in fd.rpo():
                t = fd.blocks[b]["t"]
                if t["k"] == "call" and t["f"].get("name") == "write_str" and any(Tfd.operand(o) == ("str", "?") or Tfd.operand(o)[:2] == ("str", "?") for o in t["args"]):
                    emit_in_loop = emit_in_loop or fd.in_loop(b)
            if emit_in_loop and lvl:
                rep_ok = False
                where = None
                for p in lvl:
                    pf = F.fns[p]
                    for b in pf.rpo():
                        t = pf.blocks[b]["t"]
                        sites = t["k"] == "call" and any("Question" in _token_consts(o) for o in t["args"])
                        for s in pf.blocks[b]["s"]:
                            if s[0] == "=" and any("Question" in _token_consts(o) for o in _ops(s[2])):
                                sites = True
                        if sites:
                            where = pf.where()
                            if pf.in_loop(b) or any((c.callee or "") == pf.path for c in pf.calls()):
                                rep_ok = True
                if rep_ok:
                    rep.ok("C17.types", "postfix ? is accepted repeatedly", None)
                else:
                    rep.violation("C17.types", "question-repeat", "the type printer writes one `?` per nested option (`1 + (1 + A)` is printed `A??`) "
                                  "but the parser consumes the postfix `?` at most once per operand", where)
        for e in sorted(emitted):
            txt = e.replace("×", "*")
            if e == "2^{}":
                tv = accepts("2^8")
                # the exponent domain: the printer emits 1 << n for every entry of Tmr::TWO_TWO_N
                pow2 = any(cs.name == "is_power_of_two" for f in tparsers for cs in f.calls())
                consts = set()
                for f in tparsers:
                    for b in f.rpo():
                        t = f.blocks[b]["t"]
                        if t["k"] == "switch":
                            consts.update(int(v) for v, _ in t["targets"] if v.isdigit())
                need = {1 << n for n in range(1, 32)}
                if tv in handled and (pow2 or need <= consts):
                    rep.ok("C17.types", "2^k", "Token::%s, every power of two accepted" % tv)
                else:
                    rep.violation("C17.types", "2^k", "the printer emits 2^k for k up to 2^31 but the parser accepts only %s" % sorted(consts & need), tparsers[0].where())
                continue
            tv = accepts(txt)
            if tv is None or tv not in handled:
                rep.violation("C17.types", "tok:" + e, "the type printer emits `%s` but parse_type* has no rule for it (token %s)" % (e, tv), fd.where())
            else:
                rep.ok("C17.types", "tok:" + e, "Token::" + tv)
        if "×" in "".join(emitted):
            # the renderer must rewrite × to the ASCII token
            if ser is not None and any(cs.name == "replace" for cs in ser.calls()):
                rep.ok("C17.types", "× rewritten to *", None)
            else:
                rep.violation("C17.types", "times", "the printer emits × and string_serialize does not rewrite it to `*`", ser.where() if ser else None)
        rep.floor("C17.types", rep.instances("C17.types"), 8)

    # ---- names
    sym = regexes.get("Symbol")
    if not sym:
        rep.anchor("C17.names", "Symbol token regex")
    else:
        an = [f for f in F.fns.values() if f.name == "assign_name" and "named_node::Namer" in f.path]
        if len(an) != 1:
            rep.anchor("C17.names", "Namer::assign_name")
        else:
            prefixes = sorted(set(str_consts(an[0])))
            bad = [p for p in prefixes if not re.fullmatch(sym, p + "1")]
            kwc = [p for p in prefixes if (p + "1") in tok_by_str]
            # the Symbol rule has the lowest priority: a generated name that another token rule matches in full (e.g. the jet
            # rule `jet_[a-z0-9_]+`) is lexed as that token, not as a name
            for p_ in prefixes:
                for idx in ("1", "23", "456"):
                    other = [v for v, rx in regexes.items() if v != "Symbol" and _full(rx, p_ + idx)]
                    if other and p_ not in kwc:
                        kwc.append(p_)
            if bad or kwc or not prefixes:
                rep.violation("C17.names", "prefixes", "generated name prefixes %s do not lex as one Symbol" % (bad + kwc), an[0].where())
            else:
                rep.ok("C17.names", "assign_name prefixes", prefixes)
        cdc = [f for f in F.fns.values() if f.name == "convert_disconnect" and "named_node::Namer" in (f.impl_self or "")]
        if len(cdc) != 1:
            rep.anchor("C17.names", "Namer::convert_disconnect")
        else:
            tms = templates_in(cdc[0], set(cdc[0].rpo()))
            okk = bool(tms)
            shown = []
            for _, pieces in tms:
                sample = "".join(p[1] if p[0] == "lit" else "7" for p in pieces)
                shown.append(sample)
                if not re.fullmatch(sym, sample):
                    okk = False
            if okk:
                rep.ok("C17.names", "hole names", shown)
            else:
                rep.violation("C17.names", "hole", "hole names such as %s do not lex as one Symbol: `?%s` cannot be parsed back" % (shown, shown[0] if shown else ""), cdc[0].where())
        # one name, one node: the parser turns the resolved expressions into nodes while iterating them by identity
        # (InternalSharing); with NoSharing an expression referred to twice becomes two nodes carrying the same name and
        # the renderer prints the name twice
        if conv:
            its = [cs for c in conv for cs in c.calls() if cs.name == "post_order_iter"]
            shar = sorted({a.rsplit("::", 1)[-1] for cs in its for a in cs.f.get("args", []) if "Sharing" in a})
            if not its:
                rep.anchor("C17.names", "post_order_iter in parse")
            elif any(x.startswith("NoSharing") for x in shar) or not shar:
                rep.violation("C17.names", "parse-sharing", "the parser converts resolved expressions iterating with %s: a named expression referred to more than once "
                              "becomes several nodes with one name, which the renderer prints as repeated definitions" % (shar or "?"), its[0].where())
            else:
                rep.ok("C17.names", "parser converts each named expression once", shar)
        # generated names are tested against the program's own names
        if conv:
            gen = [cs for c in conv for cs in c.calls() if cs.name == "assign_name"]
            chk = []
            for body in conv:
                Tb = Terms(body)
                for cs in body.calls():
                    if cs.name in ("contains_key", "contains", "get") and len(cs.args) >= 2:
                        if any(c[2] == "assign_name" for c in calls_in(Tb.operand(cs.args[1]))):
                            chk.append(cs)
            if gen and chk:
                rep.ok("C17.names", "generated names checked against user names", "%d generator site(s), %d lookup(s)" % (len(gen), len(chk)))
            elif gen:
                rep.violation("C17.names", "unique", "names generated for inline sub-expressions are never compared with the names the program defines: "
                              "`ut1 := iden` next to an inline `unit` yields two nodes called ut1", gen[0].where())
            else:
                rep.anchor("C17.names", "assign_name call in parse")
        # the renderer prints every node that a printed line refers to
        if ser is not None:
            its = [cs for cs in ser.calls() if cs.name == "post_order_iter"]
            if not its:
                rep.anchor("C17.names", "post_order_iter in string_serialize")
            else:
                ga = " ".join(its[0].f.get("args", []))
                if "InternalSharing" in ga or "NoSharing" in ga:
                    rep.ok("C17.names", "renderer iterates by node identity", ga[-60:])
                else:
                    sid = [f for f in F.fns.values() if f.name == "compute_sharing_id" and "Named<" in (f.impl_self or "")]
                    dep = False
                    for g in sid:
                        t = Terms(g).local(0)
                        if "'name'" in repr(t):
                            dep = True
                    if dep:
                        rep.ok("C17.names", "renderer's sharing id includes the name", None)
                    else:
                        rep.violation("C17.names", "renderer-sharing", "string_serialize iterates with %s, whose sharing id ignores node names: two equal "
                                      "sub-expressions with different names are printed once while their parents refer to both names" % ga[-80:], its[0].where())

    # ---- string slicing in the lexer/parser cannot split a character (termination: no panic on any input)
    rep.rule("C17.slice", "str slices in the lexer/parser are taken at lexer span boundaries or inside ASCII-only token payloads")
    n_sl = 0
    for f in F.fns.values():
        if not f.path.startswith(AST):
            continue
        T = None
        for cs in f.calls():
            if cs.name == "index" and "Index" in cs.callee and ("str" in cs.callee or "String" in cs.callee) and len(cs.args) == 2:
                T = T or Terms(f)
                subj, rng = T.operand(cs.args[0]), T.operand(cs.args[1])
                if not (rng[0] == "adt" and "Range" in rng[1]):
                    continue
                n_sl += 1
                key = "%s:%s" % (fm.short(f.path), show(rng)[:60])
                tokv = [t for t in _downcasts(subj) if t in toks]
                if not tokv:
                    # a private helper (or its closure) that is only ever handed ASCII token payloads
                    why = _ascii_subject(F, f, subj, toks, 0)
                    if why:
                        rep.ok("C17.slice", key, "every caller passes " + why)
                        continue
                if tokv:
                    rx = toks[tokv[-1]][1]
                    if re.search(r"\[\^|(?<!\\)\.", rx) or not all(ord(c) < 128 for c in rx):
                        rep.violation("C17.slice", key, "slices the payload of Token::%s whose pattern `%s` admits non-ASCII text" % (tokv[-1], rx), cs.where())
                    else:
                        rep.ok("C17.slice", key, "payload of Token::%s is ASCII (`%s`)" % (tokv[-1], rx))
                    continue
                # raw input: only unmodified lexer span boundaries
                bad = []
                for b in rng[4]:
                    ok_b = b[0] == "field" and b[2] in ("start", "end") and b[1][0] == "call" and b[1][2] == "span"
                    if not ok_b:
                        bad.append(show(b))
                if bad:
                    rep.violation("C17.slice", fm.short(f.path) + ":raw", "slices the raw input at %s, which need not be a character boundary: "
                                  "a multi-byte character makes the parser panic instead of returning an error" % bad, cs.where())
                else:
                    rep.ok("C17.slice", key, "raw input sliced at lexer span boundaries")
    rep.floor("C17.slice", n_sl, 7)

    # ---- recursion
    roots = [p for p in F.fns if p == HE + "Forest::parse"]
    comps, nreach, dropped = rec.classify(F, roots)
    n_known = 0
    for c in comps:
        if not any("human_encoding::parse" in m for m in c["members"]):
            continue
        if c["kind"] is None:
            rep.violation("C17.rec", "UNREVIEWED:" + c["sig"][:150], "unreviewed recursion reachable from Forest::parse: %s" % c["sig"], F.fns[c["members"][0]].where())
        elif c["kind"].startswith("input-depth"):
            n_known += 1
            key = "input-depth:" + ("expr" if "parse_expr" in c["sig"] else "type" if "parse_type" in c["sig"] else "reify" if "reify" in c["sig"] else "other")
            rep.violation("C17.rec", key, "%s: a deeply nested input overflows the stack instead of returning a result or an error list" % c["reason"],
                          F.fns[c["members"][0]].where())
        else:
            rep.ok("C17.rec", "scc:" + c["sig"][:100], c["reason"])
    return FINISH
