"""C13 — bit streams and natural numbers code exactly (clauses).

The property is numeric round-trip equality over every alignment and magnitude and is NOT decided.  Decided are the
clauses whose truth is in the shape of the two small state machines (cache byte, bits-in-byte counter, total counter):

  C13.bitorder  every single-bit selector of the reader and of the writers is most-significant-bit first, as a linear
                form over the machine's own counter: the k-th bit of a byte is `1 << (7 - k)` in BitIter::next,
                BitWriter::write_bit and io::Write::write; write_bits_be selects `1 << (len - 1 - i)` for i in 0..len
  C13.state     the per-byte counter and the total counter move together (+1 on a bit, +8 on a byte); the cache is
                used under `counter < 8` only; a refill stores the next byte and zeroes the counter; wherever the
                writer hands its cache byte to the underlying writer, cache and counter are both zero afterwards
                (write_bit's spill and flush_all are siblings); every BitIter / BitWriter literal starts the total at 0
                and pairs the counter with the cache it describes (8 with an empty cache, start % 8 with a fetched byte)
  C13.close     close() succeeds only if the byte iterator is exhausted and the *unread* bits of the cached byte are
                zero: the mask, a one-variable formula read off the MIR, is evaluated for each counter value 1..8 and
                must be exactly the bits the reader has not yet selected
  C13.u8        read_u8 splices the old cache shifted left by the counter with the new byte shifted right by 8 - counter
                (complementary amounts), stores the new byte as the cache and advances the total by 8
  C13.window    byte_slice_window slices bytes start/8 .. ceil(end/8) and starts the counter at start % 8
  C13.natural   encoder and decoder agree on the frame of the self-delimiting code: one 1 bit per level and a closing
                0 bit; the suffixes are written innermost first (LIFO) as (value, length) in that order; the decoder's
                accumulator starts from the implicit leading 1 and appends bits at the low end
Guards of read_natural (31-bit accumulator, bound test) are C02.bound.
"""
import pathval as pv
from pathval import PathEval, lin, show, subexprs

RD = "simplicity::bit_encoding::bititer::BitIter"
WR = "simplicity::bit_encoding::bitwriter::BitWriter"

FINISH = dict(level="other",
              explanation="Forward expression propagation along every acyclic path of the reader's and writer's primitives "
                          "(field-sensitive store over `self`), then rules over the resulting state updates, linear forms of "
                          "shift amounts and struct literals. Decides the structural clauses listed in the rule table, not the "
                          "numeric round trip.",
              assumptions=["arithmetic on the accumulated natural number and the recursion of the length prefix are not decided",
                           "Frame (bit_machine) primitives are outside this property's anchors"])

CMP = {"Lt", "Le", "Gt", "Ge", "Eq", "Ne"}


def evals(f):
    out = []
    for p in pv.paths(f):
        E = PathEval(f, p)
        if E.ret is None:
            continue
        out.append(E)
    return out


def conds(E):
    """[(expr, truth)] of the boolean branch conditions on the path"""
    out = []
    for ev in E.events:
        if ev[0] == "cond":
            out.append((ev[2], ev[3] != "0"))
    return out


def holds(E, pred):
    """is a condition matching pred(expr) -> 'pos'|'neg'|None taken in the matching polarity on the path?"""
    for e, truth in conds(E):
        r = pred(e)
        if r == "pos" and truth:
            return True
        if r == "neg" and not truth:
            return True
    return False


def selfparam(E):
    return E.pnames.get(1, "self")


def field(t):
    """name of the self field an expression is the entry value of"""
    if t[0] == "param" and t[2] and t[2][-1].startswith("."):
        return t[2][-1][1:]
    return None


def final(E, fld):
    return E.read((1, ("." + fld,)))


def unchanged(E, fld):
    t = final(E, fld)
    return t[0] == "param" and field(t) == fld


def calls(E, suffix):
    return [ev for ev in E.events if ev[0] == "call" and ev[2].endswith(suffix)]


def bit_selector(t):
    """(subject, shift) if t tests one bit of subject: Ne(BitAnd(subject, Shl(1, s)), 0) or BitAnd(Shr(subject, s), 1)[!= 0]"""
    if t[0] == "bin" and ((t[1] == "Ne" and t[3] == ("int", 0)) or (t[1] == "Eq" and t[3] == ("int", 1))):
        t = t[2]
    if t[0] == "call" and t[1].endswith("::bitand") and len(t[2]) == 2:
        t = ("bin", "BitAnd", t[2][0], t[2][1])
    if t[0] == "bin" and t[1] == "BitAnd":
        for a, b in ((t[2], t[3]), (t[3], t[2])):
            if b[0] == "bin" and b[1] == "Shl" and b[2] == ("int", 1):
                return (a, b[3])
            if b[0] == "bin" and b[1] == "Shr" and b[2] == ("int", 128):
                return (a, ("bin", "Sub", ("int", 7), b[3]))          # 0x80 >> s  ==  1 << (7 - s)
            if b == ("int", 1) and a[0] == "bin" and a[1] == "Shr":
                return (a[2], a[3])
    return None


def evalint(t, env):
    """value of a one-variable integer formula (8-bit wrap for the mask): the formula is data extracted from the MIR"""
    k = t[0]
    if k == "int":
        return t[1]
    if k == "param":
        f = field(t)
        if f in env:
            return env[f]
        raise ValueError(show(t))
    if k == "bin":
        a, b = evalint(t[2], env), evalint(t[3], env)
        op = t[1]
        if op == "Add":
            return a + b
        if op == "Sub":
            return a - b
        if op == "Mul":
            return a * b
        if op == "Shl":
            return a << b
        if op == "Shr":
            return a >> b
        if op == "BitAnd":
            return a & b
        if op == "BitOr":
            return a | b
        if op == "BitXor":
            return a ^ b
    if k == "un" and t[1] == "Not":
        return ~evalint(t[2], env) & 0xff
    if k == "call" and len(t[2]) == 2:
        a, b = evalint(t[2][0], env), evalint(t[2][1], env)
        nm = t[1]
        if nm.endswith("wrapping_sub") or nm.endswith("saturating_sub"):
            return max(a - b, 0) if nm.endswith("saturating_sub") else (a - b) & 0xff
        if nm.endswith("wrapping_shl"):
            return (a << (b % 8)) & 0xff
        if nm.endswith("wrapping_shr"):
            return a >> (b % 8)
    raise ValueError(show(t))


def run(ctx, rep):
    F = ctx.facts("full")
    rep.rule("C13.bitorder", "every bit selector of reader and writers is MSB-first as a linear form of the machine's counter")
    rep.rule("C13.state", "counters move together; refill / spill / flush reset the state; literals start consistent")
    rep.rule("C13.close", "close(): iterator exhausted and exactly the unread bits of the cached byte tested for zero")
    rep.rule("C13.u8", "read_u8 splices old cache << counter with new byte >> (8 - counter), total += 8")
    rep.rule("C13.window", "byte_slice_window: bytes start/8 .. ceil(end/8), counter = start % 8")
    rep.rule("C13.natural", "encoder/decoder agree on the frame of the natural-number code")

    def undecided(rule, what):
        rep.note("%s not decided on this tree: %s (shape not recognised; no verdict)" % (rule, what))
        rep.count("undecided_shapes")

    def one(path, what=None, inline=True):
        fs = [f for p, f in F.fns.items() if p == path]
        if len(fs) != 1:
            rep.anchor("C13.state", what or path)
            return None
        g = F.inlined(fs[0]) if inline else fs[0]          # private same-file helpers (an extracted `spill`, `refill`, ...) are spliced in
        return g

    # ------------------------------------------------------------------ reader: next
    nxt = one("<%s<I> as std::iter::Iterator>::next" % RD)
    roles_r = {}
    if nxt:
        E_bit = [E for E in evals(nxt) if E.ret[0] == "adt" and E.ret[2] == "Some"]
        E_rec = [E for E in evals(nxt) if E.ret[0] == "call" and E.ret[1] == nxt.path]
        rep.count("paths_reader_next", len(evals(nxt)))
        if len(E_bit) != 1 or not E_rec:
            undecided("C13.state", "BitIter::next: one bit-yielding path and a refill path (found %d / %d)" % (len(E_bit), len(E_rec)))
        else:
            E = E_bit[0]
            sel = bit_selector(E.ret[4][0])
            if not sel or field(sel[0]) is None:
                undecided("C13.bitorder", "BitIter::next yields %s" % show(E.ret)[:120])
            else:
                C = field(sel[0])
                a, c = lin(sel[1])
                ctrs = [field(k) for k in a if field(k)]
                if len(a) == 1 and len(ctrs) == 1 and list(a.values()) == [-1] and c == 7:
                    X = ctrs[0]
                    roles_r = {"C": C, "X": X}
                    rep.ok("C13.bitorder", "reader: bit k of a byte is 1 << (7 - k)", show(sel[1]))
                else:
                    rep.violation("C13.bitorder", "reader:selector", "BitIter::next selects bit `1 << (%s)`: as a function of the bits already read from "
                                  "this byte (k) this is not 7 - k, so bytes are not read most significant bit first" % show(sel[1]), nxt.where())
                    X = ctrs[0] if ctrs else None
                    roles_r = {"C": C, "X": X}
                X = roles_r.get("X")
                if X:
                    # guard: the cache is used under X < 8
                    if holds(E, lambda e: "pos" if (e[0] == "bin" and e[1] == "Lt" and field(e[2]) == X and e[3] == ("int", 8)) else
                             ("neg" if (e[0] == "bin" and e[1] in ("Ge",) and field(e[2]) == X and e[3] == ("int", 8)) else
                              ("neg" if (e[0] == "bin" and e[1] == "Eq" and field(e[2]) == X and e[3] == ("int", 8)) else None))):
                        rep.ok("C13.state", "reader: a bit is taken from the cache only while fewer than 8 were taken", None)
                    else:
                        rep.violation("C13.state", "reader:guard", "BitIter::next takes a bit from the cache on a path not guarded by `%s < 8` (conditions: %s)"
                                      % (X, [(show(e), t) for e, t in conds(E)]), nxt.where())
                    # counters +1 each
                    tot = [f2 for f2 in _fields_written(E) if f2 not in (X, C)]
                    okc = lin(final(E, X)) == ({("param", selfparam(E), (".%s" % X,)): 1}, 1)
                    if okc and len(tot) == 1 and lin(final(E, tot[0])) == ({("param", selfparam(E), (".%s" % tot[0],)): 1}, 1) and unchanged(E, C):
                        roles_r["T"] = tot[0]
                        rep.ok("C13.state", "reader: counter and total advance by one per bit, cache untouched", None)
                    else:
                        rep.violation("C13.state", "reader:advance", "on the bit path BitIter::next leaves %s=%s, other fields written: %s; expected the per-byte "
                                      "counter and the total each advanced by exactly 1 and the cache untouched"
                                      % (X, show(final(E, X)), {f2: show(final(E, f2)) for f2 in tot}), nxt.where())
                    # refill
                    for Er in E_rec:
                        newc = final(Er, C)
                        from_iter = any(s[0] == "call" and s[1].endswith("::next") and s[1] != nxt.path for s in subexprs(newc))
                        if from_iter and final(Er, X) == ("int", 0) and all(unchanged(Er, f2) for f2 in tot):
                            rep.ok("C13.state", "reader: refill stores the next byte, zeroes the counter, leaves the total", None)
                        else:
                            rep.violation("C13.state", "reader:refill", "the refill path of BitIter::next ends with cache=%s, %s=%s: expected the next byte "
                                          "of the byte iterator and a zero counter" % (show(newc), X, show(final(Er, X))), nxt.where())

    # ------------------------------------------------------------------ writer: write_bit
    wb = one("%s::<W>::write_bit" % WR)
    roles_w = {}
    if wb:
        Es = evals(wb)
        rep.count("paths_writer_write_bit", len(Es))
        E_set = [E for E in Es if E.ret[0] == "adt" and E.ret[2] == "Ok" and any(ev[0] == "store" and ev[3][0] == "bin" and ev[3][1] == "BitOr" for ev in E.events)]
        E_ok = [E for E in Es if E.ret[0] == "adt" and E.ret[2] == "Ok"]
        E_rec = [E for E in Es if E.ret[0] == "call" and E.ret[1] == wb.path]
        if len(E_set) != 1 or len(E_ok) != 2 or not E_rec:
            undecided("C13.state", "BitWriter::write_bit: set-bit path, clear-bit path and spill path (found %d / %d / %d)" % (len(E_set), len(E_ok), len(E_rec)))
        else:
            E = E_set[0]
            st = [ev for ev in E.events if ev[0] == "store" and ev[3][0] == "bin" and ev[3][1] == "BitOr"][0]
            C = st[2][1][-1][1:]
            t = st[3]
            sh = None
            for a, b in ((t[2], t[3]), (t[3], t[2])):
                if field(a) == C and b[0] == "bin" and b[1] == "Shl" and b[2] == ("int", 1):
                    sh = b[3]
                if field(a) == C and b[0] == "bin" and b[1] == "Shr" and b[2] == ("int", 128):
                    sh = ("bin", "Sub", ("int", 7), b[3])
            if sh is None:
                undecided("C13.bitorder", "BitWriter::write_bit stores %s" % show(t)[:120])
            else:
                a, c = lin(sh)
                ctrs = [field(k) for k in a if field(k)]
                X = ctrs[0] if len(ctrs) == 1 else None
                roles_w = {"C": C, "X": X}
                if len(a) == 1 and X and list(a.values()) == [-1] and c == 7:
                    rep.ok("C13.bitorder", "writer: bit k of a byte is 1 << (7 - k)", show(sh))
                else:
                    rep.violation("C13.bitorder", "writer:selector", "BitWriter::write_bit sets bit `1 << (%s)`: as a function of the bits already in the "
                                  "cache (k) this is not 7 - k, so bytes are not filled most significant bit first" % show(sh), wb.where())
            X = roles_w.get("X")
            if X:
                for E in E_ok:
                    tot = [f2 for f2 in _fields_written(E) if f2 not in (X, C)]
                    guarded = holds(E, lambda e: "pos" if (e[0] == "bin" and e[1] == "Lt" and field(e[2]) == X and e[3] == ("int", 8)) else
                                    ("neg" if (e[0] == "bin" and e[1] in ("Ge", "Eq") and field(e[2]) == X and e[3] == ("int", 8)) else None))
                    adv = lin(final(E, X)) == ({("param", selfparam(E), (".%s" % X,)): 1}, 1) and len(tot) == 1 and \
                        lin(final(E, tot[0])) == ({("param", selfparam(E), (".%s" % tot[0],)): 1}, 1)
                    if adv:
                        roles_w["T"] = tot[0]
                    clear_ok = E is E_set[0] or unchanged(E, C)
                    if guarded and adv and clear_ok:
                        rep.ok("C13.state", "writer: bit path guarded by counter < 8, counter and total advance by one", None)
                    else:
                        rep.violation("C13.state", "writer:advance", "a bit path of BitWriter::write_bit: guarded by `%s < 8`: %s; %s=%s; other fields: %s; a 0 bit "
                                      "leaves the cache: %s" % (X, guarded, X, show(final(E, X)), {f2: show(final(E, f2)) for f2 in tot}, clear_ok), wb.where())
                b_name = E_rec[0].pnames.get(2, "b")
                for E in E_rec:
                    _spill_rule(rep, E, wb, C, X, "write_bit")
                    rec = [ev for ev in E.events if ev[0] == "call" and ev[2] == wb.path][-1]
                    if len(rec[3]) == 2 and rec[3][1] == ("param", b_name, ()):
                        rep.ok("C13.state", "writer: after the spill the same bit is written", None)
                    else:
                        rep.violation("C13.state", "writer:spill-bit", "after writing out the full cache write_bit continues with %s instead of the bit it was given"
                                      % (show(rec[3][1]) if len(rec[3]) == 2 else "?"), wb.where())
                    if roles_w.get("T") and not unchanged(E, roles_w["T"]):
                        rep.violation("C13.state", "writer:spill-total", "the spill path changes the total counter itself (%s); the recursive call counts the bit"
                                      % show(final(E, roles_w["T"])), wb.where())
        # flush_all: sibling of the spill
        fl = one("%s::<W>::flush_all" % WR)
        if fl and roles_w.get("X"):
            n = 0
            for E in evals(fl):
                if not ((E.ret[0] == "call" and E.ret[1].endswith("::flush")) or (E.ret[0] == "adt" and E.ret[2] == "Ok")):
                    continue
                if calls(E, "::write_all"):
                    n += 1
                    _spill_rule(rep, E, fl, roles_w["C"], roles_w["X"], "flush_all")
                else:
                    X = roles_w["X"]
                    if not holds(E, lambda e: "neg" if (e[0] == "bin" and e[1] in ("Gt", "Ne") and field(e[2]) == X and e[3] == ("int", 0)) else
                                 ("pos" if (e[0] == "bin" and e[1] == "Eq" and field(e[2]) == X and e[3] == ("int", 0)) else None)):
                        if E.ret[0] == "call" and E.ret[1].endswith("::flush") or (E.ret[0] == "adt" and E.ret[2] == "Ok"):
                            rep.violation("C13.state", "flush_all:skip", "flush_all has a path that neither writes the cache out nor has established that it is empty "
                                          "(conditions: %s)" % [(show(e), t) for e, t in conds(E)], fl.where())
            if n == 0:
                undecided("C13.state", "flush_all: a path that writes the cache out")

    # ------------------------------------------------------------------ writers: write, write_bits_be
    for path, key, want in (("<%s<W> as std::io::Write>::write" % WR, "write", "byte"), ("%s::<W>::write_bits_be" % WR, "write_bits_be", "len")):
        f = one(path)
        if not f or not wb:
            continue
        found = False
        for E in evals(f):
            for ev in calls(E, "::write_bit"):
                if ev[2] != wb.path or len(ev[3]) != 2:
                    continue
                sel = bit_selector(ev[3][1])
                if not sel:
                    undecided("C13.bitorder", "%s hands write_bit %s" % (key, show(ev[3][1])[:120]))
                    found = True
                    continue
                a, c = lin(sel[1])
                loopv = [k for k in a if any(s[0] == "call" and s[1].endswith("::next") for s in subexprs(k))]
                rng = _range_of(E)
                if want == "byte":
                    good = len(a) == 1 and len(loopv) == 1 and a[loopv[0]] == -1 and c == 7 and rng == (("int", 0), ("int", 8))
                    exp = "1 << (7 - i) for i in 0..8"
                else:
                    lenp = [k for k in a if k[0] == "param" and not k[2] and k[1] != selfparam(E)]
                    good = len(a) == 2 and len(loopv) == 1 and a[loopv[0]] == -1 and len(lenp) == 1 and a[lenp[0]] == 1 and c == -1 and \
                        rng is not None and rng[0] == ("int", 0) and rng[1] == lenp[0] and \
                        any(ev2[0] == "call" for ev2 in E.events)
                    exp = "1 << (len - 1 - i) for i in 0..len"
                rev = any(ev2[0] == "call" and ev2[2].endswith("::rev") for ev2 in E.events)
                if not good and rev and len(loopv) == 1 and a.get(loopv[0]) == 1 and c == 0 and len(a) == 1:
                    good = True          # `1 << i` for i of (0..len).rev(): the same bits in the same order
                if not good and (rng is None or rev):
                    undecided("C13.bitorder", "%s selects 1 << (%s) over an iterator that is not a plain range" % (key, show(sel[1])[:80]))
                    found = True
                    continue
                if good and not found:
                    rep.ok("C13.bitorder", "%s: %s" % (key, exp), show(sel[1]))
                elif not good:
                    rep.violation("C13.bitorder", key + ":selector", "%s selects `1 << (%s)` over the range %s; most-significant-first order needs %s"
                                  % (key, show(sel[1]), [show(x) for x in rng] if rng else "?", exp), f.where())
                found = True
        if not found:
            undecided("C13.bitorder", "%s: a call of write_bit with a selected bit" % key)

    # ------------------------------------------------------------------ literals
    nlit = 0
    for f in F.fns.values():
        if f.crate != "simplicity":
            continue
        for b in f.rpo():
            for s in f.blocks[b]["s"]:
                if s[0] == "=" and s[2]["k"] == "agg" and s[2].get("agg") == "adt" and s[2].get("adt") in (RD, WR):
                    nlit += 1
    rep.count("state_machine_literals", nlit)
    if roles_r.get("X") and roles_r.get("T"):
        C, X, T = roles_r["C"], roles_r["X"], roles_r["T"]
        n = 0
        for f in F.fns.values():
            if f.crate != "simplicity" or not _has_lit(f, RD):
                continue
            for E in evals(f):
                for ev in E.events:
                    if ev[0] == "store" and ev[3][0] == "adt" and ev[3][1] == RD:
                        d = dict(zip(ev[3][3], ev[3][4]))
                        if all(any(field(x) == fl or (x[0] == "ref" and x[1][1][-1:] == ("." + fl,)) for x in subexprs(v)) for fl, v in d.items()):
                            continue          # field-by-field copy of an existing reader (derived Clone)
                        n += 1
                        key = "literal:%s" % f.path.rsplit("::", 2)[-2].split("<")[0] + "::" + f.name
                        if d.get(T) != ("int", 0):
                            rep.violation("C13.state", key + ":total", "a BitIter is built in %s with %s = %s: the position counter must start at 0"
                                          % (f.path, T, show(d.get(T, ("unk", "?")))), f.where())
                        elif d.get(X) == ("int", 8) and d.get(C) == ("int", 0):
                            rep.ok("C13.state", key + " (empty cache, counter 8)", None)
                        elif d.get(X) is not None and d[X][0] == "bin" and d[X][1] == "Rem" and d[X][3] == ("int", 8) and \
                                any(s[0] == "call" and s[1].endswith("::next") for s in subexprs(d.get(C, ("unk", "")))) and \
                                holds(E, lambda e: "neg" if (e[0] == "bin" and e[1] == "Eq" and e[2] == d[X] and e[3] == ("int", 0)) else
                                      ("pos" if (e[0] == "bin" and e[1] in ("Ne", "Gt") and e[2] == d[X] and e[3] == ("int", 0)) else None)):
                            rep.ok("C13.state", key + " (fetched byte, counter start % 8 != 0)", None)
                        else:
                            rep.violation("C13.state", key + ":pair", "a BitIter is built in %s with cache=%s and %s=%s: expected an empty cache with the counter at 8, "
                                          "or a fetched byte with a non-zero `start %% 8`" % (f.path, show(d.get(C, ("unk", "?"))), X, show(d.get(X, ("unk", "?")))), f.where())
        rep.floor("C13.state(reader literals)", n, 1)
    if roles_w.get("X") and roles_w.get("T"):
        n = 0
        for f in F.fns.values():
            if f.crate != "simplicity" or not _has_lit(f, WR):
                continue
            for E in evals(f):
                for ev in E.events:
                    if ev[0] == "store" and ev[3][0] == "adt" and ev[3][1] == WR:
                        d = dict(zip(ev[3][3], ev[3][4]))
                        n += 1
                        bad = [k for k in (roles_w["C"], roles_w["X"], roles_w["T"]) if d.get(k) != ("int", 0)]
                        if bad:
                            rep.violation("C13.state", "literal:writer:" + f.name, "a BitWriter is built in %s with non-zero %s" % (f.path, bad), f.where())
                        else:
                            rep.ok("C13.state", "literal BitWriter in %s starts empty" % f.name, None)
        rep.floor("C13.state(writer literals)", n, 1)

    # ------------------------------------------------------------------ close
    cl = one("%s::<I>::close" % RD)
    if cl and roles_r.get("X"):
        C, X = roles_r["C"], roles_r["X"]
        oks = [E for E in evals(cl) if E.ret[0] == "adt" and E.ret[2] == "Ok"]
        if not oks:
            undecided("C13.close", "BitIter::close: a path returning Ok")
        for E in oks:
            exhausted = any(e[0] == "discr" and any(s[0] == "call" and s[1].endswith("::next") for s in subexprs(e)) and not truth or
                            (e[0] == "discr" and any(s[0] == "call" and s[1].endswith("::next") for s in subexprs(e)) and str(_val(E, e)) in ("0", "else"))
                            for e, truth in conds(E))
            nxt_calls = calls(E, "::next")
            if not nxt_calls:
                rep.violation("C13.close", "trailing", "close() returns Ok on a path that never asks the byte iterator for a further byte", cl.where())
            else:
                took_none = any(ev[0] == "cond" and ev[2][0] == "discr" and ev[3] in ("0", "else", "None") and
                                any(s[0] == "call" and s[1].endswith("::next") for s in subexprs(ev[2])) for ev in E.events)
                if took_none:
                    rep.ok("C13.close", "Ok only when the byte iterator is exhausted", None)
                else:
                    rep.violation("C13.close", "trailing", "close() returns Ok although the byte iterator yielded another byte", cl.where())
            mask = None
            for e, truth in conds(E):
                if e[0] == "bin" and e[1] in ("Ne", "Eq") and e[3] == ("int", 0) and e[2][0] == "bin" and e[2][1] == "BitAnd":
                    if (e[1] == "Ne") == truth:
                        continue
                    for a, b in ((e[2][2], e[2][3]), (e[2][3], e[2][2])):
                        if field(a) == C:
                            mask = b
            if mask is None:
                rep.violation("C13.close", "mask:none", "close() returns Ok on a path that does not test the cached byte against a mask", cl.where())
                continue
            bad = []
            for r in range(1, 9):
                try:
                    m = evalint(mask, {X: r}) & 0xff
                except ValueError as ex:
                    bad = ["formula not understood: %s" % ex]
                    break
                want = (1 << (8 - r)) - 1
                if m != want:
                    bad.append("after %d bits of the byte the mask is 0x%02x, the unread bits are 0x%02x" % (r, m, want))
            if bad:
                rep.violation("C13.close", "mask", "close() tests `cache & (%s)`: %s" % (show(mask), "; ".join(bad[:3])), cl.where())
            else:
                rep.ok("C13.close", "mask = exactly the unread bits, for each of the 8 counter values", show(mask))

    # ------------------------------------------------------------------ read_u8
    r8 = one("%s::<I>::read_u8" % RD)
    if r8 and roles_r.get("T"):
        C, X, T = roles_r["C"], roles_r["X"], roles_r["T"]
        oks = [E for E in evals(r8) if E.ret[0] == "adt" and E.ret[2] == "Ok"]
        if not oks:
            undecided("C13.u8", "read_u8: a path returning Ok")
        for E in oks[:1] if len({show(E.ret) for E in oks}) == 1 else oks:
            val = E.ret[4][0]
            shl = shr = None
            for s in subexprs(val):
                if s[0] == "bin" and s[1] == "Shl" or (s[0] == "call" and s[1].endswith("_shl")):
                    args = (s[2], s[3]) if s[0] == "bin" else s[2]
                    shl = (args[0], args[1])
                if s[0] == "bin" and s[1] == "Shr" or (s[0] == "call" and s[1].endswith("_shr")):
                    args = (s[2], s[3]) if s[0] == "bin" else s[2]
                    shr = (args[0], args[1])
            newc = final(E, C)
            from_iter = any(s[0] == "call" and s[1].endswith("::next") for s in subexprs(newc))
            pX = ("param", selfparam(E), (".%s" % X,))
            good = shl and shr and field(shl[0]) == C and lin(shl[1]) == ({pX: 1}, 0) and \
                lin(shr[1]) == ({pX: -1}, 8) and from_iter and _same_origin(shr[0], newc)
            if good:
                rep.ok("C13.u8", "old cache << counter spliced with new byte >> (8 - counter)", show(val))
            else:
                rep.violation("C13.u8", "splice", "read_u8 returns %s with the cache left as %s: expected (old cache << %s) combined with (the byte just fetched >> (8 - %s))"
                              % (show(val), show(newc), X, X), r8.where())
            if lin(final(E, T)) == ({("param", selfparam(E), (".%s" % T,)): 1}, 8) and unchanged(E, X):
                rep.ok("C13.u8", "total advances by 8, per-byte counter unchanged", None)
            else:
                rep.violation("C13.u8", "advance", "read_u8 leaves %s=%s and %s=%s: a byte read advances the total by 8 and keeps the position inside the byte"
                              % (T, show(final(E, T)), X, show(final(E, X))), r8.where())

    # ------------------------------------------------------------------ window
    win = [f for p, f in F.fns.items() if p.startswith(RD) and f.name == "byte_slice_window"]
    if len(win) != 1:
        rep.anchor("C13.window", "BitIter::byte_slice_window")
    else:
        w = win[0]
        names = w.param_names() if hasattr(w, "param_names") else []
        done = False
        for E in evals(w):
            for ev in E.events:
                if ev[0] == "call" and "::index" in ev[2] and len(ev[3]) == 2 and ev[3][1][0] == "adt" and ev[3][1][1].endswith("Range") and not done:
                    done = True
                    d = dict(zip(ev[3][1][3], ev[3][1][4]))
                    st, en = d.get("start"), d.get("end")
                    ps = [k for k in E.pnames.values()]
                    ok_s = st is not None and st[0] == "bin" and st[1] == "Div" and st[3] == ("int", 8) and st[2][0] == "param" and not st[2][2]
                    ok_e = en is not None and ((en[0] == "call" and en[1].endswith("div_ceil") and en[2][1] == ("int", 8) and en[2][0][0] == "param") or
                                               (en[0] == "bin" and en[1] == "Div" and en[3] == ("int", 8) and lin(en[2])[1] == 7 and len(lin(en[2])[0]) == 1))
                    distinct = ok_s and ok_e and st[2] != (en[2][0] if en[0] == "call" else list(lin(en[2])[0])[0])
                    if ok_s and ok_e and distinct:
                        rep.ok("C13.window", "bytes start/8 .. ceil(end/8)", [show(st), show(en)])
                    else:
                        rep.violation("C13.window", "slice", "byte_slice_window slices %s .. %s; the bytes holding bits start..end are start/8 .. ceil(end/8)"
                                      % (show(st) if st else "?", show(en) if en else "?"), w.where())
        if not done:
            undecided("C13.window", "byte_slice_window: the byte sub-slice")

    # ------------------------------------------------------------------ naturals
    enc = one("simplicity::bit_encoding::encode::encode_natural", inline=False)
    if enc:
        n_ok = 0
        for E in evals(enc):
            lastc = None
            for ev in E.events:
                if ev[0] == "cond" and ev[2][0] == "bin" and ev[2][1] in ("Eq", "Ne") and ev[2][3] == ("int", 0) and ev[2][2][0] == "call" \
                        and "bit_len" in ev[2][2][1]:
                    lastc = (ev[2][1] == "Eq") == (ev[3] != "0")          # True: the remaining length is zero
                elif ev[0] == "call" and ev[2].endswith("::write_bit") and lastc is not None:
                    bit = ev[3][1] if len(ev[3]) == 2 else None
                    want = ("int", 0) if lastc else ("int", 1)
                    if bit == want:
                        n_ok += 1
                    else:
                        rep.violation("C13.natural", "prefix", "encode_natural writes the prefix bit %s where the remaining length is %s zero: the decoder counts 1 bits "
                                      "up to a closing 0" % (show(bit) if bit else "?", "" if lastc else "not"), enc.where())
                    lastc = None
        if n_ok:
            rep.ok("C13.natural", "prefix: 1 per level, closing 0", n_ok)
        else:
            undecided("C13.natural", "encode_natural: prefix bits decided by the truncated bit length")
        # no narrowing cast of the number (or of a length derived from it) anywhere in the encoder: "larger numbers are rejected,
        # not truncated" -- a number cut to 32 bits encodes as n mod 2^32 and decodes to a different number
        W = {"u8": 8, "i8": 8, "u16": 16, "i16": 16, "u32": 32, "i32": 32, "u64": 64, "i64": 64, "usize": 64, "isize": 64, "u128": 128, "i128": 128}
        ncast = 0
        for g in [enc] + [h for q, h in F.fns.items() if q.startswith(enc.path + "::")]:
            for b in g.rpo():
                for st in g.blocks[b]["s"]:
                    if st[0] == "=" and st[2]["k"] == "cast" and st[2].get("cast") == "IntToInt" and st[2]["a"]["k"] in ("copy", "move"):
                        src = g.locals[st[2]["a"]["p"][0]] if not st[2]["a"]["p"][1] else None
                        src = src if isinstance(src, str) else (src or {}).get("ty") if isinstance(src, dict) else None
                        dst = st[2]["ty"]
                        if src in W and dst in W:
                            ncast += 1
                            if W[dst] < W[src]:
                                rep.violation("C13.natural", "narrowing:%s->%s" % (src, dst), "%s casts a %s to %s: a number (or length) that does not fit is "
                                              "silently truncated and encodes as a different number instead of being rejected" % (g.path.rsplit("::", 1)[-1], src, dst),
                                              "%s:%s" % (g.file, st[3]))
        if ncast:
            rep.ok("C13.natural", "no narrowing integer cast in the encoder", ncast)
        pops = [cs for cs in enc.calls() if cs.name == "pop" and "Vec" in cs.callee]
        fwd = [cs for cs in enc.calls() if cs.name in ("into_iter", "iter", "drain", "remove") and "Vec" in (cs.callee + str(cs.f.get("args")))]
        wbe = []
        for E in evals(enc):
            for ev in calls(E, "::write_bits_be"):
                wbe.append((E, ev))
        revd = [cs for cs in enc.calls() if cs.name == "rev"]
        if not pops and revd and wbe:
            rep.ok("C13.natural", "suffixes written innermost first (reversed iteration)", None)
        elif pops and not fwd and wbe:
            E, ev = wbe[0]
            a1, a2 = ev[3][1], ev[3][2]
            if str(a1).count("'.0'") and a1[0] == "proj" and a1[2] == ".0" and a2[0] == "proj" and a2[2] == ".1" and a1[1] == a2[1]:
                rep.ok("C13.natural", "suffixes written innermost first (Vec::pop) as (value, length)", None)
            else:
                rep.violation("C13.natural", "suffix-args", "encode_natural calls write_bits_be(%s, %s): expected the popped pair's value then its length" % (show(a1), show(a2)), enc.where())
        else:
            rep.violation("C13.natural", "suffix-order", "encode_natural does not take its suffixes with Vec::pop (last level first): pop=%d other=%s write_bits_be=%d"
                          % (len(pops), [c.name for c in fwd], len(wbe)), enc.where())
    rn = [f for p, f in F.fns.items() if p.startswith(RD) and f.name == "read_natural"]
    if len(rn) != 1:
        rep.anchor("C13.natural", "BitIter::read_natural")
    else:
        f = rn[0]
        defs = {}
        for b in f.rpo():
            for st in f.blocks[b]["s"]:
                if st[0] == "=" and not st[1][1]:
                    defs.setdefault(st[1][0], []).append(("s", st[2]))
            t = f.blocks[b]["t"]
            if t["k"] == "call" and not t["dest"][1]:
                defs.setdefault(t["dest"][0], []).append(("c", t))

        def one_def(o):
            if o["k"] in ("copy", "move"):
                ds = defs.get(o["p"][0], [])
                if len(ds) == 1:
                    return ds[0], o["p"][1]
            return None, None

        def chase(o, depth=0):
            """follow plain copies/moves and `.0` of an overflow tuple to the defining rvalue / call"""
            while depth < 8 and o["k"] in ("copy", "move"):
                d, proj = one_def(o)
                if d is None:
                    return ("local", o["p"][0])
                if d[0] == "c":
                    return ("call", d[1])
                rv = d[1]
                if rv["k"] == "use":
                    o = rv["a"]
                    depth += 1
                    continue
                return ("rv", rv)
            return ("op", o)
        hit = None
        for b in f.rpo():
            for st in f.blocks[b]["s"]:
                if st[0] == "=" and st[2]["k"] == "bin" and st[2]["op"] in ("Add", "AddWithOverflow", "BitOr"):
                    x, y = chase(st[2]["a"]), chase(st[2]["b"])
                    for m, c in ((x, y), (y, x)):
                        dbl = m[0] == "rv" and m[1]["k"] == "bin" and (
                            (m[1]["op"] in ("Mul", "MulWithOverflow") and any(o["k"] == "const" and str(o.get("int")) == "2" for o in (m[1]["a"], m[1]["b"]))) or
                            (m[1]["op"] == "Shl" and m[1]["b"]["k"] == "const" and str(m[1]["b"].get("int")) == "1"))
                        frombit = c[0] == "call" and "From<bool>" in (c[1]["f"].get("res") or c[1]["f"].get("path") or "")
                        if dbl and frombit:
                            acc_ops = [o for o in (m[1]["a"], m[1]["b"]) if o["k"] in ("copy", "move")]
                            src = chase(acc_ops[0]) if acc_ops else None
                            hit = (st, src)
        if hit is None:
            rep.violation("C13.natural", "accumulate", "read_natural has no step of the form 2*n + bit (bits appended at the low end, most significant first)", f.where())
        else:
            # the accumulator's initial value: the constant assigned to the local that is doubled
            src = hit[1]
            init = None
            if src and src[0] == "local":
                consts = [d[1] for d in defs.get(src[1], []) if d[0] == "s" and d[1]["k"] == "use" and d[1]["a"]["k"] == "const"]
                if len(consts) == 1:
                    init = str(consts[0]["a"].get("int"))
            if init == "1":
                rep.ok("C13.natural", "decoder: accumulator starts at the implicit leading 1 and appends each bit at the low end (2n + bit)", None)
            else:
                rep.violation("C13.natural", "accumulate-init", "read_natural's accumulator starts at %s; the encoder drops the leading 1 bit of every level, so the decoder "
                              "must start from 1" % init, f.where())
    return FINISH


def _val(E, e):
    for ev in E.events:
        if ev[0] == "cond" and ev[2] == e:
            return ev[3]
    return None


def _fields_written(E):
    out = []
    for ev in E.events:
        if ev[0] == "store" and ev[2][0] == 1 and len(ev[2][1]) == 1 and ev[2][1][0].startswith("."):
            n = ev[2][1][0][1:]
            if n not in out:
                out.append(n)
    return out


def _spill_rule(rep, E, f, C, X, who):
    """the path hands the cache byte to the underlying writer: both cache and counter are zero when the path ends"""
    wa = calls(E, "::write_all")
    if not wa:
        rep.violation("C13.state", who + ":spill", "%s: the full-cache path does not write the cache out" % who, f.where())
        return
    # the argument is a reference to an array holding the cache's entry value
    ev = wa[0]
    arr = None
    for a in ev[3][1:]:
        if a[0] == "ref":
            # value at the time of the call is not kept; look for the array store
            for e2 in E.events:
                if e2[0] == "store" and e2[2] == a[1]:
                    arr = e2[3]
                if e2[0] == "store" and arr is None and e2[3][0] == "ref" and e2[2] == a[1]:
                    pass
    src = [s for e2 in E.events if e2[0] == "store" and e2[3][0] == "array" for s in e2[3][1]]
    if not any(field(s) == C for s in src):
        rep.violation("C13.state", who + ":spill-what", "%s writes out %s, not its cache byte" % (who, [show(s) for s in src]), f.where())
    fc, fx = final(E, C), final(E, X)
    if fc == ("int", 0) and fx == ("int", 0):
        rep.ok("C13.state", "%s: cache and counter are zero after the cache byte was written out" % who, None)
    else:
        rep.violation("C13.state", who + ":reset", "%s writes the cache byte out and ends with cache=%s, %s=%s: bits already written would be written "
                      "again with the next byte" % (who, show(fc), X, show(fx)), f.where())


def _range_of(E):
    for ev in E.events:
        if ev[0] == "call" and ev[2].endswith("::into_iter") and ev[3] and ev[3][0][0] == "adt" and ev[3][0][1].endswith("Range"):
            d = dict(zip(ev[3][0][3], ev[3][0][4]))
            return (d.get("start"), d.get("end"))
    return None


def _has_lit(f, adt):
    for b in f.rpo():
        for s in f.blocks[b]["s"]:
            if s[0] == "=" and s[2]["k"] == "agg" and s[2].get("agg") == "adt" and s[2].get("adt") == adt:
                return True
    return False


def _same_origin(a, b):
    """both expressions contain the same call result (the byte fetched)"""
    ca = {s for s in subexprs(a) if s[0] == "call" and s[1].endswith("::next")}
    cb = {s for s in subexprs(b) if s[0] == "call" and s[1].endswith("::next")}
    return bool(ca & cb)
