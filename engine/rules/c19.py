"""C19 — budget padding is sufficient and minimal: decided at the level of the formulas the code contains.

The property quantifies over every cost and witness stack; what the consensus encoder of the `elements` crate returns for
a stack is outside the analysed program.  Decided is that the arithmetic *written in src/analysis.rs* is the arithmetic the
property states, for every value of its variables:

  C19.budget  Cost::get_budget(stack) = (consensus-encoded length of that stack) + 50, saturating
  C19.valid   Cost::is_budget_valid compares the cost's milliweight with 1000 x budget (a saturating product) by `<=`
              (equivalently its weight, rounded up, with the budget), cost on the left
  C19.round   Cost -> weight divides by 1000 rounding up ((mw + 999) / 1000 or div_ceil); weight -> Cost multiplies by
              1000; the bitcoin::Weight conversions go through these two; all monotone by their form
  C19.guard   Cost::get_padding returns None exactly on the branch where weight(cost) <= budget(stack), and on the other
              branch the table below is applied to deficit = weight - budget
  C19.table   the `match deficit` of get_padding is read off the MIR as a piecewise table {interval of deficit ->
              affine / saturating / constant expression}: the intervals partition 1..=max deficit (a u32 milliweight is at
              most 4 294 968 weight units), and for every deficit d the annex length L = 1 + padding(d) is the least L >= 1
              with CompactSize(L) + L >= d, where CompactSize(L) = 1, 3, 5 bytes for L <= 252, <= 65535, < 2^32.
              Sufficiency and minimality are checked for every integer d of the bounded pieces and algebraically for the
              unbounded last piece — on the extracted table, not by running the code
  C19.annex   the annex is one 0x50 byte followed by padding(d) zero bytes

Not decided: the consensus encoding itself, and the exception the property grants (item count on a CompactSize boundary).
"""
import facts as fm
import expr
import flow
import vcc
from facts import Terms, Fn, calls_in, show

COST = "simplicity::analysis::Cost::"
W_FROM_COST = "<simplicity::analysis::U32Weight as std::convert::From<simplicity::analysis::Cost>>::from"
COST_FROM_W = "<simplicity::analysis::Cost as std::convert::From<simplicity::analysis::U32Weight>>::from"
MAX_DEFICIT = (2 ** 32 - 1 + 999) // 1000     # weight of the largest u32 milliweight

FINISH = dict(level="other",
              explanation="The budget, validity, rounding and padding formulas are read off the MIR of src/analysis.rs (terms, guard "
                          "polarity, and the `match deficit` as a piecewise table of intervals and affine expressions) and compared "
                          "with the formulas the property states; sufficiency and minimality of the padding table are checked for "
                          "every deficit on the extracted table against the CompactSize rule.",
              assumptions=["appending an item of L bytes to a witness stack grows its consensus encoding by CompactSize(L) + L bytes, "
                           "CompactSize being 1/3/5 bytes for L <= 252 / <= 65535 / < 2^32 (the elements/bitcoin crates' encoder), "
                           "unless the item count itself crosses a CompactSize boundary (the exception the property grants)",
                           "consensus_encode returns the number of bytes it wrote"])


def peel(t):
    """strip casts, newtype wrappers (U32Weight(x), x.0) and transparent conversions; fold constant arithmetic"""
    return fold(_peel_raw(t))


def _peel_raw(t):
    while isinstance(t, tuple) and t:
        if t[0] in ("cast", "ref", "deref") and len(t) >= 2 and isinstance(t[-1], tuple):
            t = t[-1]
        elif t[0] == "field" and t[2] == "0" and isinstance(t[1], tuple) and t[1][0] == "adt" and len(t[1][4]) == 1:
            t = t[1][4][0]
        elif t[0] == "adt" and t[1].endswith(("U32Weight", "analysis::Cost")) and len(t[4]) == 1:
            t = t[4][0]
        elif t[0] == "call" and t[2] in ("try_from", "from", "into", "expect", "unwrap", "try_into") and len(t[3]) == 1:
            t = t[3][0]
        else:
            break
    return t


def fold(t):
    """constant arithmetic on literals (`u32::MAX - 999`) -> ('int', value) ; other terms unchanged"""
    t0 = t
    if isinstance(t, tuple) and t and t[0] == "field" and t[2] == "0" and isinstance(t[1], tuple) and t[1][0] == "bin" and "WithOverflow" in t[1][1]:
        t = t[1]
    if isinstance(t, tuple) and t and t[0] == "bin" and len(t) >= 4:
        a, b = fold(_peel_raw(t[2])), fold(_peel_raw(t[3]))
        if isinstance(a, tuple) and isinstance(b, tuple) and a and b and a[0] == "int" and b[0] == "int":
            op = t[1].replace("WithOverflow", "").replace("Unchecked", "")
            try:
                v = {"Add": a[1] + b[1], "Sub": a[1] - b[1], "Mul": a[1] * b[1], "Div": a[1] // b[1] if b[1] else None}.get(op)
            except Exception:
                v = None
            if v is not None:
                return ("int", v, a[2] if len(a) > 2 else None)
    return t0


def is_int(t, v=None):
    t = peel(t)
    return isinstance(t, tuple) and t and t[0] == "int" and (v is None or t[1] == v)


def linearise(f, path):
    """a straight-line copy of f along `path` (terminators become gotos), so that every local has one definition"""
    import copy
    idx = {b: i for i, b in enumerate(path)}
    blocks = []
    for i, b in enumerate(path):
        blk = copy.deepcopy(f.blocks[b])
        t = blk["t"]
        nxt = i + 1 if i + 1 < len(path) else None
        if t["k"] == "call":
            t["target"] = nxt
            t["unwind"] = None
        elif nxt is not None:
            blk["t"] = {"k": "goto", "target": nxt}
        else:
            blk["t"] = {"k": "return"}
        blocks.append(blk)
    d = dict(f.d)
    d["blocks"] = blocks
    return Fn(d, f.crate)


def piecewise(f, rep, sink="take"):
    """[(lo, hi, result term, path)] — a value as a function of the one quantity the function's comparisons are about, per
    feasible path: sink="take" evaluates the count handed to `take(n)`, sink="return" the function's result"""
    T = Terms(f)
    # the deficit: the non-constant operand most switch comparisons are about
    cands = {}
    for b in f.rpo():
        t = f.blocks[b]["t"]
        if t["k"] != "switch":
            continue
        d = T.operand(t["discr"])
        if isinstance(d, tuple) and d[0] == "bin" and d[1] in ("Le", "Lt", "Ge", "Gt", "Eq", "Ne"):
            a, c = peel(d[2]), peel(d[3])
            if is_int(a) != is_int(c):
                x = c if is_int(a) else a
                cands.setdefault(expr.canon(x), []).append(b)
    if not cands:
        return None, None
    dkey = max(cands, key=lambda k: len(cands[k]))
    takes = [cs for cs in f.calls() if cs.name == "take" and len(cs.args) == 2]
    if sink == "take" and len(takes) != 1:
        return None, None
    take_bb = takes[0].bb if sink == "take" else None
    out = []
    INF = 10 ** 12

    def go(b, lo, hi, path):
        if lo > hi or len(path) > 400:
            return
        path = path + [b]
        if b == take_bb:
            lf = linearise(f, path)
            Tl = Terms(lf)
            n = peel(Tl.operand(lf.blocks[len(path) - 1]["t"]["args"][1]))
            out.append((lo, hi, n, path))
            return
        if sink == "return" and f.blocks[b]["t"]["k"] == "return":
            lf = linearise(f, path)
            out.append((lo, hi, peel(Terms(lf).local(0)), path))
            return
        t = f.blocks[b]["t"]
        if t["k"] == "switch":
            d = T.operand(t["discr"])
            handled = False
            if isinstance(d, tuple) and d[0] == "bin" and d[1] in ("Le", "Lt", "Ge", "Gt"):
                a, c = peel(d[2]), peel(d[3])
                if is_int(a) != is_int(c) and expr.canon(c if is_int(a) else a) == dkey:
                    handled = True
                    k = (a if is_int(a) else c)[1]
                    op = d[1]
                    if is_int(a):      # k op x  ==  x op' k
                        op = {"Le": "Ge", "Lt": "Gt", "Ge": "Le", "Gt": "Lt"}[op]
                    true_rng = {"Le": (lo, min(hi, k)), "Lt": (lo, min(hi, k - 1)), "Ge": (max(lo, k), hi), "Gt": (max(lo, k + 1), hi)}[op]
                    false_rng = {"Le": (max(lo, k + 1), hi), "Lt": (max(lo, k), hi), "Ge": (lo, min(hi, k - 1)), "Gt": (lo, min(hi, k))}[op]
                    for v, tg in t["targets"]:
                        r = false_rng if v == "0" else true_rng
                        go(tg, r[0], r[1], path)
                    r = true_rng if all(v == "0" for v, _ in t["targets"]) else false_rng
                    go(t["otherwise"], r[0], r[1], path)
            if not handled and isinstance(d, tuple) and d[0] == "bin" and d[1] in ("Eq", "Ne"):
                a, c = peel(d[2]), peel(d[3])
                if is_int(a) != is_int(c) and expr.canon(c if is_int(a) else a) == dkey:
                    handled = True
                    k = (a if is_int(a) else c)[1]
                    eq_rngs = [(max(lo, k), min(hi, k))]
                    ne_rngs = [(lo, min(hi, k - 1)), (max(lo, k + 1), hi)]
                    true_r, false_r = (eq_rngs, ne_rngs) if d[1] == "Eq" else (ne_rngs, eq_rngs)
                    for v, tg in t["targets"]:
                        for r in (false_r if v == "0" else true_r):
                            go(tg, r[0], r[1], path)
                    for r in (true_r if all(v == "0" for v, _ in t["targets"]) else false_r):
                        go(t["otherwise"], r[0], r[1], path)
            if not handled and t["discr"].get("k") in ("move", "copy") and expr.canon(peel(d)) == dkey:
                # a direct switch on the value (match arms that are single constants)
                handled = True
                ks = sorted(int(v) for v, _ in t["targets"])
                for v, tg in t["targets"]:
                    go(tg, max(lo, int(v)), min(hi, int(v)), path)
                edges = [lo - 1] + [k for k in ks if lo <= k <= hi] + [hi + 1]
                for x, y in zip(edges, edges[1:]):
                    go(t["otherwise"], x + 1, y - 1, path)
            if not handled:
                for s in f.succs(b):
                    if s not in path:
                        go(s, lo, hi, path)
            return
        for s in f.succs(b):
            if s not in path:
                go(s, lo, hi, path)
    go(0, 0, INF, [])
    return dkey, out


def form_of(n, dkey):
    """padding length term -> ('sat', k) = max(d - k, 0) | ('sub', k) = d - k | ('const', c) | None"""
    n = peel(n)
    if is_int(n):
        return ("const", n[1])
    if expr.canon(n) == dkey:
        return ("sub", 0)
    if n[0] == "call" and n[2] == "saturating_sub" and len(n[3]) == 2 and expr.canon(peel(n[3][0])) == dkey and is_int(n[3][1]):
        return ("sat", peel(n[3][1])[1])
    b = n
    if b[0] == "field" and b[2] == "0" and isinstance(b[1], tuple) and b[1][0] == "bin":
        b = b[1]
    if b[0] == "bin" and b[1] in ("Sub", "SubWithOverflow", "SubUnchecked") and expr.canon(peel(b[2])) == dkey and is_int(b[3]):
        return ("sub", peel(b[3])[1])
    if b[0] == "bin" and b[1] in ("Add", "AddWithOverflow") and expr.canon(peel(b[2])) == dkey and is_int(b[3]):
        return ("sub", -peel(b[3])[1])
    if n[0] == "call" and n[2] == "max" and len(n[3]) == 2:
        a, c = n[3]
        if is_int(a):
            a, c = c, a
        fa = form_of(a, dkey)
        if is_int(c) and fa and fa[0] in ("sub", "sat"):
            return ("max", fa, peel(c)[1])
    return None


def csize(L):
    return 1 if L <= 252 else 3 if L <= 65535 else 5 if L < 2 ** 32 else 9


def need(d):
    """least annex length L >= 1 with CompactSize(L) + L >= d"""
    for c, top in ((1, 252), (3, 65535), (5, 2 ** 32 - 1)):
        L = max(1, d - c)
        if L <= top and (c == 1 or L > {3: 252, 5: 65535}[c]):
            return L
        if L <= top:
            return {3: 253, 5: 65536}[c]
    return d - 9


def apply_form(form, d):
    if form[0] == "max":
        return max(apply_form(form[1], d), form[2])
    k, v = form
    return v if k == "const" else max(d - v, 0) if k == "sat" else d - v


def show_form(form):
    if form[0] == "max":
        return "max(%s, %d)" % (show_form(form[1]), form[2])
    return {"const": "%d", "sat": "max(d - %d, 0)", "sub": "d - %d"}[form[0]] % form[1]



CONSENSUS_MAX = 4_000_050_000


def round_up(F, rep, is_ceil_div):
    """Cost -> weight: for every cost up to the consensus maximum the result is ceil(milliweight / 1000), and the conversion is
    monotone over all u32 values.  The function is read as a piecewise table over the milliweight (a conversion that treats
    values near u32::MAX separately, to mimic a saturating addition, is judged piece by piece)."""
    f0 = F.fn(W_FROM_COST)
    if f0 is None:
        rep.anchor("C19.round", W_FROM_COST)
        return
    f = F.inlined(f0)
    label = "weight(cost) = ceil(milliweight / 1000)"
    t = peel(Terms(f).local(0))
    if is_ceil_div(t):
        rep.ok("C19.round", label, show(t)[:80])
        return
    dkey, pieces = piecewise(f, rep, sink="return")
    if not pieces:
        rep.violation("C19.round", label, "%s computes %s" % (label, show(t)[:160]), f0.where())
        return
    tbl = []
    for lo, hi, n, _path in pieces:
        lo, hi = max(lo, 0), min(hi, 2 ** 32 - 1)
        if lo > hi:
            continue
        n = peel(n)
        if is_int(n):
            fm_ = ("const", n[1])
        elif n[0] == "bin" and n[1] == "Div" and is_int(n[2]) and is_int(n[3]) and peel(n[3])[1] != 0:
            fm_ = ("const", peel(n[2])[1] // peel(n[3])[1])
        elif is_ceil_div(n):
            fm_ = ("ceil",)
        else:
            rep.violation("C19.round", label, "%s: for milliweights %d..=%d the result is %s, neither the rounded-up quotient nor a constant"
                          % (label, lo, hi, show(n)[:100]), f0.where())
            return
        if (lo, hi, fm_) not in tbl:
            tbl.append((lo, hi, fm_))
    tbl.sort()

    def val(fm_, mw):
        return fm_[1] if fm_[0] == "const" else -(-mw // 1000)
    cur, prev_v, bad = 0, -1, None
    for lo, hi, fm_ in tbl:
        if lo != cur:
            bad = "the pieces do not partition the u32 range at %d" % cur
            break
        for mw in sorted({lo, hi} | ({CONSENSUS_MAX} if lo <= CONSENSUS_MAX <= hi else set())):
            v = val(fm_, mw)
            if mw <= CONSENSUS_MAX and v != -(-mw // 1000):
                bad = "cost %d mWU converts to %d WU, the rounded-up weight is %d" % (mw, v, -(-mw // 1000))
            if v < prev_v:
                bad = "not monotone at %d mWU (%d WU after %d WU)" % (mw, v, prev_v)
            prev_v = v
        cur = hi + 1
    if bad is None and cur != 2 ** 32:
        bad = "no piece covers milliweights from %d" % cur
    if bad:
        rep.violation("C19.round", label, "%s: %s" % (label, bad), f0.where())
    else:
        rep.ok("C19.round", label, "piecewise: " + "; ".join("%d..=%d: %s" % (lo, hi, "ceil" if fm_[0] == "ceil" else fm_[1]) for lo, hi, fm_ in tbl))

def run(ctx, rep):
    F = ctx.facts("full")
    rep.rule("C19.budget", "get_budget = consensus-encoded length of the stack + 50 (saturating)")
    rep.rule("C19.valid", "is_budget_valid: milliweight <= 1000 x budget (cost on the left)")
    rep.rule("C19.round", "cost -> weight rounds up by 1000; weight -> cost multiplies by 1000; bitcoin::Weight conversions go through them")
    rep.rule("C19.guard", "get_padding returns None exactly when weight <= budget; the table is applied to weight - budget")
    rep.rule("C19.table", "for every deficit the annex length is the least L with CompactSize(L) + L >= deficit")
    rep.rule("C19.annex", "the annex is 0x50 followed by padding zero bytes")

    # ---------------------------------------------------------------- budget
    gb = F.fn(COST + "get_budget")
    if gb is None:
        rep.anchor("C19.budget", COST + "get_budget")
    else:
        t = peel(Terms(F.inlined(gb)).local(0))
        okk = False
        if t[0] == "call" and t[2] in ("saturating_add", "checked_add", "wrapping_add") and len(t[3]) == 2:
            a, c = peel(t[3][0]), t[3][1]
            enc = [x for x in calls_in(a) if x[2] == "consensus_encode"]
            # the length is that of ONE consensus encoding of the whole stack (the parameter itself): not a sum the code
            # assembles from the items, which would have to re-derive the CompactSize of the item count
            whole = a[0] == "call" and a[2] == "consensus_encode" and peel(a[3][0])[0] == "param" and peel(a[3][0])[1] == 1
            if t[2] == "saturating_add" and is_int(c, 50) and enc and whole:
                okk = True
        elif t[0] == "bin" and t[1] in ("Add", "AddWithOverflow"):
            a, c = peel(t[2]), t[3]
            enc = [x for x in calls_in(a) if x[2] == "consensus_encode"]
            okk = is_int(c, 50) and bool(enc) and 1 in vcc.param_roots(enc[0][3][0], fm)
        if okk:
            rep.ok("C19.budget", "get_budget = len(consensus_encode(stack)) + 50", None)
        else:
            rep.violation("C19.budget", "get_budget", "Cost::get_budget computes %s; the budget of a witness stack is its consensus-encoded length plus 50"
                          % show(t)[:160], gb.where())

    # ---------------------------------------------------------------- rounding
    def conv(path, label, want):
        f = F.fn(path)
        if f is None:
            rep.anchor("C19.round", path)
            return
        t = peel(Terms(F.inlined(f)).local(0))
        if want(t):
            rep.ok("C19.round", label, show(t)[:80])
        else:
            rep.violation("C19.round", label, "%s computes %s" % (label, show(t)[:160]), f.where())

    def is_ceil_div(t):
        t = peel(t)
        if t[0] == "call" and t[2] == "div_ceil" and len(t[3]) == 2 and is_int(t[3][1], 1000):
            return 1 in vcc.param_roots(t[3][0], fm)
        if t[0] == "bin" and t[1] == "Div" and is_int(t[3], 1000):
            a = peel(t[2])
            if a[0] == "field" and a[2] == "0" and a[1][0] == "bin":
                a = a[1]
            if a[0] == "call" and a[2] in ("saturating_add",) and len(a[3]) == 2 and is_int(a[3][1], 999):
                return 1 in vcc.param_roots(a[3][0], fm)
            if a[0] == "bin" and a[1] in ("Add", "AddWithOverflow") and is_int(a[3], 999):
                return 1 in vcc.param_roots(a[2], fm)
        return False

    def is_mul1000(t):
        t = peel(t)
        if t[0] == "call" and t[2] in ("saturating_mul",) and len(t[3]) == 2 and is_int(t[3][1], 1000):
            return 1 in vcc.param_roots(t[3][0], fm)
        return False    # a plain `* 1000` overflows for weights above u32::MAX / 1000
    round_up(F, rep, is_ceil_div)
    conv(COST_FROM_W, "cost(weight) = 1000 x weight", is_mul1000)
    wf = F.fn("<simplicity::analysis::U32Weight as std::convert::From<simplicity::bitcoin::Weight>>::from")
    if wf is None:
        rep.anchor("C19.round", "From<bitcoin::Weight> for U32Weight")
    else:
        tw = Terms(wf, transparent={k: v for k, v in fm.TRANSPARENT_CALLS.items() if k not in ("from", "into", "unwrap", "expect")}).local(0)
        names = {c[2] for c in calls_in(tw)}

        def has_cast(t):
            if isinstance(t, tuple) and t:
                if t[0] == "cast":
                    return True
                return any(has_cast(y) for y in t[1:] if isinstance(y, tuple)) or \
                    any(has_cast(z) for y in t[1:] if isinstance(y, tuple) and y and isinstance(y[0], tuple) for z in y)
            return False
        sat = ("try_from" in names or "try_into" in names) and any(n in names for n in ("unwrap_or", "unwrap_or_else", "map_or", "min")) or "min" in names
        if sat and "to_wu" in names:
            rep.ok("C19.round", "weight from bitcoin::Weight saturates at u32::MAX", show(tw)[:80])
        else:
            rep.violation("C19.round", "U32Weight from bitcoin::Weight", "the 64-bit weight is narrowed with %s: a weight of 2^32 WU or more wraps around "
                          "(to 0 WU), so the conversion is not monotone and such a cost counts as within any budget" % show(tw)[:100], wf.where())
    for path, label, via in (
            ("simplicity::analysis::<impl std::convert::From<simplicity::analysis::Cost> for simplicity::bitcoin::Weight>::from",
             "bitcoin::Weight from Cost goes through the rounding-up conversion", W_FROM_COST),
            ("<simplicity::analysis::Cost as std::convert::From<simplicity::bitcoin::Weight>>::from",
             "Cost from bitcoin::Weight multiplies the weight by 1000", None)):
        f = F.fn(path)
        if f is None:
            rep.anchor("C19.round", path)
            continue
        t = Terms(f).local(0)
        if via is not None:
            okk = any(c[1] == via for c in calls_in(t)) and vcc.param_roots(t, fm) == {1}
        else:
            okk = is_mul1000(t) or any(c[1] == COST_FROM_W for c in calls_in(t))
        if okk:
            rep.ok("C19.round", label, None)
        else:
            rep.violation("C19.round", label, "%s: computes %s" % (label, show(t)[:160]), f.where())

    # ---------------------------------------------------------------- validity
    bv = F.fn(COST + "is_budget_valid")
    if bv is None:
        rep.anchor("C19.valid", COST + "is_budget_valid")
    else:
        fi = F.inlined(bv, ("get_budget",))
        t = Terms(fi).local(0)
        okk, why = False, show(t)[:160]
        cmp_ = t
        if cmp_[0] == "call" and cmp_[2] in ("le", "ge", "lt", "gt") and len(cmp_[3]) == 2:
            cmp_ = ("bin", {"le": "Le", "ge": "Ge", "lt": "Lt", "gt": "Gt"}[cmp_[2]], cmp_[3][0], cmp_[3][1])
        if cmp_[0] == "bin" and cmp_[1] in ("Le", "Ge"):
            lhs, rhs = (cmp_[2], cmp_[3]) if cmp_[1] == "Le" else (cmp_[3], cmp_[2])
            lp, rp = peel(lhs), peel(rhs)
            cost_side = vcc.param_roots(lp, fm) == {1}
            bud = [c for c in calls_in(rp) if c[2] == "get_budget"]
            # milliweight <= budget * 1000   or   ceil(milliweight/1000) <= budget
            if cost_side and bud and 2 in vcc.param_roots(bud[0][3][0], fm):
                if lp[0] in ("param", "field") or expr.canon(lp) in ("self.0", "self"):
                    # the product must not overflow (a stack of 4.3 MB has a budget above u32::MAX / 1000): saturating only
                    okk = rp[0] == "call" and rp[2] == "saturating_mul" and is_int(rp[3][1], 1000)
                    if not okk and "Mul" in expr.canon(rp):
                        why = "%s — the product budget x 1000 is not saturating: it overflows for stacks above 4 294 917 bytes" % why
                elif any(c[1] == W_FROM_COST for c in calls_in(lp)) or is_ceil_div(lp):
                    okk = rp[0] == "call" and rp[2] == "get_budget"
        if okk:
            rep.ok("C19.valid", "is_budget_valid: cost <= budget, compared in one unit, cost on the left", show(t)[:100])
        else:
            rep.violation("C19.valid", "is_budget_valid", "Cost::is_budget_valid returns %s; within budget means milliweight <= 1000 x (encoded length + 50)" % why, bv.where())

    # ---------------------------------------------------------------- padding
    gp = F.fn(COST + "get_padding")
    if gp is None:
        rep.anchor("C19.table", COST + "get_padding")
        return FINISH
    f = F.inlined(gp, ("get_budget", "take", "once", "repeat", "chain", "collect", "saturating_sub", "le", "sub"))
    T = Terms(f)
    # guard: None exactly when weight <= budget
    les = [cs for cs in f.calls() if cs.name in ("le", "gt", "lt", "ge") and len(cs.args) == 2]
    nones = {b for b in f.rpo() for s in f.blocks[b]["s"] if s[0] == "=" and s[1][0] == 0 and not s[1][1]
             and s[2].get("k") == "agg" and s[2].get("variant") == "None"}
    takes = [cs for cs in f.calls() if cs.name == "take" and len(cs.args) == 2]
    okg = False
    if len(les) == 1 and nones and len(takes) == 1:
        cs = les[0]
        a, b_ = T.operand(cs.args[0]), T.operand(cs.args[1])
        a_is_w = any(c[1] == W_FROM_COST for c in calls_in(a)) and vcc.param_roots(a, fm) == {1}
        b_is_b = any(c[2] == "get_budget" for c in calls_in(b_)) and vcc.param_roots(b_, fm) == {2}
        a_is_b = any(c[2] == "get_budget" for c in calls_in(a)) and vcc.param_roots(a, fm) == {2}
        b_is_w = any(c[1] == W_FROM_COST for c in calls_in(b_)) and vcc.param_roots(b_, fm) == {1}
        # which relation holds when the call returns true: weight <= budget (le w b / ge b w) or weight > budget (gt w b / lt b w)
        rel = None
        if a_is_w and b_is_b:
            rel = {"le": "within", "gt": "over"}.get(cs.name)
        elif a_is_b and b_is_w:
            rel = {"ge": "within", "lt": "over"}.get(cs.name)
        sw = [bb for bb in f.rpo() if f.blocks[bb]["t"]["k"] == "switch" and f.blocks[bb]["t"]["discr"].get("p", [None])[0] == cs.dest[0]]
        if rel and len(sw) == 1:
            t = f.blocks[sw[0]]["t"]
            false_t = [x for v, x in t["targets"] if v == "0"]
            false_t = false_t[0] if false_t else t["otherwise"]
            true_t = [x for v, x in t["targets"] if v != "0"]
            true_t = true_t[0] if true_t else t["otherwise"]
            within_t, over_t = (true_t, false_t) if rel == "within" else (false_t, true_t)
            r_within, r_over = f.reachable(within_t), f.reachable(over_t)
            if nones & r_within and not (nones & r_over) and takes[0].bb in r_over and takes[0].bb not in r_within:
                okg = True
    if okg:
        rep.ok("C19.guard", "get_padding: None iff weight(cost) <= budget(stack)", None)
    else:
        rep.violation("C19.guard", "get_padding:guard", "Cost::get_padding does not return None exactly on the branch where the rounded-up weight of the cost "
                      "is <= the budget of the stack", gp.where())
    dkey, pieces = piecewise(f, rep)
    if not pieces:
        rep.anchor("C19.table", "the `match deficit` of get_padding (comparisons of one value with constants, then take(n))")
        return FINISH
    # the deficit is weight - budget
    subs = [cs for cs in f.calls() if cs.name == "sub" and len(cs.args) == 2]
    okd = False
    for cs in subs:
        a, b_ = T.operand(cs.args[0]), T.operand(cs.args[1])
        if any(c[1] == W_FROM_COST for c in calls_in(a)) and any(c[2] == "get_budget" for c in calls_in(b_)) and "sub(" in dkey:
            okd = True
    if not subs:
        dt = [c for c in cands_terms(T, f) if expr.canon(c) == dkey]
        for t in dt:
            b = peel(t)
            if b[0] == "field" and b[2] == "0" and b[1][0] == "bin":
                b = b[1]
            if b[0] == "bin" and b[1].startswith("Sub") and any(c[1] == W_FROM_COST for c in calls_in(b[2])) and any(c[2] == "get_budget" for c in calls_in(b[3])):
                okd = True
    if okd:
        rep.ok("C19.guard", "the table is applied to deficit = weight - budget", dkey[:80])
    else:
        rep.violation("C19.guard", "get_padding:deficit", "the value the padding table switches on is `%s`, expected weight(cost) - budget(stack)" % dkey[:120], gp.where())
    # clip to the reachable domain and check the partition
    tbl = []
    for lo, hi, n, path in pieces:
        lo2, hi2 = max(lo, 1), min(hi, MAX_DEFICIT)
        if lo2 > hi2:
            continue
        fmv = form_of(n, dkey)
        if fmv is None:
            rep.violation("C19.table", "piece:%d..%d:form" % (lo2, hi2), "for deficits %d..=%d the padding length is `%s`, which is not a constant or the deficit "
                          "minus a constant (saturating or not): not decided" % (lo2, hi2, expr.canon(n)[:100]), gp.where())
            continue
        if (lo2, hi2, fmv) not in tbl:      # several paths (debug assertions, ...) through one arm
            tbl.append((lo2, hi2, fmv))
    tbl.sort(key=lambda x: (x[0], x[1]))
    cur = 1
    for lo, hi, fmv in tbl:
        if lo != cur:
            rep.violation("C19.table", "partition:%d" % cur, "the pieces of the padding table do not partition the deficits: %s deficits %d..%d"
                          % ("gap at" if lo > cur else "overlap at", min(cur, lo), max(cur, lo) - 1), gp.where())
        cur = max(cur, hi + 1)
    if cur <= MAX_DEFICIT:
        rep.violation("C19.table", "partition:end", "no piece of the padding table covers deficits %d..%d" % (cur, MAX_DEFICIT), gp.where())
    rep.count("padding_table_pieces", len(tbl))
    n_checked = 0
    for lo, hi, fmv in tbl:
        key = "deficit %d..=%s: padding = %s" % (lo, hi if hi < MAX_DEFICIT else "max", show_form(fmv))
        bad = None
        top = min(hi, 70000)
        for d in range(lo, top + 1):
            p = apply_form(fmv, d)
            n_checked += 1
            if p < 0:
                bad = (d, "the subtraction underflows (panic)")
                break
            L = 1 + p
            if csize(L) + L < d:
                bad = (d, "an annex of %d bytes adds %d bytes of budget, fewer than the deficit" % (L, csize(L) + L))
                break
            if L > 1 and csize(L - 1) + (L - 1) >= d:
                bad = (d, "an annex of %d bytes is returned although %d bytes would do (%d + %d >= %d)" % (L, L - 1, csize(L - 1), L - 1, d))
                break
        if bad is None and hi > 70000:
            # unbounded piece: lengths above 65536 all use the 5-byte CompactSize; L = d - k + 1 must satisfy 5 + L >= d > 5 + (L - 1)
            tail = fmv[1] if fmv[0] == "max" and fmv[2] <= 70001 - 6 else fmv     # max(d - 6, c) is d - 6 once d - 6 >= c
            if tail[0] not in ("sub", "sat") or tail[1] != 6:
                d = max(lo, 70001)
                bad = (d, "for large deficits the annex must have deficit - 5 bytes (5-byte CompactSize), i.e. padding = deficit - 6; the table has %s"
                       % show_form(fmv))
            elif MAX_DEFICIT - 5 >= 2 ** 32:
                bad = (MAX_DEFICIT, "9-byte CompactSize reachable")
        if bad:
            rep.violation("C19.table", "piece:%d" % lo, "padding table, deficit %d: %s" % bad, gp.where())
        else:
            rep.ok("C19.table", key, "sufficient and minimal for every deficit of the piece")
    rep.count("deficits_checked_on_the_table", n_checked)
    rep.floor("C19.table", len(tbl), 3)
    # annex bytes
    tk = takes[0] if takes else None
    okk = False
    if tk is not None:
        ret = T.local(0)
        names = [c[2] for c in calls_in(ret)]
        once = [c for c in calls_in(ret) if c[2] == "once"]
        rpt = [c for c in calls_in(ret) if c[2] == "repeat"]
        chain = [c for c in calls_in(ret) if c[2] == "chain"]
        if once and rpt and chain and is_int(once[0][3][0], 0x50) and is_int(rpt[0][3][0], 0) and "collect" in names:
            c0 = chain[0][3]
            okk = any(x[2] == "once" for x in calls_in(c0[0])) and any(x[2] == "take" for x in calls_in(c0[1]))
    if okk:
        rep.ok("C19.annex", "annex = 0x50 then padding x 0x00", None)
    else:
        rep.violation("C19.annex", "annex", "the annex is not built as one 0x50 byte followed by `padding` zero bytes", gp.where())
    return FINISH


def cands_terms(T, f):
    out = []
    for b in f.rpo():
        t = f.blocks[b]["t"]
        if t["k"] == "switch":
            d = T.operand(t["discr"])
            if isinstance(d, tuple) and d[0] == "bin":
                out += [peel(d[2]), peel(d[3])]
    return out
