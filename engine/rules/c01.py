"""C01 — program and witness bit-encoding round-trips: table agreement and pairing clauses.

Does not decide equality of round-tripped programs for all DAGs (a runtime relation over identity hashes and
type inference).  Decides the parts of the round trip that are table agreement and pairing:
  C01.codec   the bits encode_node writes for each combinator (and for a hidden node) are the decision path on
              which decode_node builds the DecodeNode that decode_expression turns into that combinator; the 16+2
              codes are prefix-free; payloads agree in kind, number and order (left index before right; 32-byte CMR,
              64-byte entropy; word length n+1 against read_natural then from_bits(n-1))
  C01.arity   the DAG views used for traversal and sharing agree on arity and child order per combinator
              (&Node, Arc<Node>, Inner::as_dag/into_dag, EncodeNode, the decoder's index DAG), with the documented
              differences (EncodeNode: assertions are binary with a Hidden leaf); Disconnectable impls put the
              disconnected child second
  C01.pairing witness values are written and re-attached in the same traversal: encode_with_witness iterates
              post_order_iter::<MaxSharing>, RedeemNode::decode converts with post-order InternalSharing, both
              sharing trackers key nodes on Node::sharing_id; the program encoder's node count is the length of
              the very iterator it then encodes
  C01.flush   every BitWriter created by the encode entry points is flushed on every success path
"""
import re
import facts as fm
import flow
from facts import Terms, enum_switches, switch_info, show, calls_in, leaves
import vcc

ENC = "simplicity::bit_encoding::encode::"
DEC = "simplicity::bit_encoding::decode::"
FINISH = dict(level="other",
              explanation="Sibling-table comparison between encoder and decoder: per-combinator bit codes and payload "
                          "sequences are extracted from both functions' MIR by path enumeration with constant propagation and "
                          "compared row by row (closing the triangle through decode_expression's arms); DAG-view arity tables "
                          "and traversal/sharing pairing by call-graph and provenance rules.",
              assumptions=["PostOrderIter yields children before parents with true indices (C18)",
                           "encode_natural/read_natural and the value coders are inverse (C13/C10)"])

# names the codec rules reason about: never spliced away by helper inlining
CODEC_VOCAB = ("encode_natural", "encode_hash", "encode_value", "write_bit", "write_bits_be", "read_natural", "read_bit", "read_u2", "read_u8",
               "read_cmr", "read_fail_entropy", "from_bits", "decode", "encode", "decode_node", "encode_node")

NODE_ARITY = {
    "Iden": ("N",), "Unit": ("N",), "Fail": ("N",), "Jet": ("N",), "Word": ("N",), "Witness": ("N",),
    "InjL": ("U", 0), "InjR": ("U", 0), "Take": ("U", 0), "Drop": ("U", 0), "AssertL": ("U", 0), "AssertR": ("U", 1),
    "Comp": ("B", 0, 1), "Case": ("B", 0, 1), "Pair": ("B", 0, 1), "Disconnect": ("D", 1, 0),
}
ENCODE_ARITY = dict(NODE_ARITY, AssertL=("B", 0, 1), AssertR=("B", 0, 1))
DECODE_ARITY = {
    "Iden": ("N",), "Unit": ("N",), "Fail": ("N",), "Hidden": ("N",), "Jet": ("N",), "Word": ("N",), "Witness": ("N",),
    "InjL": ("U", 0), "InjR": ("U", 0), "Take": ("U", 0), "Drop": ("U", 0), "Disconnect1": ("U", 0),
    "Comp": ("B", 0, 1), "Case": ("B", 0, 1), "Pair": ("B", 0, 1), "Disconnect": ("B", 0, 1),
}


def codec_names(F):
    """names of the codec's private types on the analysed tree: the encoder's and the decoder's DAG-view enums are the Self
    types of the DagLike impls in encode.rs / decode.rs, the encoder enum's hidden variant is the one that holds no node"""
    c = F.__dict__.get("_codec_names")
    if c is not None:
        return c
    n = {"dec_enum": "DecodeNode", "enc_enum": "EncodeNode", "enc_hidden": "Hidden"}
    for f in F.fns.values():
        if f.name == "as_dag_node" and f.impl_trait == "simplicity::dag::DagLike":
            # the decoder's view is an (index, slice-of-nodes) pair, the encoder's an enum over node references
            m = re.match(r"\(usize, &\[simplicity::bit_encoding::(?:\w+::)*(\w+)\]\)$", f.impl_self or "")
            if m:
                n["dec_enum"] = m.group(1)
            m = re.match(r"simplicity::bit_encoding::(?:\w+::)*(\w+)<", f.impl_self or "")
            if m:
                n["enc_enum"] = m.group(1)
    for a in F.adts.values():
        if a["path"].startswith("simplicity::bit_encoding::") and a["path"].endswith("::" + n["enc_enum"]):
            hid = [v["name"] for v in a["variants"] if v["fields"] and not any("node::Node" in fld["ty"] for fld in v["fields"])]
            if len(hid) == 1:
                n["enc_hidden"] = hid[0]
    F.__dict__["_codec_names"] = n
    return n


def encode_node_fn(F):
    """the function that writes one node: `encode::encode_node`, or, renamed, the only function of encode.rs taking (an item
    of the encoder's DAG view, the writer) and returning io::Result<()>"""
    f = F.fn(ENC + "encode_node")
    if f is not None:
        return f
    en = codec_names(F)["enc_enum"]
    out = []
    for p_, g in F.fns.items():
        if p_.startswith(ENC) and g.kind in ("Fn", "AssocFn") and g.arg_count == 2 and len(g.locals) > 1:
            a1 = g.locals[1] if isinstance(g.locals[1], str) else g.locals[1].get("ty", "")
            if "::%s<" % en in a1 or a1.endswith("::" + en):
                out.append(g)
    return out[0] if len(out) == 1 else None


def dec_canon(F, emap):
    """decoder-enum variant -> the name it has on the pinned tree.  A variant keeps its own name when that is one of the pinned
    names; a renamed variant is named after the constructor decode_expression applies to it (that is what the variant *is*)."""
    PINNED = ("Iden", "Unit", "InjL", "InjR", "Take", "Drop", "Comp", "Case", "Pair", "Disconnect1", "Disconnect", "Witness", "Fail",
              "Hidden", "Jet", "Word")
    nfields = {}
    dn = codec_names(F)["dec_enum"]
    for a in F.adts.values():
        if a["path"].startswith("simplicity::bit_encoding::") and a["path"].endswith("::" + dn):
            for v in a["variants"]:
                nfields[v["name"]] = len(v["fields"])
    out = {}
    for v, ms in (emap or {}).items():
        if v in PINNED:
            out[v] = v
            continue
        ms = set(ms)
        c = None
        if ms == {"<hidden>"}:
            c = "Hidden"
        elif ms == {"disconnect"}:
            c = "Disconnect1" if nfields.get(v) == 1 else "Disconnect"
        elif ms == {"case", "assertl", "assertr"}:
            c = "Case"
        elif len(ms) == 1:
            c = {"const_word": "Word", "drop_": "Drop"}.get(next(iter(ms))) or vcc.VARIANT_OF.get(next(iter(ms)))
        out[v] = c if c and c not in out.values() else v
    return out


def bits(val, n):
    return format(val, "0%db" % n)[-n:] if n else ""


def encoder_table(F, rep):
    names = codec_names(F)
    f = encode_node_fn(F)
    f = F.inlined(f, CODEC_VOCAB + (f.name,)) if f is not None else None
    if f is None:
        rep.anchor("C01.codec", ENC + "encode_node")
        return None
    T = Terms(f)
    rows = {}
    for blocks, conds in flow.path_conditions(f, skip_errors=True):
        if f.blocks[blocks[-1]]["t"]["k"] != "return":
            continue
        code = ""
        payload = []
        variant = None
        hidden = False
        left = right = None
        for c in conds:
            if c[0] == "enum" and c[1] == "Inner":
                vs = [v for v in c[3] if not v.startswith("other:")]
                variant = vs[0] if len(vs) == 1 else (variant or None)
                if len(vs) > 1:
                    variant = tuple(vs)
            if c[0] == "enum" and c[1] == names["enc_enum"]:
                hidden = names["enc_hidden"] in c[3]
            if c[0] == "enum" and c[1] == "Option":
                subj = repr(T.place(c[2]))
                side = "left" if "left_index" in subj else ("right" if "right_index" in subj else None)
                if side == "left":
                    left = "Some" in c[3]
                elif side == "right":
                    right = "Some" in c[3]
        dead = False
        for b in blocks:
            t = f.blocks[b]["t"]
            if t["k"] != "call" or "path" not in t["f"]:
                if t["k"] == "call" and "indirect" in t["f"]:
                    payload.append("?indirect")
                continue
            name = t["f"]["name"]
            cal = t["f"].get("res") or t["f"]["path"]
            if name == "write_bits_be":
                a, n = T.operand(t["args"][1]), T.operand(t["args"][2])
                if a[0] == "int" and n[0] == "int":
                    code += bits(a[1], n[1])
                else:
                    payload.append("bits?")
            elif name == "write_bit":
                a = T.operand(t["args"][1])
                code += str(int(a[1])) if a[0] == "int" else "?"
            elif name == "encode_natural":
                a = T.operand(t["args"][0])
                r = repr(a)
                which = "L" if "left_index" in r else ("R" if "right_index" in r else ("n+1" if "'n'" in r and "Add" in r else "?"))
                payload.append("nat:" + which)
            elif name == "encode_hash":
                a = T.operand(t["args"][0])
                payload.append("hash:" + ("cmr" if "'%s'" % names["enc_hidden"] in repr(a) else "entropy" if "Fail" in repr(a) else "?"))
            elif name == "encode" and t["f"].get("trait", "").endswith("jet::Jet"):
                payload.append("jet")
            elif name == "encode_value":
                payload.append("value")
            elif "panicking" in cal or name in ("panic", "unreachable_display"):
                dead = True
        if dead:
            continue
        if hidden:
            key = "Hidden"
            rows.setdefault(key, set()).add((code, tuple(payload)))
            continue
        if variant is None:
            continue
        for v in (variant if isinstance(variant, tuple) else (variant,)):
            key = v
            if v == "Disconnect":
                key = "Disconnect" if right else "Disconnect1"
            rows.setdefault(key, set()).add((code, tuple(payload)))
    return rows


def decode_node_fn(F):
    """the function that decodes one node: `decode::decode_node`, or whatever it was renamed to (the only function of the
    bit_encoding module returning Result<DecodeNode, _>)"""
    f = F.fn(DEC + "decode_node")
    if f is not None:
        return f
    dn = codec_names(F)["dec_enum"]
    cands = []
    for p_, g in F.fns.items():
        if p_.startswith("simplicity::bit_encoding::") and g.kind in ("Fn", "AssocFn") and g.arg_count == 2:
            r0 = g.locals[0] if g.locals else ""
            r0 = r0 if isinstance(r0, str) else r0.get("ty", "")
            if "Result<" in r0 and "::%s," % dn in r0:
                cands.append(g)
    # split into per-group helpers, the node decoder is the one the others are called from
    top = [g for g in cands if not any(cs.callee == g.path for h in cands if h is not g for cs in h.calls())]
    return top[0] if len(top) == 1 else None


def _ctor_item(t, enum_name):
    if isinstance(t, tuple) and t and t[0] == "fnitem" and isinstance(t[1], str) and "::%s::" % enum_name in t[1]:
        return t[1].rsplit("::", 1)[-1]
    return None


def decoder_table(F, rep):
    f = decode_node_fn(F)
    f = F.inlined(f, CODEC_VOCAB + (f.name,)) if f is not None else None
    if f is None:
        rep.anchor("C01.codec", DEC + "decode_node")
        return None
    T = Terms(f)
    T.site_names = {"read_bit", "read_u2", "read_natural"}
    rows = {}
    U2 = {"_0": "00", "_1": "01", "_2": "10", "_3": "11"}
    for blocks, conds in flow.path_conditions(f, skip_errors=True):
        if f.blocks[blocks[-1]]["t"]["k"] != "return":
            continue
        # value of each read (by call site) established by the switches on this path
        vals = {}
        for c in conds:
            if c[0] == "enum" and c[1] == "u2":
                t = T.place(c[2])
                for cc in calls_in(t):
                    if cc[2] == "read_u2" and len(cc) > 6:
                        vs = [v for v in c[3] if not v.startswith("other")]
                        if len(vs) == 1:
                            vals[cc[6][1]] = U2.get(vs[0], "??")
            if c[0] == "int":
                t = T.operand(c[1])
                for cc in calls_in(t):
                    if cc[2] == "read_bit" and len(cc) > 6:
                        vals[cc[6][1]] = "0" if c[3] == "0" else "1"
        code = ""
        payload = []
        built = None
        for b in blocks:
            t = f.blocks[b]["t"]
            for s in f.blocks[b]["s"]:
                if s[0] == "=" and s[2].get("k") == "agg" and s[2].get("adt", "").endswith("::" + codec_names(F)["dec_enum"]):
                    built = (s[2]["variant"], [T.operand(o) for o in s[2]["ops"]])
            if t["k"] != "call" or "path" not in t["f"]:
                continue
            name = t["f"]["name"]
            if name in ("read_bit", "read_u2"):
                code += vals.get(b, "?" if name == "read_bit" else "??")
            elif name == "read_natural":
                bd = T.operand(t["args"][1])
                kind = "index" if (bd[0] == "adt" and bd[2] == "Some" and bd[4][0][0] == "param") else \
                    ("const%s" % bd[4][0][1] if (bd[0] == "adt" and bd[2] == "Some" and bd[4][0][0] == "int") else "unbounded")
                payload.append("nat:" + kind)
            elif name == "read_cmr":
                payload.append("hash:cmr")
            elif name == "read_fail_entropy":
                payload.append("hash:entropy")
            elif name == "decode" and t["f"].get("trait", "").endswith("jet::Jet"):
                payload.append("jet")
            elif name == "from_bits":
                payload.append("value")
            elif name == "map" and len(t["args"]) > 1 and _ctor_item(T.operand(t["args"][1]), codec_names(F)["dec_enum"]):
                # `read(..).map(DecodeNode::Variant)`: the variant's constructor handed to map as a function value
                built = (_ctor_item(T.operand(t["args"][1]), codec_names(F)["dec_enum"]), [T.operand(t["args"][0])])
            elif name == "map" and "Jet" in repr(T.operand(t["args"][1])) if len(t["args"]) > 1 else False:
                built = ("Jet", [])
        if built is None:
            # J::decode(..).map(|jet| DecodeNode::Jet(..)) builds the node in a closure
            if "jet" in payload:
                built = ("Jet", [])
            else:
                continue
        # index operand order: field k of the node derives from the k-th index read
        order_ok = True
        idx_reads = [b for b in blocks if f.blocks[b]["t"]["k"] == "call" and f.blocks[b]["t"]["f"].get("name") == "read_natural"]
        for k, o in enumerate(built[1]):
            sites = [cc[6][1] for cc in calls_in(o) if cc[2] == "read_natural" and len(cc) > 6]
            if sites and (k >= len(idx_reads) or set(sites) != {idx_reads[k]}):
                order_ok = False
        rows.setdefault(built[0], set()).add((code, tuple(payload), order_ok))
    return rows


def expression_map(F, rep):
    """DecodeNode variant -> set of constructor methods decode_expression applies (VCC triangle)."""
    f = F.fn(DEC + "decode_expression")
    f = F.inlined(f, CODEC_VOCAB) if f is not None else None
    if f is None:
        rep.anchor("C01.codec", DEC + "decode_expression")
        return None
    out = {}
    T = Terms(f)
    for b, si in enum_switches(f, "::" + codec_names(F)["dec_enum"]):
        for v, tgt in si[2].items():
            reg = f.dominated_by(tgt)
            ms = set()
            for cs in f.calls(reg):
                if cs.trait in vcc.CONSTRUCTIBLE_TRAITS and cs.name in vcc.VARIANT_OF:
                    ms.add(cs.name)
                    # children in order: argument k derives from the k-th field of the DecodeNode variant
                    params = vcc.ARG_PARAMS[cs.name]
                    for k, a in enumerate(cs.args):
                        t = T.operand(a)
                        flds = re.findall(r"'as', .*?'%s'\), '(\d)'" % v, repr(t))
                        dflds = {lf[3] for lf in leaves(t) if lf[0] == "parampath"}
                        idxs = set(re.findall(r"\('field', \('as', [^)]*\)*, '%s'\), '(\d)'\)" % v, repr(t)))
                        if cs.name in ("comp", "case", "pair", "disconnect", "assertl", "assertr") and idxs and idxs != {str(k)}:
                            rep.violation("C01.codec", "decode_expression:%s:%s:arg%d" % (v, cs.name, k),
                                          "argument %d of %s derives from index field(s) %s of DecodeNode::%s" % (k, cs.name, sorted(idxs), v), cs.where())
            hidden = any(s[0] == "=" and s[2].get("k") == "agg" and s[2].get("variant") == "Hidden" and "Converted" in s[2].get("adt", "")
                         for bb in reg for s in f.blocks[bb]["s"])
            if hidden:
                ms.add("<hidden>")
            out[v] = ms
    return out


def run(ctx, rep):
    F = ctx.facts("full")
    rep.rule("C01.codec", "encoder codes/payloads = decoder decision paths/payload reads, per combinator; prefix-free")
    rep.rule("C01.arity", "DAG views agree on arity and child order per combinator")
    rep.rule("C01.pairing", "witnesses are written and re-attached in the same traversal under the same sharing key")
    rep.rule("C01.flush", "bit writers are flushed on every success path")

    enc = encoder_table(F, rep)
    dec = decoder_table(F, rep)
    emap = expression_map(F, rep)
    canon = dec_canon(F, emap)
    if emap:
        emap = {canon.get(v, v): ms for v, ms in emap.items()}
    if dec:
        dec2 = {}
        for v, rows in dec.items():
            dec2.setdefault(canon.get(v, v), set()).update(rows)
        dec = dec2
    if enc and dec and emap:
        # what each DecodeNode variant becomes
        WANT = {"Iden": {"iden"}, "Unit": {"unit"}, "InjL": {"injl"}, "InjR": {"injr"}, "Take": {"take"}, "Drop": {"drop_"},
                "Comp": {"comp"}, "Case": {"case", "assertl", "assertr"}, "Pair": {"pair"}, "Disconnect1": {"disconnect"},
                "Disconnect": {"disconnect"}, "Witness": {"witness"}, "Fail": {"fail"}, "Hidden": {"<hidden>"}, "Jet": {"jet"},
                "Word": {"const_word"}}
        for dv, want in sorted(WANT.items()):
            got = emap.get(dv)
            if got is None:
                rep.violation("C01.codec", "decode_expression:" + dv, "DecodeNode::%s has no arm in decode_expression" % dv)
            elif got != want:
                rep.violation("C01.codec", "decode_expression:" + dv, "DecodeNode::%s is turned into %s, expected %s" % (dv, sorted(got), sorted(want)))
        # encoder row V  <->  decoder row W
        PAIR = {"Iden": "Iden", "Unit": "Unit", "InjL": "InjL", "InjR": "InjR", "Take": "Take", "Drop": "Drop", "Comp": "Comp",
                "Case": "Case", "AssertL": "Case", "AssertR": "Case", "Pair": "Pair", "Disconnect": "Disconnect",
                "Disconnect1": "Disconnect1", "Witness": "Witness", "Fail": "Fail", "Jet": "Jet", "Word": "Word", "Hidden": "Hidden"}
        PAY = {"nat:L": "nat:index", "nat:R": "nat:index", "nat:n+1": "nat:const32"}
        codes = {}
        for ev, dv in sorted(PAIR.items()):
            er = enc.get(ev)
            dr = dec.get(dv)
            if not er:
                rep.violation("C01.codec", ev + ":enc", "no encoder path found for %s" % ev)
                continue
            if not dr:
                rep.violation("C01.codec", ev + ":dec", "no decoder path builds DecodeNode::%s" % dv)
                continue
            if len(er) != 1 or len(dr) != 1:
                rep.violation("C01.codec", ev + ":ambiguous", "several codes for one node kind: encoder %s decoder %s" % (sorted(er), sorted(dr)))
                continue
            (ecode, epay), = er
            (dcode, dpay, order_ok), = dr
            codes[ev] = ecode
            epay_n = tuple(PAY.get(p, p) for p in epay)
            dpay_n = tuple("nat:const32" if p.startswith("nat:const") and int(p[9:]) <= 32 else p for p in dpay)
            if ecode != dcode:
                rep.violation("C01.codec", ev, "%s is written as %s but DecodeNode::%s is built on reading %s" % (ev, ecode, dv, dcode))
            elif epay_n != dpay_n:
                rep.violation("C01.codec", ev + ":payload", "%s: encoder writes %s after the code, decoder reads %s" % (ev, list(epay), list(dpay)))
            elif [p for p in epay if p in ("nat:L", "nat:R")] not in ([], ["nat:L"], ["nat:L", "nat:R"]):
                rep.violation("C01.codec", ev + ":index-order", "%s: the right index is written before the left one: %s" % (ev, list(epay)))
            elif not order_ok:
                rep.violation("C01.codec", ev + ":index-fields", "DecodeNode::%s stores its indices in a different order than they are read" % dv)
            else:
                rep.ok("C01.codec", ev, "%s %s" % (ecode, list(epay)))
        # prefix-freeness of the distinct codes (assertions share case's code by design)
        distinct = {}
        for ev, c in codes.items():
            distinct.setdefault(c, []).append(ev)
        for c, evs in distinct.items():
            if len(evs) > 1 and set(evs) != {"Case", "AssertL", "AssertR"}:
                rep.violation("C01.codec", "dup:" + c, "%s share the code %s" % (sorted(evs), c))
        cs_ = sorted(distinct)
        bad = [(a, b) for a in cs_ for b in cs_ if a != b and b.startswith(a)]
        if bad:
            rep.violation("C01.codec", "prefix", "codes are not prefix-free: %s" % bad[:4])
        else:
            rep.ok("C01.codec", "prefix-free", cs_)
        rep.floor("C01.codec", rep.instances("C01.codec"), 18)

    # ---------------- arity ----------------
    views = []
    for f in F.fns.values():
        if f.name == "as_dag_node" and f.impl_trait == "simplicity::dag::DagLike":
            s = f.impl_self or ""
            if "node::Node<N>" in s:
                views.append((f, "node::inner::Inner", NODE_ARITY, "DagLike for " + s.replace("simplicity::", "")))
            elif s.startswith("simplicity::bit_encoding::"):
                views.append((f, "node::inner::Inner", ENCODE_ARITY, "DagLike for EncodeNode"))
            elif s.startswith("(usize, &[simplicity::bit_encoding::"):
                inv = {c_: v_ for v_, c_ in canon.items()}
                views.append((f, "::" + codec_names(F)["dec_enum"], {inv.get(k_, k_): r_ for k_, r_ in DECODE_ARITY.items()},
                              "DagLike for (usize, &[DecodeNode])"))
        if f.name in ("as_dag", "into_dag") and f.impl_adt == vcc.INNER:
            views.append((f, "node::inner::Inner", NODE_ARITY, "Inner::" + f.name))
    rep.floor("C01.arity(views)", len(views), 6)
    for f, adt_suffix, table, label in views:
        T = Terms(f)
        sws = enum_switches(f, adt_suffix)
        if not sws:
            rep.anchor("C01.arity", "switch on %s in %s" % (adt_suffix, label))
            continue
        b, si = sws[-1] if "EncodeNode" in label else sws[0]
        for sw_b, s2 in sws:
            if len(s2[2]) >= 10:
                b, si = sw_b, s2
                break
        seen = set()
        for v, tgt in si[2].items():
            seen.add(v)
            want = table.get(v)
            if want is None:
                rep.violation("C01.arity", "%s:%s" % (label, v), "variant %s has no row in the arity table" % v, f.where())
                continue
            got = None
            # nearest Dag construction forward of the arm's first block (or-patterns join in a shared block)
            order, seen_b, queue = [], set(), [tgt]
            while queue:
                x = queue.pop(0)
                if x in seen_b:
                    continue
                seen_b.add(x)
                order.append(x)
                queue.extend(f.succ_map()[x])
            for bb in order:
                if got is not None:
                    break
                for s in f.blocks[bb]["s"]:
                    if s[0] == "=" and s[2].get("k") == "agg" and s[2].get("adt") == "simplicity::dag::Dag":
                        ops = [T.operand(o) for o in s[2]["ops"]]
                        got = (s[2]["variant"][0], ops)
                t = f.blocks[bb]["t"]
                if t["k"] == "call" and t["f"].get("name") in ("disconnect_dag_ref", "disconnect_dag_arc"):
                    got = ("D", [T.operand(a) for a in t["args"]])
            if got is None:
                rep.violation("C01.arity", "%s:%s" % (label, v), "no Dag built for %s" % v, f.where())
                continue
            # shared arms (A | B => ...) : operand terms are phis over the variants; check this variant's field index
            def field_of(term):
                idx = set(re.findall(r"'%s'\), '(\d)'\)" % v, repr(term)))
                return idx
            okk = got[0] == want[0] and len(got[1]) == len(want) - 1
            if okk:
                for k, o in enumerate(got[1]):
                    idx = field_of(o)
                    if idx and idx != {str(want[1 + k])}:
                        okk = False
            if okk:
                rep.ok("C01.arity", "%s:%s" % (label, v), "%s%s" % (want[0], list(want[1:])))
            else:
                rep.violation("C01.arity", "%s:%s" % (label, v), "%s: %s is viewed as %s(%s), expected %s over fields %s"
                              % (label, v, got[0], ", ".join(show(o)[:40] for o in got[1]), want[0], list(want[1:])), f.where())
        missing = set(table) - seen
        if missing and len(si[4]) == 0:
            rep.violation("C01.arity", label + ":missing", "no arm for %s" % sorted(missing), f.where())
    # Disconnectable impls: the disconnected child is the second child
    n_d = 0
    for f in F.fns.values():
        if f.name in ("disconnect_dag_ref", "disconnect_dag_arc") and f.impl_trait == "simplicity::node::disconnect::Disconnectable":
            n_d += 1
            T = Terms(f)
            okk = True
            for bb in f.rpo():
                for s in f.blocks[bb]["s"]:
                    if s[0] == "=" and s[2].get("k") == "agg" and s[2].get("adt") == "simplicity::dag::Dag":
                        ops = [vcc.param_roots(T.operand(o), fm) for o in s[2]["ops"]]
                        if s[2]["variant"] == "Unary" and ops != [{2}]:
                            okk = False
                        if s[2]["variant"] == "Binary" and ops != [{2}, {1}]:
                            okk = False
                        if s[2]["variant"] == "Nullary":
                            okk = False
            key = "Disconnectable for %s::%s" % ((f.impl_self or "").replace("simplicity::", ""), f.name)
            if okk:
                rep.ok("C01.arity", key, "Unary(left) / Binary(left, disconnected)")
            else:
                rep.violation("C01.arity", key, "a disconnect node must be viewed as Unary(left) or Binary(left, disconnected child)", f.where())
    rep.floor("C01.arity(Disconnectable)", n_d, 8)

    # ---------------- pairing ----------------
    ew = [f for f in F.fns.values() if f.name == "encode_with_witness" and f.impl_adt == "simplicity::node::Node"]
    if len(ew) != 1:
        rep.anchor("C01.pairing", "Node::encode_with_witness")
    # every writer of a witness stream (encode_with_witness and any sibling copy of it, e.g. the bit-level RedeemNode::encode)
    writers = [f for f in F.fns.values() if f.path.startswith("simplicity::") and f.kind in ("Fn", "AssocFn")
               and f.path != ENC + "encode_witness" and any(cs.name == "encode_witness" for cs in f.calls())]
    for f in sorted(writers, key=lambda x: x.path):
        wname = fm.short(f.path)
        T = Terms(f)
        wcall = [cs for cs in f.calls() if cs.name == "encode_witness"]
        pcall = [cs for cs in f.calls() if cs.name == "encode_program"]
        if len(wcall) == 1 and len(pcall) == 1:
            t = T.operand(wcall[0].args[0])
            names = [c[2] for c in calls_in(t)]
            it = [c for c in calls_in(t) if c[2] in ("post_order_iter", "rtl_post_order_iter", "pre_order_iter")]
            ga = ""
            for cs in f.calls():
                if cs.name in ("post_order_iter", "rtl_post_order_iter", "pre_order_iter"):
                    ga = cs.name + "::<" + " ".join(cs.f.get("args", [])) + ">"
            if "into_witnesses" in names and it and it[0][2] == "post_order_iter" and "MaxSharing" in ga and vcc.param_roots(t, fm) == {1}:
                rep.ok("C01.pairing", "%s: witness stream = post_order_iter::<MaxSharing>(self).into_witnesses()" % wname, None)
            else:
                rep.violation("C01.pairing", "%s:iter" % ("encode_with_witness" if f.name == "encode_with_witness" else wname), "%s: the witness stream is %s (%s); the program is "
                              "written, and the decoder re-attaches values, in post order over the maximally shared program"
                              % (wname, show(t)[:120], ga[:100]), wcall[0].where())
            if vcc.param_roots(T.operand(pcall[0].args[0]), fm) == {1}:
                rep.ok("C01.pairing", "%s: program and witness are encoded from the same node" % wname, None)
            else:
                rep.violation("C01.pairing", "%s:program" % wname, "encode_program is not applied to self", pcall[0].where())
        else:
            rep.violation("C01.pairing", "%s:calls" % wname, "expected one encode_program and one encode_witness", f.where())
    cv = F.fn("simplicity::node::Node::<N>::convert")
    if cv is None:
        rep.anchor("C01.pairing", "Node::convert")
    else:
        its = [cs.name for cs in cv.calls() if cs.name in ("post_order_iter", "rtl_post_order_iter", "pre_order_iter", "verbose_pre_order_iter")]
        if its == ["post_order_iter"]:
            rep.ok("C01.pairing", "Node::convert visits nodes in post order", None)
        else:
            rep.violation("C01.pairing", "convert:order", "Node::convert iterates with %s: witnesses would be attached in a different order than written" % its, cv.where())
    ep = F.fn(ENC + "encode_program")
    if ep is None:
        rep.anchor("C01.pairing", "encode_program")
    else:
        T = Terms(ep)
        its = [cs for cs in ep.calls() if cs.name in ("post_order_iter", "rtl_post_order_iter", "pre_order_iter")]
        cnt = [cs for cs in ep.calls() if cs.name == "count"]
        nat = [cs for cs in ep.calls() if cs.name == "encode_natural"]
        okk = len(its) == 1 and its[0].name == "post_order_iter" and "EncodeSharing" in " ".join(its[0].f.get("args", [])) and len(cnt) == 1 and len(nat) == 1
        if okk:
            tn = T.operand(nat[0].args[0])
            tc = T.operand(cnt[0].args[0])
            okk = any(c[2] == "count" for c in calls_in(tn)) and any(c[2] == "post_order_iter" for c in calls_in(tc))
        if okk:
            rep.ok("C01.pairing", "node count = length of the EncodeSharing post-order iterator that is then encoded", None)
        else:
            rep.violation("C01.pairing", "encode_program:len", "the encoded node count is not the length of the iterator whose nodes are encoded", ep.where())
    # sharing keys
    n_sid = 0
    for f in F.fns.values():
        if f.name in ("record", "seen_before") and f.impl_trait == "simplicity::dag::SharingTracker":
            s = f.impl_self or ""
            if ("MaxSharing" in s and "SwapChildren" not in (f.d.get("impl_trait_ref") or "")) or "EncodeSharing" in s:
                n_sid += 1
                names = F.call_names_deep(f, ("sharing_id",))
                key = "%s::%s" % (s.replace("simplicity::", ""), f.name) + ("<Arc>" if "Arc<" in (f.d.get("impl_trait_ref") or "") else "")
                if "sharing_id" in names:
                    rep.ok("C01.pairing", key + " keys nodes on Node::sharing_id", None)
                else:
                    rep.violation("C01.pairing", key, "sharing tracker does not key nodes on Node::sharing_id (calls %s)" % sorted(set(names)), f.where())
    rep.floor("C01.pairing(sharing trackers)", n_sid, 6)
    rd = F.fn("simplicity::node::redeem::<impl simplicity::node::Node<simplicity::node::redeem::Redeem>>::decode")
    if rd is not None:
        for c in F.closures_of(rd):
            for cs in c.calls():
                if cs.name == "convert":
                    if "InternalSharing" in " ".join(cs.f.get("args", [])):
                        rep.ok("C01.pairing", "RedeemNode::decode attaches witnesses with convert::<InternalSharing>", None)
                    else:
                        rep.violation("C01.pairing", "decode:sharing", "witnesses are attached under %s" % cs.f.get("args"), cs.where())

    # the writer and the reader of witness values use the same form of the value encoding (compact / padded)
    ev = F.fn(ENC + "encode_value")
    import roles
    readers = roles.methods(F, "decode::DecodeFinalizer", "convert_witness")
    if ev is None or len(readers) != 1:
        rep.anchor("C01.pairing", "encode_value / RedeemNode::decode's convert_witness")
    else:
        wform = {cs.name for cs in ev.calls() if cs.name in ("iter_compact", "iter_padded")}
        rform = {cs.name for cs in readers[0].calls() if cs.name in ("from_compact_bits", "from_padded_bits")}
        w = {"iter_compact": "compact", "iter_padded": "padded"}
        r = {"from_compact_bits": "compact", "from_padded_bits": "padded"}
        wf, rf = {w[x] for x in wform}, {r[x] for x in rform}
        if len(wf) == 1 and wf == rf:
            rep.ok("C01.pairing", "witness values are written and read in the %s form" % list(wf)[0], None)
        else:
            rep.violation("C01.pairing", "value-form", "encode_value writes the %s encoding of a value, RedeemNode::decode reads the %s one: "
                          "they differ for every sum with summands of different width" % (sorted(wf) or "?", sorted(rf) or "?"), ev.where())

    # ---------------- flush ----------------
    for f in F.fns.values():
        if f.name in ("encode_without_witness", "encode_with_witness") and f.impl_adt == "simplicity::node::Node":
            T = Terms(f)
            T.site_names = {"new"}
            news = [cs for cs in f.calls() if cs.name == "new" and "BitWriter" in cs.callee]
            flushes = [cs for cs in f.calls() if cs.name == "flush_all"]
            flushed = set()
            for cs in flushes:
                t = T.operand(cs.args[0])
                for c in calls_in(t):
                    if c[2] == "new" and len(c) > 6:
                        flushed.add(c[6][1])
                if flow.success_bypasses(f, {cs.bb}) is not None or not flow.flows_to_branch(f, cs.dest[0]):
                    rep.violation("C01.flush", f.name + ":bypass", "a success path skips flush_all (or drops its verdict)", cs.where())
            for cs in news:
                if cs.bb in flushed:
                    rep.ok("C01.flush", "%s: writer created at line %s is flushed" % (f.name, cs.line), None)
                else:
                    rep.violation("C01.flush", "%s:unflushed" % f.name, "a BitWriter is created but never flushed: the last partial byte is lost", cs.where())
    rep.floor("C01.flush", rep.instances("C01.flush"), 3)
    return FINISH
