"""C11 — Value equality, ordering and hashing are semantic.

  C11.view   what ==, Ord and Hash on Value read of the value's data is a *canonical view*: a type-directed
             traversal yielding exactly the information bits (CompactBitsIter via iter_compact), never the raw
             bytes of the shared buffer (RawByteIter/PreOrderIter expose sum padding and the bits that follow the
             value in its last byte), never Value's `inner`/`bit_offset` fields directly
  C11.agree  the three traits read the same view, of self (and other), after comparing/hashing the type;
             PartialOrd defers to Ord; Word's derived impls defer to Value's
  C11.type   the type comparison itself (Final: PartialEq/Ord/Hash) reads only the type Merkle root
"""
import facts as fm
from facts import Terms, show, leaves, calls_in
import vcc

VALUE = "simplicity::value::Value"
VALUEREF = "simplicity::value::ValueRef"
FINAL = "simplicity::types::final_data::Final"
CANONICAL_VIEWS = {"simplicity::value::CompactBitsIter"}
# views known to expose representation (padding / neighbouring bits): one line of reason each
RAW_VIEWS = {
    "simplicity::value::RawByteIter": "whole bytes of the shared buffer: sum padding and the bits after the value's last bit",
    "simplicity::value::PreOrderIter": "padded bit encoding: includes sum padding bits",
}
TRAITS = {"std::cmp::PartialEq": "eq", "std::cmp::Ord": "cmp", "std::hash::Hash": "hash"}
# methods of Value/ValueRef a comparison may call without touching representation
NEUTRAL = {"as_ref", "ty", "shallow_clone"}
# iterator consumers that summarise a sequence into one value
COLLAPSING = {"fold", "try_fold", "sum", "product", "count", "reduce", "last", "max", "min", "nth", "rfold"}
INTS = {"u8", "u16", "u32", "u64", "u128", "usize", "i8", "i16", "i32", "i64", "i128", "isize", "bool"}

FINISH = dict(level="other",
              explanation="Call-graph + provenance analysis of the three comparison trait impls of Value (and Final, "
                          "Word): which views of the value's data they consume. A necessary condition of semantic "
                          "equality, exact because the impls are three small functions.",
              assumptions=["CompactBitsIter yields exactly the information bits of a value of its type (its bit-level "
                           "correctness is C10, not decided here)"])


def bodies(F, f):
    return [f] + F.closures_of(f)


def run(ctx, rep):
    F = ctx.facts("full")
    rep.rule("C11.view", "==/Ord/Hash on Value consume only the canonical (compact, type-directed) view")
    rep.rule("C11.agree", "the three traits read the same view after the type; PartialOrd→Ord; Word→Value")
    rep.rule("C11.type", "Final's ==/Ord/Hash read only the TMR")

    # iterator types defined over Value: structs in value.rs with an Iterator impl
    iter_adts = set()
    for i in F.impls:
        if i.get("trait") == "std::iter::Iterator" and i.get("self_adt", "") and i["self_adt"].startswith("simplicity::value::"):
            iter_adts.add(i["self_adt"])
    rep.count("value_iterator_types", len(iter_adts))
    if not CANONICAL_VIEWS <= iter_adts:
        rep.anchor("C11.view", "canonical view type(s) %s" % sorted(CANONICAL_VIEWS - iter_adts))

    views_by_trait = {}
    for tr, mname in TRAITS.items():
        fs = [f for f in F.fns.values() if f.path == "<%s as %s>::%s" % (VALUE, tr, mname)]
        if len(fs) != 1:
            rep.anchor("C11.view", "<Value as %s>::%s" % (tr, mname))
            continue
        f = F.inlined(fs[0])   # private same-file helpers are spliced in
        views = set()
        ty_read = False
        collapsed = []
        raw_fields = []
        val_methods = set()
        for bfn in bodies(F, f):
            T = Terms(bfn)
            for cs in bfn.calls():
                callee_fn = F.fn(cs.callee)
                # which view does this call hand out?  classify by the type of the call's destination
                dty = bfn.locals[cs.dest[0]] if not cs.dest[1] else ""
                for it in iter_adts:
                    if dty.startswith(it):
                        views.add(it)
                # or by the Self type of an iterator adaptor consumed (Iterator::eq / cmp / next)
                if cs.trait == "std::iter::Iterator" or cs.decl.startswith("std::iter::Iterator::"):
                    for a in cs.f.get("args", []):
                        for it in iter_adts:
                            if a.startswith(it):
                                views.add(it)
                if callee_fn is not None and callee_fn.impl_adt in (VALUE, VALUEREF) and not callee_fn.impl_trait:
                    val_methods.add(callee_fn.name)
                # the type is compared/hashed: a call whose first argument is self.ty
                if cs.args:
                    t0 = T.operand(cs.args[0])
                    if any(x[0] == "parampath" and x[3][-1:] == ("ty",) for x in leaves(t0)):
                        ty_read = True
            # the view collapsed into a fixed-size number before comparison: sequences of different length (sums) collide
            if mname in ("eq", "cmp"):
                for cs in bfn.calls():
                    if not (cs.trait == "std::iter::Iterator" or cs.decl.startswith("std::iter::Iterator::")):
                        continue
                    if cs.name not in COLLAPSING or not any(a.startswith(it) for a in cs.f.get("args", []) for it in iter_adts):
                        continue
                    dty = bfn.locals[cs.dest[0]] if not cs.dest[1] else ""
                    dty = dty if isinstance(dty, str) else dty.get("ty", "")
                    if dty in INTS or any(a in INTS for a in cs.f.get("args", [])[1:]):
                        collapsed.append((cs, dty))
            # direct reads of the raw buffer
            for b in bfn.rpo():
                for s in bfn.blocks[b]["s"]:
                    if s[0] == "=":
                        for pl in _places(s[2]):
                            if any(p in (".inner", ".bit_offset") for p in pl[1]):
                                raw_fields.append("%s:%s" % (bfn.file, s[3]))
        views_by_trait[mname] = views
        key = "Value::" + mname
        bad = False
        for v in sorted(views):
            if v in RAW_VIEWS:
                rep.violation("C11.view", key + ":" + v.rsplit("::", 1)[1],
                              "%s reads the value through %s (%s), so the result depends on how the value was produced, "
                              "not on the element it denotes" % (key, v.rsplit("::", 1)[1], RAW_VIEWS[v]), f.where())
                bad = True
            elif v not in CANONICAL_VIEWS:
                rep.violation("C11.view", key + ":UNREVIEWED:" + v.rsplit("::", 1)[1],
                              "%s reads the value through %s, which is not a reviewed canonical view" % (key, v), f.where())
                bad = True
        for cs, dty in collapsed:
            rep.violation("C11.view", key + ":collapsed:" + cs.name, "%s folds the canonical bit sequence into a %s with Iterator::%s before comparing: the "
                          "compact encodings of one sum type differ in length, and sequences of different length can give the same number"
                          % (key, dty or "fixed-size integer", cs.name), cs.where())
            bad = True
        for w in sorted(set(raw_fields)):
            rep.violation("C11.view", key + ":rawfield", "%s reads Value's buffer/offset fields directly" % key, w)
            bad = True
        extra = val_methods - NEUTRAL - {"iter_compact"}
        for m in sorted(extra):
            rep.violation("C11.view", key + ":method:" + m, "%s calls Value::%s, not a reviewed canonical accessor" % (key, m), f.where())
            bad = True
        if not views & CANONICAL_VIEWS:
            rep.violation("C11.view", key + ":noview", "%s does not read the value's bits at all (views: %s)" % (key, sorted(views)), f.where())
            bad = True
        if not bad:
            rep.ok("C11.view", key, sorted(v.rsplit("::", 1)[1] for v in views))
        if ty_read:
            rep.ok("C11.agree", key + " reads the type", None)
        else:
            rep.violation("C11.agree", key + ":type", "%s does not compare/hash the type" % key, f.where())
    if len(views_by_trait) == 3:
        if len({frozenset(v) for v in views_by_trait.values()}) == 1:
            rep.ok("C11.agree", "eq/cmp/hash read the same view", sorted(next(iter(views_by_trait.values()))))
        else:
            rep.violation("C11.agree", "views-differ", "eq, cmp and hash read different views: %s" %
                          {k: sorted(v) for k, v in views_by_trait.items()})
    # both operands: the consumed iterators derive from self and from other
    for mname in ("eq", "cmp"):
        fs = [f for f in F.fns.values() if f.impl_adt == VALUE and f.name == mname and f.impl_trait in TRAITS]
        if not fs:
            continue
        f = F.inlined(fs[0])
        found = False
        for bfn in bodies(F, f):
            T = Terms(bfn)
            for cs in bfn.calls():
                if cs.decl in ("std::iter::Iterator::eq", "std::iter::Iterator::cmp") and len(cs.args) == 2:
                    found = True
                    t0, t1 = T.operand(cs.args[0]), T.operand(cs.args[1])
                    n0 = {c[2] for c in calls_in(t0)}
                    n1 = {c[2] for c in calls_in(t1)}
                    d0, d1 = _origin_names(t0), _origin_names(t1)
                    if n0 == n1 and d0 and d1 and d0 != d1:
                        rep.ok("C11.agree", "Value::%s compares self with other through the same view" % mname,
                               [show(t0), show(t1)])
                    else:
                        rep.violation("C11.agree", "Value::%s:operands" % mname, "compares %s with %s" % (show(t0), show(t1)), cs.where())
        if not found:
            rep.violation("C11.agree", "Value::%s:operands" % mname, "no Iterator::%s over the two operands found" % mname, f.where())
    # PartialOrd defers to Ord
    po = [f for f in F.fns.values() if f.impl_adt == VALUE and f.impl_trait == "std::cmp::PartialOrd" and f.name == "partial_cmp"]
    if len(po) != 1:
        rep.anchor("C11.agree", "<Value as PartialOrd>::partial_cmp")
    else:
        cal = {cs.callee for cs in po[0].calls()}
        if any(c.endswith("as std::cmp::Ord>::cmp") and "value::Value" in c for c in cal):
            rep.ok("C11.agree", "PartialOrd defers to Ord", None)
        else:
            rep.violation("C11.agree", "partial_cmp", "partial_cmp does not defer to Ord::cmp (calls %s)" % sorted(cal), po[0].where())
    # Word's derived impls defer to Value's
    for tr, mname in list(TRAITS.items()):
        fs = [f for f in F.fns.values() if f.impl_adt == "simplicity::value::Word" and f.impl_trait == tr and f.name == mname]
        if len(fs) != 1:
            rep.anchor("C11.agree", "<Word as %s>::%s" % (tr, mname))
            continue
        cal = {cs.callee for cs in fs[0].calls()}
        want = "<simplicity::value::Value as %s>::%s" % (tr, mname)
        if want in cal:
            rep.ok("C11.agree", "Word::%s defers to Value::%s" % (mname, mname), None)
        else:
            rep.violation("C11.agree", "Word::" + mname, "Word's %s does not use Value's (calls %s)" % (mname, sorted(cal)), fs[0].where())

    # ---------- the type comparison ----------
    for tr, mname in TRAITS.items():
        fs = [f for f in F.fns.values() if f.path == "<%s as %s>::%s" % (FINAL, tr, mname)]
        if len(fs) != 1:
            rep.anchor("C11.type", "<Final as %s>::%s" % (tr, mname))
            continue
        f = fs[0]
        T = Terms(f)
        fields = set()
        for cs in f.calls():
            for a in cs.args:
                for x in leaves(T.operand(a)):
                    if x[0] == "parampath" and x[1] in (1, 2) and x[2] in ("self", "other"):
                        fields.add(x[3])
        if fields == {("tmr",)}:
            rep.ok("C11.type", "Final::" + mname, "reads only .tmr")
        else:
            rep.violation("C11.type", "Final::" + mname, "reads fields %s of the type, expected only the TMR" % sorted(fields), f.where())
    # no pointer-identity comparison of types anywhere (thread-local type tables are per thread)
    sites = pointer_identity_sites(F)
    for f, cs, what in sites:
        rep.violation("C11.type", "ptr_eq:" + f.path, "%s on a type: identity depends on which thread/table built it, not on the type it denotes" % what, cs.where())
    if not sites:
        rep.ok("C11.type", "no pointer-identity comparison of types (Arc::ptr_eq, ptr::eq, ptr::addr_eq on Final)", None)
    return FINISH


def pointer_identity_sites(F):
    """[(fn, call site, what)]: comparisons of the *addresses* of types (Final) rather than of their Merkle roots"""
    out = []
    for f in F.fns.values():
        if not f.path.startswith(("simplicity::", "<simplicity::")):
            continue
        for cs in f.calls():
            ga = " ".join(cs.f.get("args", []))
            cal = cs.callee or ""
            if "final_data::Final" not in ga:
                continue
            if cs.name == "ptr_eq" and ("Arc" in cal or "Rc" in cal):
                out.append((f, cs, "Arc::ptr_eq"))
            elif cs.name in ("eq", "addr_eq", "fn_addr_eq") and cal.startswith(("std::ptr::", "core::ptr::")):
                out.append((f, cs, "ptr::" + cs.name))
    return out


def _places(rv):
    out = []
    for key in ("a", "b"):
        o = rv.get(key)
        if isinstance(o, dict) and o.get("k") in ("copy", "move"):
            out.append(o["p"])
    if "p" in rv:
        out.append(rv["p"])
    for o in rv.get("ops", []):
        if o.get("k") in ("copy", "move"):
            out.append(o["p"])
    return out


def _origin_names(t):
    return _cap(t)


def _cap(t):
    """origin names including closure-captured variable names (field of param 1 of a closure)."""
    out = set()
    for x in leaves(t):
        if x[0] == "param":
            out.add(str(x[2] or x[1]))
        elif x[0] == "parampath":
            out.add(str(x[2] or x[1]) + "." + ".".join(x[3]))
    return frozenset(out)
