"""Variant-constructor correspondence (VCC): the repository's own naming convention that ties the 16
variants of node::Inner to the Constructible trait methods and to the same-named functions of each
combinator algebra (Cmr, Imr/Ihr, Amr, NodeBounds, Arrow, ...)."""

INNER = "simplicity::node::inner::Inner"
CORE = "simplicity::node::CoreConstructible"
DISC = "simplicity::node::DisconnectConstructible"
WIT = "simplicity::node::WitnessConstructible"
CONSTRUCTIBLE_TRAITS = (CORE, DISC, WIT)

VARIANTS = ["Iden", "Unit", "InjL", "InjR", "Take", "Drop", "Comp", "Case", "AssertL", "AssertR", "Pair",
            "Disconnect", "Witness", "Fail", "Jet", "Word"]

# variant -> trait method
METHOD_OF = {
    "Iden": "iden", "Unit": "unit", "InjL": "injl", "InjR": "injr", "Take": "take", "Drop": "drop_",
    "Comp": "comp", "Case": "case", "AssertL": "assertl", "AssertR": "assertr", "Pair": "pair",
    "Disconnect": "disconnect", "Witness": "witness", "Fail": "fail", "Jet": "jet", "Word": "const_word",
}
VARIANT_OF = {v: k for k, v in METHOD_OF.items()}

# method -> name of the function of a combinator algebra (Cmr::drop, Amr::drop, NodeBounds::drop ...)
ALG_OF = {m: m for m in VARIANT_OF}
ALG_OF["drop_"] = "drop"

# the documented fold: the commitment root of an assertion is that of the case it came from
CMR_ALG_OF = dict(ALG_OF)
CMR_ALG_OF["assertl"] = "case"
CMR_ALG_OF["assertr"] = "case"

# method -> indices (1-based MIR parameter numbers) of the parameters that are, in order, the
# arguments of the algebra function: children first-to-last / the payload
ARG_PARAMS = {
    "iden": [], "unit": [], "injl": [1], "injr": [1], "take": [1], "drop_": [1],
    "comp": [1, 2], "case": [1, 2], "assertl": [1, 2], "assertr": [1, 2], "pair": [1, 2],
    "fail": [2], "const_word": [2], "jet": [2], "disconnect": [1], "witness": [],
}

# number of node children per variant (left, right) and payload kind
ARITY = {
    "Iden": 0, "Unit": 0, "Witness": 0, "Fail": 0, "Jet": 0, "Word": 0,
    "InjL": 1, "InjR": 1, "Take": 1, "Drop": 1, "AssertL": 1, "AssertR": 1,
    "Comp": 2, "Case": 2, "Pair": 2, "Disconnect": 2,
}


def param_roots(term, facts_mod):
    """Set of parameter indices a term's value derives from."""
    out = set()
    for lf in facts_mod.leaves(term):
        if lf[0] == "param":
            out.add(lf[1])
        elif lf[0] == "parampath":
            out.add(lf[1])
    return out
