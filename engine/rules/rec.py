"""Input-depth recursion: cyclic components of the call graph reachable from entry points.

A component whose cycles all need static dispatch on a type parameter (no 'hard' edge inside) is type-bounded
and dropped.  Every other component must be in the REVIEWED table below (keyed by the set of its member
functions, reduced to stable short names) with a classification and a one-line reason; a component that is
not listed is reported as UNREVIEWED (new recursion must be read before it is accepted).
"""
import re


def short(p):
    p = p.replace("simplicity::", "")
    p = re.sub(r"<'[a-z_]+>", "", p)
    p = re.sub(r"'[a-z_]+, ?", "", p)
    p = re.sub(r"'[a-z_]+", "", p)
    return p


def signature(comp):
    return " | ".join(sorted(short(x) for x in comp))


# classification: 'bounded' (depth bounded by a constant of the code), 'unreachable' (only in the over-approximate
# graph), 'input-depth' (depth driven by input: a violation, possibly a known finding)
REVIEWED = [
    (r"<&mut dyn dag::SharingTracker<D> as dag::SharingTracker<D>>::(record|seen_before) \| <dag::MaxSharing<N> as dag::SharingTracker<dag::SwapChildren<D>>>::(record|seen_before)$",
     "bounded", "forwarding impl for `&mut dyn SharingTracker`: depth = number of nested &mut dyn wrappers built by the caller, a constant of the code"),
    (r"^<bit_encoding::bititer::BitIter<I> as std::iter::Iterator>::next$",
     "bounded", "self call after refilling the cached byte: the refill sets read_bits so that the recursive call takes the other branch (depth <= 1)"),
    (r"ContextInner>>::bind \| .*ContextInner>>::unify \| .*ContextInner>>::unify::\{closure#0\}$",
     "input-depth", "bind <-> unify recursion, depth = depth of the types being unified (input controlled)"),
    (r"Populator<.*?> as node::convert::Converter<.*>>::convert_disconnect.*node::Node::<N>::convert",
     "input-depth-human", "Node::convert re-entered from Populator::convert_disconnect: depth = nesting of disconnect holes in a human-readable program; Populator is only built by Forest::to_witness_node, never on a binary decode path"),
    (r"^human_encoding::parse::ast::Type::reify$",
     "input-depth-human", "Type::reify recurses over the parsed type tree (depth = nesting of the type annotation)"),
    (r"^human_encoding::parse::ast::parse_type \| human_encoding::parse::ast::parse_type_atom( \| human_encoding::parse::ast::parse_type_atom_no_suffix)?$",
     "input-depth-human", "recursive-descent type parser (depth = parenthesis nesting of the input)"),
    (r"^human_encoding::parse::ast::parse_cmr \| human_encoding::parse::ast::parse_expr$",
     "input-depth-human", "recursive-descent expression parser (depth = nesting of the input)"),
]


def classify(F, roots):
    """-> list of dicts {members, sig, hard_edges, kind, reason}; kind None = unreviewed"""
    comps, seen = F.sccs_rec(roots)
    out = []
    dropped = 0
    for comp, hard in comps:
        if not hard:
            dropped += 1
            continue
        sig = signature(comp)
        kind = reason = None
        for pat, k, r in REVIEWED:
            if re.search(pat, sig):
                kind, reason = k, r
                break
        out.append({"members": comp, "sig": sig, "hard": hard, "kind": kind, "reason": reason})
    return out, len(seen), dropped
