"""Input-depth recursion: cyclic components of the call graph reachable from entry points.

A component whose cycles all need static dispatch on a type parameter (no 'hard' edge inside) is type-bounded
and dropped.  Every other component must be in the REVIEWED table below (keyed by the set of its member
functions, reduced to stable short names) with a classification and a one-line reason; a component that is
not listed is reported as UNREVIEWED (new recursion must be read before it is accepted).
"""
import re


def short(p):
    p = p.replace("simplicity::", "")
    p = re.sub(r"<'[a-z_]+>", "", p)
    p = re.sub(r"'[a-z_]+, ?", "", p)
    p = re.sub(r"'[a-z_]+", "", p)
    return p


def signature(comp):
    return " | ".join(sorted(short(x) for x in comp))


# classification: 'bounded' (depth bounded by a constant of the code), 'unreachable' (only in the over-approximate
# graph), 'input-depth' (depth driven by input: a violation, possibly a known finding)
REVIEWED = [
    (r"<&mut dyn dag::SharingTracker<D> as dag::SharingTracker<D>>::(record|seen_before) \| <dag::MaxSharing<N> as dag::SharingTracker<dag::SwapChildren<D>>>::(record|seen_before)$",
     "bounded", "forwarding impl for `&mut dyn SharingTracker`: depth = number of nested &mut dyn wrappers built by the caller, a constant of the code"),
    (r"^<bit_encoding::bititer::BitIter<I> as std::iter::Iterator>::next$",
     "bounded", "self call after refilling the cached byte: the refill sets read_bits so that the recursive call takes the other branch (depth <= 1)"),
    (r"types::context::<impl types::union_bound::WithGhostToken<types::context::\w+>>::bind \| types::context::<impl types::union_bound::WithGhostToken<types::context::\w+>>::unify( \| types::context::<impl types::union_bound::WithGhostToken<types::context::\w+>>::unify::\{closure#0\})?$",
     "input-depth", "bind <-> unify recursion, depth = depth of the types being unified (input controlled)"),
    (r"Populator<.*?> as node::convert::Converter<.*>>::convert_disconnect.*node::Node::<N>::convert",
     "input-depth-human", "Node::convert re-entered from Populator::convert_disconnect: depth = nesting of disconnect holes in a human-readable program; Populator is only built by Forest::to_witness_node, never on a binary decode path"),
    (r"^human_encoding::parse::ast::Type::reify$",
     "input-depth-human", "Type::reify recurses over the parsed type tree (depth = nesting of the type annotation)"),
    (r"^human_encoding::parse::ast::parse_type \| human_encoding::parse::ast::parse_type_atom( \| human_encoding::parse::ast::parse_type_atom_no_suffix)?$",
     "input-depth-human", "recursive-descent type parser (depth = parenthesis nesting of the input)"),
    (r"^human_encoding::parse::ast::parse_cmr \| human_encoding::parse::ast::parse_expr$",
     "input-depth-human", "recursive-descent expression parser (depth = nesting of the input)"),
]


def _without_helpers(F, comp):
    comp = set(comp)
    core = set(comp)
    for p in sorted(comp):
        g = F.fns.get(p)
        if g is None or g.vis == "pub" or g.impl_trait or g.kind not in ("Fn", "AssocFn"):
            continue
        if any(cs.callee == p for cs in g.calls()):
            continue     # recursive on its own
        if any(re.search(r"\b%s\b" % re.escape(g.name), pat.replace("\\", "")) for pat, _k, _r in REVIEWED):
            continue     # named in the reviewed table: part of the reviewed recursion itself
        cg = F.callgraph_rec()     # a helper handed on as a function value (a closure turned into a method) is referenced, not called
        callers = [q for q in comp if q != p and q in F.fns and (any(cs.callee == p for cs in F.fns[q].calls()) or p in cg.get(q, ()))]
        if callers and all(F.fns[q].file == g.file for q in callers):
            core.discard(p)
    return core


def classify(F, roots):
    """-> list of dicts {members, sig, hard_edges, kind, reason}; kind None = unreviewed"""
    comps, seen = F.sccs_rec(roots)
    out = []
    dropped = 0
    for comp, hard in comps:
        if not hard:
            dropped += 1
            continue
        sig = signature(comp)
        kind = reason = None
        for pat, k, r in REVIEWED:
            if re.search(pat, sig):
                kind, reason = k, r
                break
        if kind is None:
            # a reviewed recursive function split into private helpers (one per token kind, ...) is the same recursion:
            # drop members that are private same-file helpers called from another member and not recursive on their own
            core = _without_helpers(F, comp)
            if core and core != set(comp):
                sig2 = signature(core)
                for pat, k, r in REVIEWED:
                    if re.search(pat, sig2):
                        kind, reason = k, r + " (through the private helpers %s)" % ", ".join(sorted(short(x).rsplit("::", 1)[-1] for x in set(comp) - core))
                        break
        out.append({"members": comp, "sig": sig, "hard": hard, "kind": kind, "reason": reason})
    return out, len(seen), dropped
