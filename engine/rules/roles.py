"""Roles of the Converter implementations, found from how the public entry points use them — not from their names.

The decoder, the pruner and the finalisers are small structs implementing `node::Converter`.  They are private, often local
to a function body, and a maintainer is free to rename them or move them to module level.  What identifies them is the
route that applies them: the converter type argument of the `convert::<S, M, C>` call(s) made by
  RedeemNode::decode                -> role "decode::DecodeFinalizer"
  RedeemNode::prune_with_tracker    -> roles "prune_with_tracker::Pruner" (first conversion), "prune_with_tracker::Finalizer" (second)
  ConstructNode::finalize_unpruned  -> role "finalize_unpruned::Finalizer"
(the labels are the names those structs have on the pinned tree; they are used in report keys and in known_findings.json, so a
rename does not change a key).  `convert` calls are looked for in the entry point, in the private helpers it was split into, and
in the closures of all of these.
"""
import re

REDEEM = "simplicity::node::redeem::<impl simplicity::node::Node<simplicity::node::redeem::Redeem>>::"
CONSTRUCT = "simplicity::node::construct::<impl simplicity::node::Node<simplicity::node::construct::Construct<'brand>>>::"
ROUTES = [
    (REDEEM + "decode", ["decode::DecodeFinalizer"]),
    (REDEEM + "prune_with_tracker", ["prune_with_tracker::Pruner", "prune_with_tracker::Finalizer"]),
    (CONSTRUCT + "finalize_unpruned", ["finalize_unpruned::Finalizer"]),
]


def base(ty):
    """type path without its trailing generic arguments"""
    ty = ty.strip()
    depth = 0
    for i in range(len(ty) - 1, -1, -1):
        ch = ty[i]
        if ch == ">":
            depth += 1
        elif ch == "<":
            depth -= 1
            if depth == 0 and ty.endswith(">"):
                # only strip if this '<' opens the final generic list of the last path segment
                head = ty[:i]
                if not head.endswith("::") and "::" in head and not head.rsplit("::", 1)[-1].startswith("<"):
                    return head
                return ty
    return ty


def route_views(F, entry):
    """the entry function with its private helpers spliced in, plus the closures of the entry and of those helpers (each with
    its own helpers spliced in): every body that runs as part of the route"""
    f0 = F.fn(entry)
    if f0 is None:
        return []
    fi = F.inlined(f0, ("convert",))
    owners = [f0] + [F.fns[p] for p in getattr(fi, "inlined_helpers", ()) if p in F.fns]
    views = [fi]
    seen = {f0.path}
    for o in owners:
        for c in F.closures_of(o):
            if c.path not in seen:
                seen.add(c.path)
                ci = F.inlined(c, ("convert",))
                views.append(ci)
                for p in getattr(ci, "inlined_helpers", ()):
                    for c2 in F.closures_of(F.fns[p]) if p in F.fns else []:
                        if c2.path not in seen:
                            seen.add(c2.path)
                            views.append(F.inlined(c2, ("convert",)))
    return views


def convert_calls(F, entry):
    """[(view, call site)] of Node::convert on the route, in execution order within each body"""
    out = []
    for v in route_views(F, entry):
        cs_ = [cs for cs in v.calls() if cs.name == "convert" and "node::Node" in (cs.callee or "") and len(cs.f.get("args", [])) >= 4]
        cs_.sort(key=lambda cs: sum(1 for o in cs_ if o is not cs and v.dominates(o.bb, cs.bb)))
        out += [(v, cs) for cs in cs_]
    return out


def converters(F):
    """{role label: base path of the converter type}"""
    cache = F.__dict__.setdefault("_roles", None)
    if cache is not None:
        return cache
    roles = {}
    for entry, labels in ROUTES:
        calls = convert_calls(F, entry)
        for lab, (v, cs) in zip(labels, calls):
            roles[lab] = base(cs.f["args"][-1])
    F.__dict__["_roles"] = roles
    return roles


def role_of(F, impl_self):
    """the role label of a converter type (given as an impl's Self type), or None"""
    if not impl_self:
        return None
    b = base(impl_self)
    for lab, ty in converters(F).items():
        if ty == b:
            return lab
    return None


def methods(F, label, name):
    """the Converter methods `name` of the type playing role `label`"""
    ty = converters(F).get(label)
    if ty is None:
        return []
    return [f for f in F.fns.values() if f.name == name and f.impl_self and base(f.impl_self) == ty
            and (f.impl_trait or "").endswith("node::convert::Converter")]


def label_for(F, f):
    """stable label of a Converter method's Self type for report keys: the role if it has one, else the type's own path"""
    r = role_of(F, f.impl_self)
    if r is not None:
        return r
    return re.sub(r"^simplicity::", "", f.impl_self or f.path)


# the `who` strings report keys carried before roles existed (known_findings.json is keyed on them)
ROLE_WHO = {
    "finalize_unpruned::Finalizer": "node::construct::<impl node::Node<node::construct::Construct<'brand>>>::finalize_unpruned::Finalizer",
    "prune_with_tracker::Finalizer": "node::redeem::<impl node::Node<node::redeem::Redeem>>::prune_with_tracker::Finalizer",
    "prune_with_tracker::Pruner": "node::redeem::<impl node::Node<node::redeem::Redeem>>::prune_with_tracker::Pruner<'brand, 't, T>",
    "decode::DecodeFinalizer": "node::redeem::<impl node::Node<node::redeem::Redeem>>::decode::DecodeFinalizer<'_, I>",
}


def who(F, f):
    r = role_of(F, f.impl_self)
    if r is not None:
        return ROLE_WHO[r]
    return (f.impl_self or f.path).replace("simplicity::", "")
