"""pathval.py — forward expression propagation along one acyclic path of a function's MIR.

Terms (facts.py) reconstructs expressions *backwards* over whole locals and does not follow stores made through a
reference (`(*self).read_bits = ..`).  The bit reader/writer are small state machines whose whole point is those stores,
so this module walks one enumerated path forwards and keeps a field-sensitive store
    (local, projection without derefs)  ->  expression
from which the value of any place *at any point of the path* can be read.  Nothing is executed: values stay symbolic
(parameters, fields of `self` on entry, call results), only constants fold.

Expressions (tuples):
  ("int", v)                    ("param", name, proj)      value of a parameter / of a field of it on entry
  ("bin", op, a, b)             ("un", op, a)
  ("call", callee, args, site)  result of the call at block `site` of the path
  ("adt", adt, variant, fields, ops)   ("tuple", ops)   ("ref", key)
  ("proj", e, p)                projection that could not be resolved
  ("unk", what)
"""
import flow


def _strip(proj):
    return tuple(p for p in proj if p != "*")


class PathEval:
    def __init__(self, fn, path):
        self.fn = fn
        self.path = path
        self.store = {}
        self.events = []        # ("call", idx, callee, args, dest_key) / ("store", idx, key, expr) / ("cond", idx, expr, value)
        self.pnames = {}
        for n, p in fn.d.get("debug", []):
            if not p[1] and 1 <= p[0] <= fn.arg_count:
                self.pnames[p[0]] = n
        self.ret = None
        self.feasible = True
        self._run()

    # ---- places
    def key(self, p):
        l, proj = p[0], list(p[1])
        cur = (l, ())
        for q in proj:
            if q == "*":
                t = self.store.get(cur)
                if t is not None and t[0] == "ref":
                    cur = t[1]
                continue
            cur = (cur[0], cur[1] + (q,))
        return cur

    def read(self, key):
        if key in self.store:
            return self.store[key]
        l, proj = key
        for n in range(len(proj) - 1, -1, -1):
            pre = (l, proj[:n])
            if pre in self.store:
                t = self.store[pre]
                for q in proj[n:]:
                    t = project(t, q)
                return t
        if 1 <= l <= self.fn.arg_count:
            return ("param", self.pnames.get(l, "_%d" % l), proj)
        return ("unk", "_%d%s" % (l, "".join(proj)))

    def write(self, key, t):
        for k in [k for k in self.store if k[0] == key[0] and len(k[1]) > len(key[1]) and k[1][:len(key[1])] == key[1]]:
            del self.store[k]
        self.store[key] = t

    # ---- operands / rvalues
    def operand(self, o):
        k = o["k"]
        if k in ("copy", "move"):
            return self.read(self.key(o["p"]))
        if k == "const":
            if "int" in o:
                try:
                    return ("int", int(o["int"]))
                except (TypeError, ValueError):
                    return ("unk", "const")
            if "uint_s" in o:
                return ("int", int(o["uint_s"]))
            if "fn" in o:
                return ("fnitem", o["fn"].get("res") or o["fn"].get("path"))
            if "variant" in o and "enum" in o:
                return ("adt", o["enum"], o["variant"], (), ())
            if "str" in o:
                return ("str", o["str"])
            return ("unk", "const:" + str(o.get("ty")))
        return ("unk", str(k))

    def rvalue(self, r):
        k = r["k"]
        if k == "use":
            return self.operand(r["a"])
        if k in ("ref", "rawptr"):
            return ("ref", self.key(r["p"]))
        if k == "cast":
            return self.operand(r["a"])          # integer widening/narrowing is transparent for the shapes judged here
        if k == "bin":
            a, b = self.operand(r["a"]), self.operand(r["b"])
            op = r["op"]
            if op.endswith("WithOverflow"):
                return ("tuple", (fold(("bin", op[:-len("WithOverflow")], a, b)), ("int", 0)))
            return fold(("bin", op, a, b))
        if k == "un":
            return ("un", r["op"], self.operand(r["a"]))
        if k == "discr":
            vm = tuple((str(v[0]), v[1]) for v in r.get("variants", []) or [])
            return ("discr", self.read(self.key(r["p"])), vm)
        if k == "agg":
            ops = tuple(self.operand(o) for o in r["ops"])
            if r["agg"] == "adt":
                return ("adt", r["adt"], r["variant"], tuple(r["fields"]), ops)
            if r["agg"] == "closure":
                return ("closure", r["closure"], ops)
            return ("tuple", ops) if r["agg"] == "tuple" else ("array", ops)
        if k == "repeat":
            return ("repeat", self.operand(r["a"]), r.get("n"))
        return ("unk", k)

    def _run(self):
        fn = self.fn
        for i, b in enumerate(self.path):
            blk = fn.blocks[b]
            for s in blk["s"]:
                if s[0] != "=":
                    continue
                key = self.key(s[1])
                t = self.rvalue(s[2])
                self.write(key, t)
                self.events.append(("store", i, key, t))
            t = blk["t"]
            k = t["k"]
            nxt = self.path[i + 1] if i + 1 < len(self.path) else None
            if k == "call":
                f = t["f"]
                callee = f.get("res") or f.get("path") or "<indirect>"
                args = tuple(self.operand(a) for a in t["args"])
                dkey = self.key(t["dest"])
                self.events.append(("call", i, callee, args, dkey, f))
                self.write(dkey, ("call", callee, args, b))
            elif k == "switch":
                d = self.operand(t["discr"])
                val = [v for v, tg in t["targets"] if tg == nxt]
                v = val[0] if val else "else"
                if d[0] == "discr" and len(d) > 2 and d[2]:
                    vm = dict(d[2])
                    if v != "else":
                        v = vm.get(str(v), v)
                    else:
                        rest = [n for c, n in d[2] if c not in {str(x) for x, _ in t["targets"]}]
                        if len(rest) == 1:
                            v = rest[0]
                if d[0] == "int" and nxt is not None:
                    tg = dict((str(x), y) for x, y in t["targets"]).get(str(d[1]), t.get("otherwise"))
                    if tg != nxt:
                        self.feasible = False
                self.events.append(("cond", i, d, v))
            elif k == "return":
                self.ret = self.read((0, ()))


def project(t, q):
    if q == "*":
        return t
    if q.startswith("."):
        name = q[1:]
        if t[0] == "tuple" and name.isdigit() and int(name) < len(t[1]):
            return t[1][int(name)]
        if t[0] == "adt":
            if name in t[3]:
                return t[4][t[3].index(name)]
            if name.isdigit() and int(name) < len(t[4]):
                return t[4][int(name)]
        if t[0] == "param":
            return ("param", t[1], t[2] + (q,))
    if q.startswith("@"):
        if t[0] == "adt" and t[2] == q[1:]:
            return t
        if t[0] == "param":
            return ("param", t[1], t[2] + (q,))
    return ("proj", t, q)


def fold(t):
    if t[0] == "bin" and t[2][0] == "int" and t[3][0] == "int":
        a, b, op = t[2][1], t[3][1], t[1]
        try:
            if op == "Add":
                return ("int", a + b)
            if op == "Sub":
                return ("int", a - b)
            if op == "Mul":
                return ("int", a * b)
            if op == "Shl":
                return ("int", a << b)
            if op == "Shr":
                return ("int", a >> b)
        except (ValueError, OverflowError):
            pass
    return t


def lin(t):
    """linear form of an integer expression: ({atom: coeff}, const); non-arithmetic sub-expressions are atoms."""
    if t[0] == "int":
        return ({}, t[1])
    if t[0] == "bin" and t[1] in ("Add", "Sub"):
        a, ca = lin(t[2])
        b, cb = lin(t[3])
        sg = 1 if t[1] == "Add" else -1
        out = dict(a)
        for k, v in b.items():
            out[k] = out.get(k, 0) + sg * v
        return ({k: v for k, v in out.items() if v}, ca + sg * cb)
    if t[0] == "bin" and t[1] == "Mul":
        for x, y in ((t[2], t[3]), (t[3], t[2])):
            if x[0] == "int":
                a, c = lin(y)
                return ({k: v * x[1] for k, v in a.items() if v * x[1]}, c * x[1])
    if t[0] == "call" and len(t[2]) == 2:
        nm = t[1]
        for suffix, op in (("::saturating_sub", "Sub"), ("::wrapping_sub", "Sub"), ("::saturating_add", "Add"), ("::wrapping_add", "Add")):
            if nm.endswith(suffix):
                return lin(("bin", op, t[2][0], t[2][1]))
    return ({t: 1}, 0)


def subexprs(t, out=None):
    if out is None:
        out = []
    out.append(t)
    if t[0] in ("bin",):
        subexprs(t[2], out)
        subexprs(t[3], out)
    elif t[0] == "un":
        subexprs(t[2], out)
    elif t[0] in ("tuple", "array"):
        for x in t[1]:
            subexprs(x, out)
    elif t[0] == "adt":
        for x in t[4]:
            subexprs(x, out)
    elif t[0] == "call":
        for x in t[2]:
            subexprs(x, out)
    elif t[0] in ("proj", "discr"):
        subexprs(t[1], out)
    return out


def show(t, d=0):
    if d > 8:
        return "…"
    k = t[0]
    if k == "int":
        return str(t[1])
    if k == "param":
        return t[1] + "".join(t[2])
    if k == "bin":
        return "%s(%s, %s)" % (t[1], show(t[2], d + 1), show(t[3], d + 1))
    if k == "un":
        return "%s(%s)" % (t[1], show(t[2], d + 1))
    if k == "call":
        return "%s(%s)@bb%s" % (t[1].rsplit("::", 1)[-1], ", ".join(show(a, d + 1) for a in t[2]), t[3])
    if k == "adt":
        return "%s::%s{%s}" % (t[1].rsplit("::", 1)[-1], t[2], ", ".join("%s: %s" % (f, show(o, d + 1)) for f, o in zip(t[3], t[4])))
    if k in ("tuple", "array"):
        return "(%s)" % ", ".join(show(x, d + 1) for x in t[1])
    if k == "proj":
        return "%s%s" % (show(t[1], d + 1), t[2])
    if k == "ref":
        return "&_%d%s" % (t[1][0], "".join(t[1][1]))
    if k == "discr":
        return "discr(%s)" % show(t[1], d + 1)
    if k == "fnitem":
        return "fn:%s" % t[1]
    if k == "closure":
        return "closure %s [%s]" % (t[1].rsplit("::", 1)[-1], ", ".join(show(x, d + 1) for x in t[2]))
    return str(t)[:80]


def paths(fn, limit=4000, backedges=False):
    """acyclic entry-to-exit paths (block lists) of fn, without unwinding and panic-only tails; with backedges=True also the
    paths that end where the next block would be one already on the path (one trip through a loop body up to its back edge)"""
    if not backedges:
        return [p for p, _ in flow.path_conditions(fn, limit=limit)]
    succ = fn.succ_map()
    out = []

    def go(b, acc):
        if len(out) > limit:
            return
        acc = acc + [b]
        nxt = succ[b]
        if not nxt:
            out.append(acc)
            return
        for s in nxt:
            if s in acc:
                out.append(acc + [("back", s)])
            else:
                go(s, acc)
    go(0, [])
    res = []
    for p in out:
        if p and isinstance(p[-1], tuple):
            res.append((p[:-1], p[-1][1]))
        else:
            res.append((p, None))
    return res
