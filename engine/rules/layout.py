"""Structural layout (x86-64 SysV) of #[repr(C)] Rust types and of C records, from type facts only.

A layout is (size, align, cls) with cls in p(ointer) i(nteger) b(ool) e(num) s(truct) u(nion) a(rray) z(ero-sized).
Used by C14.layout to compare each mirrored struct field by field (offset, size, class).
"""
import os
import re


class LayoutError(Exception):
    pass


C_PRIM = {
    "_Bool": (1, 1, "b"), "bool": (1, 1, "b"),
    "char": (1, 1, "i"), "signed char": (1, 1, "i"), "unsigned char": (1, 1, "i"),
    "short": (2, 2, "i"), "unsigned short": (2, 2, "i"),
    "int": (4, 4, "i"), "unsigned int": (4, 4, "i"), "unsigned": (4, 4, "i"),
    "long": (8, 8, "i"), "unsigned long": (8, 8, "i"), "long long": (8, 8, "i"), "unsigned long long": (8, 8, "i"),
    "size_t": (8, 8, "i"), "uint_fast8_t": (1, 1, "i"), "uint_fast16_t": (8, 8, "i"), "uint_fast32_t": (8, 8, "i"),
    "uint_fast64_t": (8, 8, "i"), "uint_least32_t": (4, 4, "i"), "uint8_t": (1, 1, "i"), "uint16_t": (2, 2, "i"),
    "uint32_t": (4, 4, "i"), "uint64_t": (8, 8, "i"), "int32_t": (4, 4, "i"), "int64_t": (8, 8, "i"),
    "int_fast32_t": (8, 8, "i"), "int_fast16_t": (8, 8, "i"),
}


def _agg(fields, union):
    off = 0
    size = 0
    align = 1
    out = []
    for name, (s, a, c) in fields:
        align = max(align, a)
        if union:
            out.append((name, 0, s, c))
            size = max(size, s)
        else:
            off = (off + a - 1) // a * a
            out.append((name, off, s, c))
            off += s
            size = off
    size = (size + align - 1) // align * align
    return size, align, out


class CLayout:
    def __init__(self, C):
        self.C = C
        self.memo = {}

    def record(self, name):
        if name in self.memo:
            return self.memo[name]
        r = self.C["records"].get(name)
        if r is None:
            raise LayoutError("C record %s not found" % name)
        fields = [(f[0], self.ty(f[1])) for f in r["fields"]]
        size, align, out = _agg(fields, r.get("tag") == "union")
        self.memo[name] = (size, align, "u" if r.get("tag") == "union" else "s", out)
        return self.memo[name]

    def record_name(self, t):
        """name of the record a (non-pointer, non-array) field type denotes, else None"""
        t = re.sub(r"\s+", " ", t).strip()
        m = re.search(r"\((?:anonymous|unnamed)(?: struct| union)? at ([^:()]+):(\d+):\d+\)", t)
        if m:
            return "anon@%s:%s" % (os.path.basename(m.group(1)), m.group(2))
        if "*" in t or "[" in t:
            return None
        t = re.sub(r"^const | const$", "", t).strip()
        t2 = re.sub(r"^(struct|union) ", "", t)
        for _ in range(6):
            if t2 in self.C["records"]:
                return t2
            td = self.C["typedefs"].get(t2)
            if td is None:
                return None
            t2 = re.sub(r"^(struct|union) ", "", td.get("type") or "")
        return None

    def ty(self, t):
        t = re.sub(r"\s+", " ", t).strip()
        m = re.search(r"\((?:anonymous|unnamed)(?: struct| union)? at ([^:()]+):(\d+):\d+\)", t)
        if m:
            r = self.record("anon@%s:%s" % (os.path.basename(m.group(1)), m.group(2)))
            return r[:3]
        if "(*" in t:
            return (8, 8, "p")
        m = re.fullmatch(r"(.*?)\[(\d+)\]", t)
        if m:
            s, a, _ = self.ty(m.group(1))
            return (s * int(m.group(2)), a, "a")
        if t.endswith("*") or t.endswith("*const") or t.endswith("* const"):
            return (8, 8, "p")
        t = re.sub(r"^const | const$", "", t).strip()
        if t.startswith("enum "):
            return (4, 4, "e")
        t2 = re.sub(r"^(struct|union) ", "", t)
        if t2 in C_PRIM:
            return C_PRIM[t2]
        if t2 in self.C["records"] and (t != t2 or t2 not in self.C["typedefs"]):
            return self.record(t2)[:3]
        td = self.C["typedefs"].get(t2)
        if td is not None:
            under = td.get("type") or ""
            if under.startswith("enum ") or under == t2 and td.get("canon") == t2:
                return (4, 4, "e")
            if under != t2:
                return self.ty(under)
        if t2 in self.C["records"]:
            return self.record(t2)[:3]
        raise LayoutError("C type %r not understood" % t)


R_INT = {"u8": 1, "i8": 1, "u16": 2, "i16": 2, "u32": 4, "i32": 4, "u64": 8, "i64": 8, "usize": 8, "isize": 8, "u128": 16, "i128": 16}


class RLayout:
    def __init__(self, F):
        self.F = F
        self.memo = {}

    def adt(self, path):
        if path in self.memo:
            return self.memo[path]
        a = self.F.adts.get(path)
        if a is None:
            raise LayoutError("Rust type %s not found" % path)
        if not a.get("repr_c") and not a.get("repr_transparent"):
            raise LayoutError("%s is not #[repr(C)]" % path)
        if a["kind"] == "Enum":
            if any(v["fields"] for v in a["variants"]):
                raise LayoutError("%s: enum with fields" % path)
            r = (4, 4, "e", [])
        else:
            fields = [(f["name"], self.ty(f["ty"])) for f in a["variants"][0]["fields"]]
            size, align, out = _agg(fields, a["kind"] == "Union")
            r = (size, align, "u" if a["kind"] == "Union" else "s", out)
        self.memo[path] = r
        return r

    def ty(self, t):
        t = t.strip()
        if t == "()":
            return (0, 1, "z")
        if t == "bool":
            return (1, 1, "b")
        if t in R_INT:
            return (R_INT[t], R_INT[t], "i")
        if t.startswith(("*const ", "*mut ", "&")) or "fn(" in t.split("<")[0] or re.match(r"(std|core)::option::Option<(&|unsafe |extern |fn\()", t):
            return (8, 8, "p")
        m = re.fullmatch(r"\[(.*); (\d+)\]", t)
        if m:
            s, a, _ = self.ty(m.group(1))
            return (s * int(m.group(2)), a, "a")
        if t in ("std::ffi::c_void", "core::ffi::c_void"):
            raise LayoutError("c_void by value")
        base = t.split("<")[0]
        if base in self.F.adts:
            return self.adt(base)[:3]
        raise LayoutError("Rust type %r not understood" % t)


def nested_pairs(rl, cl, rust_path, c_name):
    """(rust adt path, C record) pairs of by-value aggregate fields at the same position"""
    a = rl.F.adts.get(rust_path)
    r = cl.C["records"].get(c_name)
    out = []
    if a is None or r is None or a["kind"] == "Enum":
        return out
    for rf, cf in zip(a["variants"][0]["fields"], r["fields"]):
        base = rf["ty"].split("<")[0].strip()
        cn = cl.record_name(cf[1])
        if base in rl.F.adts and rl.F.adts[base]["kind"] != "Enum" and cn:
            out.append((base, cn))
    return out


def compare(rl, cl, rust_path, c_name):
    """list of differences between the field layouts; [] if identical"""
    rs, ra, rc, rf = rl.adt(rust_path)
    cs, ca, cc, cf = cl.record(c_name)
    diffs = []
    if len(rf) == 1 and rf[0][3] == "z":
        return None  # opaque handle: only used behind pointers, sized through the c_sizeof_* statics
    if rc != cc:
        diffs.append("%s vs C %s" % ({"s": "struct", "u": "union"}.get(rc, rc), {"s": "struct", "u": "union"}.get(cc, cc)))
    if len(rf) != len(cf):
        diffs.append("%d fields vs C's %d" % (len(rf), len(cf)))
    for (rn, ro, rsz, rcl), (cn, co, csz, ccl) in zip(rf, cf):
        if (ro, rsz) != (co, csz):
            diffs.append("field %s at offset %d size %d, C's %s at offset %d size %d" % (rn, ro, rsz, cn, co, csz))
        elif (rcl in "pbie" or ccl in "pbie") and rcl != ccl and not ({rcl, ccl} == {"e", "i"}):
            diffs.append("field %s is %s, C's %s is %s" % (rn, rcl, cn, ccl))
    if (rs, ra) != (cs, ca):
        diffs.append("size/align %d/%d vs C %d/%d" % (rs, ra, cs, ca))
    return diffs


def _norm(n):
    return re.sub(r"[^a-z0-9]", "", (n or "").lower())


def name_swaps(rl, cl, rust_path, c_name):
    """Pairs of same-layout fields whose names match the C names better when exchanged.

    Field names are not part of the ABI, but two fields of identical type in exchanged order are invisible to the
    layout comparison; the names (snake_case of the C camelCase in this code base) are the only witness of the order.
    Reported only when the exchanged assignment is strictly better for both fields."""
    import difflib
    a = rl.F.adts.get(rust_path)
    r = cl.C["records"].get(c_name)
    if a is None or r is None or a["kind"] != "Struct" or r.get("tag") != "struct":
        return []
    rf = a["variants"][0]["fields"]
    cf = r["fields"]
    if len(rf) != len(cf):
        return []
    def sim(x, y):
        return difflib.SequenceMatcher(None, _norm(x), _norm(y)).ratio()
    out = []
    for i in range(len(rf)):
        for j in range(i + 1, len(rf)):
            if rf[i]["ty"] != rf[j]["ty"] or not cf[i][0] or not cf[j][0]:
                continue
            s_ii, s_jj = sim(rf[i]["name"], cf[i][0]), sim(rf[j]["name"], cf[j][0])
            s_ij, s_ji = sim(rf[i]["name"], cf[j][0]), sim(rf[j]["name"], cf[i][0])
            if s_ij > s_ii and s_ji > s_jj:
                out.append((rf[i]["name"], cf[i][0], rf[j]["name"], cf[j][0]))
    return out
