"""C15 — the Elements environment shown to jets is the supplied transaction: wiring and ownership clauses.

What each jet returns is computed by C from marshalled data and is NOT decided.  Decided are necessary conditions on
the marshalling code itself (src/jet/elements/{c_env,environment}.rs, simplicity-sys c_env):
  C15.wiring   in every struct literal of the marshalling code, two fields of the same type are not cross-wired: a field
               is initialised from the source whose access path carries its own name rather than its sibling's
               (amount / inflation_keys, amount_range_proof / inflation_keys_range_proof, asset / nonce, value of the
               spent output / of the issuance, …).  Names are the only witness of which same-typed datum is which; the
               rule fires only when exchanging the sources of two fields improves the name match of both
  C15.passover a field of a marshalling struct whose name is also the name of a field of the (library or foreign-crate)
               structure its value is read from is read from that like-named field, not from a same-typed sibling of it
               (`genesis_hash` from `PeginData::genesis_hash`, not from `PeginData::referenced_block`); field lists of
               foreign-crate types are extracted by the driver for every type the crate projects a field of
  C15.args     calls between the marshalling functions pass same-typed arguments in the callee's parameter order
               (same criterion on parameter names)
  C15.alloc    the C objects malloc'ed for an environment (transaction, tap env) are the ones stored in the CTxEnv and
               freed exactly once each by its Drop impl; new_tx_env hands (tx, taproot, genesis hash, index) to
               c_set_txEnv in that order
"""
import difflib
import re
import facts as fm
import expr
from facts import Terms, leaves, calls_in

MODS = ("simplicity::jet::elements::c_env::", "simplicity::jet::elements::environment::", "simplicity::jet::elements::")
PASSOVER_FLOOR = 25
FINISH = dict(level="other",
              explanation="Name-consistency (anti-swap) rule over the provenance of every field of every struct literal and of "
                          "same-typed call arguments in the environment marshalling code, plus an ownership rule for the "
                          "malloc'ed C objects. The values jets return are computed in C and are not decided.",
              assumptions=["field and parameter names say which datum is which (e.g. `amount_range_proof`)",
                           "struct layouts and extern signatures are as C declares them (C14.layout, C14.extern)"])


def norm(s):
    return re.sub(r"[^a-z0-9]", "", s.lower())


def words(t):
    """identifier-ish components of the access paths and helper calls in a term"""
    out = []

    def go(x):
        if not isinstance(x, tuple) or not x:
            return
        k = x[0]
        if k == "param":
            if x[2]:
                out.append(x[2])
        elif k == "field":
            if not str(x[2]).isdigit():
                out.append(str(x[2]))
            go(x[1])
        elif k == "call":
            if x[2] not in ("new", "as_ref", "as_ptr", "map", "to_vec", "as_bytes", "as_byte_array", "serialize", "try_into", "expect", "unwrap",
                            "len", "next", "zip", "iter", "iter_mut", "into", "from", "deref", "clone", "as_inner", "then", "map_or"):
                out.append(x[2])
            for a in x[3]:
                go(a)
        elif k in ("as", "un", "cast", "ref", "deref"):
            for y in x[1:]:
                go(y)
        elif k in ("adt", "tuple", "phi"):
            for y in x[1:]:
                if isinstance(y, tuple):
                    if y and isinstance(y[0], tuple):
                        for z in y:
                            go(z)
                    else:
                        go(y)
        elif k == "bin":
            go(x[2])
            go(x[3])
    go(t)
    return out


def sim(name, ws):
    n = norm(name)
    best = 0.0
    for w in ws:
        m = norm(w)
        if not m:
            continue
        r = difflib.SequenceMatcher(None, n, m).ratio()
        if n in m or m in n:
            r = max(r, 0.9 if min(len(n), len(m)) >= 4 else r)
        best = max(best, r)
    return best


def groups(t):
    """source groups of an initialiser: the arguments of its outermost helper call, else the term itself"""
    while isinstance(t, tuple) and t and t[0] == "adt" and len(t) > 4 and len(t[4]) == 1:
        t = t[4][0]
    if isinstance(t, tuple) and t and t[0] == "call" and len(t[3]) >= 2:
        return [a for a in t[3]]
    return [t]


def swap_pairs(names, types, terms):
    """[(i, j, group index)] where exchanging the sources of same-typed fields i and j improves both name matches"""
    out = []
    for i in range(len(names)):
        for j in range(i + 1, len(names)):
            if types[i] != types[j]:
                continue
            gi, gj = groups(terms[i]), groups(terms[j])
            if len(gi) != len(gj):
                continue
            for k in range(len(gi)):
                wi, wj = words(gi[k]), words(gj[k])
                if not wi or not wj or wi == wj:
                    continue
                s_ii, s_jj = sim(names[i], wi), sim(names[j], wj)
                s_ij, s_ji = sim(names[i], wj), sim(names[j], wi)
                if s_ij > s_ii and s_ji > s_jj:
                    out.append((i, j, k, wi, wj))
    # one-sided: the arguments of one initialiser disagree on which field they are about
    for i in range(len(names)):
        gi = groups(terms[i])
        if len(gi) < 2:
            continue
        for j in range(len(names)):
            if i == j or types[i] != types[j]:
                continue
            sc = []
            for g in gi:
                w = words(g)
                sc.append((sim(names[i], w) - sim(names[j], w), w) if w else (0.0, w))
            neg = [x for x in sc if x[0] < -0.05]
            pos = [x for x in sc if x[0] > 0.05]
            if neg and pos:
                out.append((i, j, -1, neg[0][1], pos[0][1]))
    return out


def run(ctx, rep):
    F = ctx.facts("full")
    rep.rule("C15.wiring", "same-typed fields of a struct literal are initialised from the like-named source, not from each other's")
    rep.rule("C15.passover", "a field named like a field of the structure it is read from is read from that field, not from a same-typed sibling")
    rep.rule("C15.order", "parallel lists are walked in step and in their own order; the control block is handed over as serialised")
    rep.rule("C15.args", "same-typed arguments between marshalling functions follow the callee's parameter names")
    rep.rule("C15.alloc", "malloc'ed C objects are stored in the CTxEnv and freed once each; c_set_txEnv gets (tx, taproot, genesis, ix)")
    fns = [f for f in F.fns.values() if f.path.startswith(MODS[:2]) or f.path.startswith("simplicity::jet::elements::environment")]
    fns += [f for f in F.fns.values() if f.path.startswith("simplicity_sys::c_jets::c_env::elements::")]
    if not fns:
        rep.anchor("C15.wiring", "functions of simplicity::jet::elements::c_env")
        return FINISH
    n_lit = 0
    n_po = 0
    _STEPS.clear()
    for f in sorted(fns, key=lambda x: x.path):
        T = Terms(f)
        for b in f.rpo():
            for s in f.blocks[b]["s"]:
                if s[0] != "=" or s[2].get("k") != "agg" or s[2].get("agg") != "adt" or len(s[2]["ops"]) < 2:
                    continue
                adt = F.adts.get(s[2]["adt"])
                if adt is None:
                    # a foreign-crate type is named by its re-exported path; resolve by its last segment
                    cands = [a for p_, a in F.adts.items() if p_.rsplit("::", 1)[-1] == s[2]["adt"].rsplit("::", 1)[-1] and p_.split("::")[0] == s[2]["adt"].split("::")[0]]
                    adt = cands[0] if len(cands) == 1 else None
                if adt is None or adt["kind"] != "Struct":
                    continue
                fields = s[2].get("fields") or []
                ftys = {x["name"]: x["ty"] for x in adt["variants"][0]["fields"]}
                names = list(fields)
                types = [ftys.get(n) for n in names]
                terms = [T.operand(o) for o in s[2]["ops"]]
                n_lit += 1
                sw = swap_pairs(names, types, terms)
                key = "%s in %s" % (s[2]["adt"].rsplit("::", 1)[-1], fm.short(f.path))
                n_po += passover(F, rep, f, s, key, names, types, terms)
                if sw:
                    for (i, j, k, wi, wj) in sw:
                        if k == -1:
                            rep.violation("C15.wiring", "%s:%s~%s" % (key, names[i], names[j]),
                                          "%s: one argument of the initialiser of `%s` comes from %s, which names its same-typed sibling `%s`, the other from %s"
                                          % (key, names[i], "/".join(wi[:4]), names[j], "/".join(wj[:4])), "%s:%s" % (f.file, s[3] if len(s) > 3 else f.line))
                            continue
                        rep.violation("C15.wiring", "%s:%s/%s" % (key, names[i], names[j]),
                                      "%s: field `%s` is initialised from %s and its same-typed sibling `%s` from %s — exchanged"
                                      % (key, names[i], "/".join(wi[:4]), names[j], "/".join(wj[:4])), "%s:%s" % (f.file, s[3] if len(s) > 3 else f.line))
                else:
                    rep.ok("C15.wiring", key, "%d fields" % len(names))
    rep.count("struct_literals", n_lit)
    rep.floor("C15.wiring", n_lit, 9)
    rep.count("like_named_source_fields", n_po)
    rep.floor("C15.passover", n_po, PASSOVER_FLOOR)
    # calls between marshalling functions
    n_calls = 0
    for f in sorted(fns, key=lambda x: x.path):
        T = Terms(f)
        for cs in f.calls():
            g = F.fns.get(cs.callee or "")
            if g is None or g not in fns or g.arg_count < 2:
                continue
            pn = g.param_names()
            ptys = [g.locals[i + 1] if isinstance(g.locals[i + 1], str) else g.locals[i + 1].get("ty") for i in range(g.arg_count)] if len(g.locals) > g.arg_count else [None] * g.arg_count
            terms = [T.operand(a) for a in cs.args]
            n_calls += 1
            sw = swap_pairs(pn, ptys, terms)
            key = "%s -> %s" % (fm.short(f.path), fm.short(g.path))
            if sw:
                for (i, j, k, wi, wj) in sw:
                    if k == -1:
                        continue
                    rep.violation("C15.args", "%s:%s/%s" % (key, pn[i], pn[j]), "%s: parameter `%s` receives %s and `%s` receives %s — exchanged"
                                  % (key, pn[i], "/".join(wi[:4]), pn[j], "/".join(wj[:4])), cs.where())
            else:
                rep.ok("C15.args", key, None)
    rep.count("internal_calls", n_calls)
    rep.floor("C15.args", n_calls, 4)
    alloc(F, rep)
    order(F, rep, fns)
    return FINISH


# ---------------------------------------------------------------- C15.passover
def _strip_ty(t):
    t = t.strip()
    while True:
        m = re.match(r"^&(?:'[A-Za-z_0-9]+ )?(?:mut )?", t)
        if m and m.group(0):
            t = t[m.end():].strip()
            continue
        m = re.match(r"^(?:std::boxed::Box|std::sync::Arc|std::rc::Rc)<(.*)>$", t)
        if m and "," not in m.group(1):
            t = m.group(1).strip()
            continue
        break
    depth = 0
    for i, ch in enumerate(t):
        if ch == "<":
            if depth == 0:
                return t[:i]
            depth += 1
        elif ch == ">":
            depth -= 1
    return t


def _adt_of(F, ty):
    base = _strip_ty(ty)
    allad = dict(getattr(F, "foreign_adts", {}))
    allad.update(F.adts)
    if base in allad:
        return allad[base]
    last = base.rsplit("::", 1)[-1]
    c = [a for p_, a in allad.items() if p_.rsplit("::", 1)[-1] == last]
    return c[0] if len(c) == 1 else None


def field_steps(F, f, place):
    """[(owner adt, field name, field type)] of the field projections of a MIR place, owners resolved from the local's type"""
    out = []
    loc = f.locals[place[0]]
    ty = loc if isinstance(loc, str) else loc.get("ty")
    adt = _adt_of(F, ty) if ty else None
    variant = None
    for st in place[1]:
        if st == "*":
            continue
        if st.startswith("@"):
            variant = st[1:]
            continue
        if not st.startswith("."):
            return out
        if adt is None:
            return out
        vs = adt["variants"]
        v = next((x for x in vs if x["name"] == variant), None) if variant else (vs[0] if len(vs) == 1 else None)
        variant = None
        if v is None:
            return out
        fd = next((x for x in v["fields"] if x["name"] == st[1:]), None)
        if fd is None:
            return out
        out.append((adt, fd["name"], fd["ty"]))
        adt = _adt_of(F, fd["ty"])
    return out


def _places(x, out):
    if isinstance(x, dict):
        for v in x.values():
            _places(v, out)
    elif isinstance(x, list):
        if len(x) >= 2 and isinstance(x[0], int) and not isinstance(x[0], bool) and isinstance(x[1], list) and x[1] \
                and all(isinstance(e, str) for e in x[1]):
            out.append(x)
        for v in x:
            _places(v, out)


def closures_in(t, out=None):
    out = [] if out is None else out
    if isinstance(t, tuple):
        if t and t[0] == "closure" and len(t) > 1 and isinstance(t[1], str):
            out.append(t[1])
        for y in t:
            closures_in(y, out)
    return out


_STEPS = {}


def _methods_of(F, adt_path):
    """names of the inherent methods of an ADT (library type: from its impls; foreign type: extracted by the driver)"""
    if adt_path in F.foreign_methods:
        return F.foreign_methods[adt_path]
    return {g.name for g in F.fns.values() if g.impl_adt == adt_path and not g.impl_trait and g.kind == "AssocFn"}


def passover(F, rep, f, s, key, names, types, terms):
    """a field named like a field (or an argument-less method) of a structure the function reads from is read from THAT
    member, not from a same-typed sibling of it (`genesis_hash: pegin.referenced_block`, `txid: tx.wtxid()`,
    `script_sig: utxo.script_pubkey`)"""
    n = 0
    for i, nm in enumerate(names):
        fns_ = [f] + [F.fns[c] for c in closures_in(terms[i]) if c in F.fns]
        ws = set(words(terms[i]))
        cterms = [terms[i]]
        for c in fns_[1:]:
            ct = Terms(c).local(0)
            cterms.append(ct)
            ws |= set(words(ct))
        steps = []
        for g in fns_:
            if g.path not in _STEPS:
                pl = []
                _places(g.blocks, pl)
                acc = []
                for p_ in pl:
                    acc += field_steps(F, g, p_)
                _STEPS[g.path] = acc
            steps += _STEPS[g.path]
        read_names = {norm(g_name) for _a, g_name, _t in steps if g_name in ws}
        # structures of which this function reads a field, with their fields named like the target
        namesakes = {}
        for adt, _g, _t in steps:
            for v in adt["variants"]:
                for x in v["fields"]:
                    if norm(x["name"]) == norm(nm):
                        namesakes[(adt["path"], x["name"])] = x["ty"]
        seen = set()
        for adt, g_name, g_ty in steps:
            if g_name not in ws or (adt["path"], g_name) in seen:
                continue
            seen.add((adt["path"], g_name))
            if not namesakes:
                continue
            if norm(g_name) == norm(nm):
                n += 1
                rep.ok("C15.passover", "%s:%s <- %s.%s" % (key, nm, adt["path"].rsplit("::", 1)[-1], g_name), None)
                continue
            if norm(nm) in read_names:
                continue   # the like-named member is read as well (e.g. a pointer and its backing buffer)
            cands = [(ap, fn_) for (ap, fn_), ty in namesakes.items() if ty == g_ty]
            if not cands:
                continue
            n += 1
            ap, fn_ = sorted(cands, key=lambda c: (c[0] != adt["path"], c))[0]
            rep.violation("C15.passover", "%s:%s<-%s" % (key, nm, g_name),
                          "%s: field `%s` is read from `%s.%s` although `%s` has a field `%s` of the same type (%s), which is not read"
                          % (key, nm, adt["path"].rsplit("::", 1)[-1], g_name, ap.rsplit("::", 1)[-1], fn_, g_ty),
                          "%s:%s" % (f.file, s[3] if len(s) > 3 else f.line))
        # argument-less methods: `txid: tx.wtxid()` while Transaction::txid exists
        called = []
        for ct in cterms:
            for c in calls_in(ct):
                if len(c[3]) == 1 and isinstance(c[1], str) and "::" in c[1]:
                    called.append(c)
        called_names = {norm(c[2]) for c in called}
        for c in called:
            owner = c[1].rsplit("::", 1)[0]
            owner = re.sub(r"::<[^<>]*(?:<[^<>]*>[^<>]*)*>$", "", owner)
            ms = _methods_of(F, owner)
            if not ms or not any(norm(m) == norm(nm) for m in ms):
                continue
            if norm(c[2]) == norm(nm):
                n += 1
                rep.ok("C15.passover", "%s:%s <- %s::%s()" % (key, nm, owner.rsplit("::", 1)[-1], c[2]), None)
            elif norm(nm) not in called_names and norm(nm) not in read_names and norm(nm) in norm(c[2]):
                n += 1
                rep.violation("C15.passover", "%s:%s<-%s()" % (key, nm, c[2]),
                              "%s: field `%s` is computed by `%s::%s()` although `%s::%s()` exists and is not called"
                              % (key, nm, owner.rsplit("::", 1)[-1], c[2], owner.rsplit("::", 1)[-1], nm),
                              "%s:%s" % (f.file, s[3] if len(s) > 3 else f.line))
    return n



REORDER = {"rev", "skip", "step_by", "skip_while", "rotate_left", "rotate_right", "reverse", "sort", "sort_by", "sort_by_key", "swap", "chain", "cycle"}


def order(F, rep, fns):
    """inputs, their spent outputs and the per-input data are parallel lists: the marshalling loops zip them in step, none of
    them reversed, skipped or re-ordered; the taproot control block and its Merkle branch reach C as ControlBlock::serialize
    writes them (leaf-to-root), not re-assembled by hand"""
    n = 0
    for f0 in sorted(fns, key=lambda x: x.path):
        if f0.kind == "Closure":
            continue
        f = F.inlined(f0, ("zip", "iter", "iter_mut", "rev", "serialize"))
        T = Terms(f)
        for cs in f.calls():
            if cs.name != "zip" or len(cs.args) != 2:
                continue
            for k, a in enumerate(cs.args):
                t = T.operand(a)
                bad = sorted({c[2] for c in calls_in(t) if c[2] in REORDER})
                n += 1
                key = "%s: zip operand %s" % (fm.short(f0.path), "/".join(words(t)[:3]) or "?")
                if bad:
                    rep.violation("C15.order", "%s:zip:%s" % (fm.short(f0.path), ",".join(bad)), "%s zips parallel lists of the transaction but walks `%s` through %s: element i "
                                  "of one list is paired with another element of the other" % (f0.path, "/".join(words(t)[:3]), bad), cs.where())
                else:
                    rep.ok("C15.order", key, None)
    nt = F.fn("simplicity::jet::elements::c_env::new_tap_env")
    if nt is None:
        rep.anchor("C15.order", "c_env::new_tap_env")
    else:
        f = F.inlined(nt, ("serialize", "as_ptr"))
        T = Terms(f)
        done = False
        for b in f.rpo():
            for st in f.blocks[b]["s"]:
                if st[0] == "=" and st[2].get("k") == "agg" and str(st[2].get("adt", "")).endswith("CRawTapEnv"):
                    d = dict(zip(st[2].get("fields") or [], [T.operand(o) for o in st[2]["ops"]]))
                    t = d.get("control_block")
                    ser = [c for c in calls_in(t) if c[2] == "serialize" and "ControlBlock" in c[1]] if t is not None else []
                    done = True
                    n += 1
                    if ser and 1 in vcc_roots(ser[0][3][0]) and not any(c[2] in REORDER or c[2] in ("extend", "extend_from_slice", "push", "concat") for c in calls_in(t)):
                        rep.ok("C15.order", "new_tap_env: control block = ControlBlock::serialize(control_block)", None)
                    else:
                        rep.violation("C15.order", "new_tap_env:control_block", "the control block handed to C is %s, not the serialisation of the supplied control block "
                                      "as ControlBlock::serialize writes it (leaf version, internal key, branch leaf-to-root)" % expr.canon(t)[:100], nt.where())
        if not done:
            rep.anchor("C15.order", "CRawTapEnv literal in new_tap_env")
    rep.floor("C15.order", n, 5)


def vcc_roots(t):
    import vcc
    return vcc.param_roots(t, fm)

def alloc(F, rep):
    env_new = [f for f in F.fns.values() if f.name == "new" and f.path.startswith("simplicity::jet::elements::environment::ElementsEnv")]
    ntx = F.fn("simplicity::jet::elements::c_env::new_tx_env")
    if len(env_new) != 1 or ntx is None:
        rep.anchor("C15.alloc", "ElementsEnv::new / c_env::new_tx_env")
        return
    # the three allocations may sit in a private helper of the constructor: splice it back in
    f = F.inlined(env_new[0], ("new_tx_env", "new_tx", "new_tap_env"))
    T = Terms(f)
    calls = [cs for cs in f.calls() if cs.name == "new_tx_env"]
    if len(calls) != 1:
        rep.anchor("C15.alloc", "ElementsEnv::new calls new_tx_env once")
        return
    a = [T.operand(x) for x in calls[0].args]
    c0 = [c[2] for c in calls_in(a[0])]
    c1 = [c[2] for c in calls_in(a[1])]
    if "new_tx" in c0 and "new_tap_env" in c1 and expr.canon(a[2]) == "genesis_hash" and expr.canon(a[3]) == "ix":
        rep.ok("C15.alloc", "ElementsEnv::new: new_tx_env(new_tx(tx, utxos), new_tap_env(control_block, script_cmr), genesis_hash, ix)", None)
    else:
        rep.violation("C15.alloc", "ElementsEnv::new:args", "new_tx_env is called with (%s)" % ", ".join(expr.canon(x)[:40] for x in a), calls[0].where())
    # new_tx gets the caller's transaction and utxos, new_tap_env the control block and script CMR
    for cs in f.calls():
        if cs.name == "new_tx":
            w = [expr.canon(T.operand(x)) for x in cs.args]
            if w == ["tx", "utxos"] or (w[0].endswith("tx") and w[1].endswith("utxos")) or ("tx" in w[0] and "utxos" in w[1]):
                rep.ok("C15.alloc", "new_tx(tx, utxos) of the caller", None)
            else:
                rep.violation("C15.alloc", "ElementsEnv::new:new_tx", "new_tx is called with %s" % w, cs.where())
    Tn = Terms(ntx)
    sets = [cs for cs in ntx.calls() if cs.name == "c_set_txEnv"]
    if len(sets) != 1:
        rep.anchor("C15.alloc", "new_tx_env calls c_set_txEnv once")
    else:
        w = [expr.canon(Tn.operand(x)) for x in sets[0].args]
        want = ["tx", "taproot", "genesis_hash", "ix"]
        got = w[1:]
        if len(got) == 4 and got[0] == "tx" and got[1] == "taproot" and "genesis_hash" in got[2] and got[3] == "ix":
            rep.ok("C15.alloc", "c_set_txEnv(result, tx, taproot, genesis_hash, ix)", None)
        else:
            rep.violation("C15.alloc", "new_tx_env:args", "c_set_txEnv receives (%s), expected (result, %s)" % (", ".join(x[:30] for x in w), ", ".join(want)), sets[0].where())
    drops = [g for g in F.fns.values() if g.name == "drop" and (g.impl_self or "").endswith("c_env::elements::CTxEnv")]
    if len(drops) != 1:
        rep.anchor("C15.alloc", "impl Drop for CTxEnv")
        return
    d = drops[0]
    Td = Terms(d)
    freed = []
    for cs in d.calls():
        if cs.name.endswith("free"):
            flds = {lf[3][-1] for lf in leaves(Td.operand(cs.args[0])) if lf[0] == "parampath" and lf[1] == 1}
            freed.append(sorted(flds))
    if sorted(map(tuple, freed)) == [("taproot",), ("tx",)]:
        rep.ok("C15.alloc", "Drop for CTxEnv frees tx and taproot once each", None)
    else:
        rep.violation("C15.alloc", "CTxEnv:drop", "Drop for CTxEnv frees %s; expected exactly self.tx and self.taproot (double free or leak)" % freed, d.where())
    rep.floor("C15.alloc", rep.instances("C15.alloc"), 4)
