//! Engine C: compile-time witnesses for type-level clauses (thorough tier).
//!
//! Every `compile_fail,E0xxx` doctest below is paired with a compiling twin that differs only in the offending
//! line (a witness whose path is merely wrong also "fails to compile"). Run with
//! `cargo +nightly test --doc --offline` (error codes are honoured on nightly only).
//! Compile-pass items are checked by building this crate.
#![allow(dead_code)]

use simplicity::node::{CommitNode, ConstructNode, RedeemNode};
use simplicity::types::Final;
use simplicity::{Amr, BitMachine, Cmr, Cost, Ihr, Tmr, Value};
use std::sync::Arc;

// ---------------------------------------------------------------------------------------------------------------
// C20.auto — the shared data structures are Send + Sync by construction (auto traits: no interior mutability,
// no raw pointers). If any of them gains a Cell/Rc/raw pointer field this crate stops building.
// ---------------------------------------------------------------------------------------------------------------
fn assert_send_sync<T: Send + Sync>() {}
fn assert_send<T: Send>() {}

pub fn c20_auto() {
    assert_send_sync::<Arc<RedeemNode>>();
    assert_send_sync::<Arc<CommitNode>>();
    assert_send_sync::<Value>();
    assert_send_sync::<Arc<Final>>();
    assert_send_sync::<Cmr>();
    assert_send_sync::<Amr>();
    assert_send_sync::<Ihr>();
    assert_send_sync::<Tmr>();
    assert_send_sync::<Cost>();
    assert_send::<BitMachine>();
    // the inference context and nodes under construction may move between threads as well
    fn construct<'b>() {
        assert_send_sync::<simplicity::types::Context<'b>>();
        assert_send_sync::<Arc<ConstructNode<'b>>>();
    }
    let _ = construct;
}

/// C09.writers — a downstream crate cannot build a `Node` with a CMR of its choice: the fields are private.
///
/// ```compile_fail,E0451
/// use simplicity::node::{Inner, Node, Redeem};
/// fn forge(data: <Redeem as simplicity::node::Marker>::CachedData) -> Node<Redeem> {
///     Node { inner: Inner::Unit, cmr: simplicity::Cmr::unit(), data }
/// }
/// ```
/// Twin (compiles): the same names, reading instead of forging.
/// ```
/// use simplicity::node::{Inner, Node, Redeem};
/// fn read(n: &Node<Redeem>) -> simplicity::Cmr {
///     let _: &Inner<_, _, _> = n.inner();
///     n.cmr()
/// }
/// ```
pub struct C09Writers;

/// C09.writers / C07 — the cached CMR and the cached redeem data cannot be overwritten through a reference.
///
/// ```compile_fail,E0616
/// use simplicity::node::RedeemNode;
/// fn poke(n: &mut RedeemNode) {
///     n.cmr = simplicity::Cmr::unit();
/// }
/// ```
/// ```compile_fail,E0616
/// use simplicity::node::RedeemNode;
/// fn peek(n: &RedeemNode) -> simplicity::NodeBounds {
///     n.cached_data().bounds
/// }
/// ```
/// Twin (compiles): the accessor the library offers.
/// ```
/// use simplicity::node::RedeemNode;
/// fn peek(n: &RedeemNode) -> simplicity::NodeBounds {
///     let _ = n.cached_data();
///     n.bounds()
/// }
/// ```
pub struct C07Fields;

/// C12 / C11 — a `Value` cannot be forged from raw bits and a type of the caller's choosing: the fields are
/// private and every public constructor is type-directed.
///
/// ```compile_fail,E0451
/// use simplicity::Value;
/// use simplicity::types::Final;
/// use std::sync::Arc;
/// fn forge(bits: Arc<[u8]>, ty: Arc<Final>) -> Value {
///     Value { inner: bits, bit_offset: 0, ty }
/// }
/// ```
/// Twin (compiles): type-directed construction.
/// ```
/// use simplicity::Value;
/// use simplicity::types::Final;
/// use std::sync::Arc;
/// fn make(ty: Arc<Final>) -> Value {
///     let _ = &ty;
///     Value::zero(&ty)
/// }
/// ```
pub struct C12ValueFields;

/// C04 / C20 — nodes of two inference contexts cannot be combined: the context brand is an invariant lifetime.
///
/// ```compile_fail,E0521
/// use simplicity::node::{ConstructNode, CoreConstructible};
/// use simplicity::types::Context;
/// use std::sync::Arc;
/// Context::with_context(|ctx1| {
///     let a = Arc::<ConstructNode>::unit(&ctx1);
///     Context::with_context(|ctx2| {
///         let b = Arc::<ConstructNode>::unit(&ctx2);
///         let _ = Arc::<ConstructNode>::comp(&a, &b);
///     });
/// });
/// ```
/// Twin (compiles): both nodes from one context.
/// ```
/// use simplicity::node::{ConstructNode, CoreConstructible};
/// use simplicity::types::Context;
/// use std::sync::Arc;
/// Context::with_context(|ctx1| {
///     let a = Arc::<ConstructNode>::unit(&ctx1);
///     Context::with_context(|_ctx2| {
///         let b = Arc::<ConstructNode>::unit(&ctx1);
///         let _ = Arc::<ConstructNode>::comp(&a, &b);
///     });
/// });
/// ```
pub struct C04Brand;
