#!/usr/bin/env python3
"""Generate /verif/MANIFEST.json from the table below (kept here so that the manifest stays valid)."""
import json
import os

VERIF = os.path.dirname(os.path.dirname(os.path.abspath(__file__)))

TRUST = ("Trusted: rustc nightly's type checker and MIR construction as dumped by the simp-facts driver, "
         "the Python rule library in /verif/engine/rules and its spec tables (confirmed by reading the code and "
         "frozen); clang 14's AST for the vendored C where used. ")

CLAIMED = {
    "C09": dict(
        technique="MIR provenance/non-interference analysis + sibling-table comparison (custom rustc_private driver)",
        text="Decides, for every constructor, conversion and match arm that can write a node's commitment root, that the "
             "stored value originates only in Cmr::v of the children's roots / hidden root / entropy / word / jet (never "
             "witness, disconnected branch, cached data or inference context), that all sibling CMR algebras "
             "(Arc<Node>, from_parts, ConstructibleCmr, Hiding) agree constructor by constructor with children in order, "
             "that conversion copies the root, and that the IVs are distinct and used by the right constructor. "
             "Exact for these finite sets of sites; quantifies over all inputs because it is a dependence argument.",
        note=TRUST + "Assumes SHA-256 collision resistance for 'different structures get different roots'; the hash "
             "recipe inside Cmr::v is checked under C03.",
        design="3/C09"),
}

NOT_APPLICABLE = {
    "C06": "agreement of two interpreters' runtime verdicts over all programs/witnesses/environments: no structural clause beyond those decided under C05/C14",
    "C10": "bit-layout correctness of Value is shift/mask/offset arithmetic over every type shape and offset mod 8; not decidable from code shape",
    "C13": "exact coding of naturals/bit streams is numeric round-trip equality; only its guard clauses are structural and those are decided under C02",
    "C15": "'each jet returns the supplied field' is data marshalling through C whose truth is in values; extern signatures are covered by C14",
    "C18": "index bookkeeping of PostOrderIter over all DAG shapes is an algorithmic invariant of a stateful loop; a static proxy would be a frozen fragment",
    "C19": "sufficiency/minimality of a piecewise-affine padding formula is arithmetic over all costs and stack sizes",
}

PENDING = "check under construction in this round (see DESIGN.md section 9); not yet claimed"


def main():
    checks = []
    for pid in sorted(CLAIMED):
        c = CLAIMED[pid]
        checks.append({
            "property_id": pid,
            "quick_cmd": "./check %s --tier quick" % pid,
            "thorough_cmd": "./check %s --tier thorough" % pid,
            "evidence_file": "/verif/evidence/%s.json" % pid,
            "replay_cmd_template": "./check %s --replay {path}" % pid,
            "engine": c.get("engine", "simp-facts + rules"),
            "level_claimed": {"category": c.get("category", "other"), "text": c["text"], "design_ref": c["design"]},
            "level_note": c["note"],
            "technique": c["technique"],
        })
    na = []
    for i in range(1, 21):
        pid = "C%02d" % i
        if pid in CLAIMED:
            continue
        na.append({"property_id": pid, "reason": NOT_APPLICABLE.get(pid, PENDING)})
    m = {
        "version": 1,
        "setup_cmd": "./setup.sh",
        "hooks": {
            "guard": "none",
            "enable": "no hooks or instrumentation: the checks analyse /repo's sources as they are (static analysis)",
            "baseline_off_cmd": "cd /repo && cargo test --workspace --no-fail-fast --offline",
            "source_commits": [],
            "add_only": True,
        },
        "engines": [
            {"name": "simp-facts", "path": "/verif/engine/driver", "serves_properties": sorted(CLAIMED),
             "kind_free_text": "rustc_private driver (RUSTC_WORKSPACE_WRAPPER) dumping type-checked MIR with resolved callees, constants, ADTs, impls, statics, externs"},
            {"name": "rules", "path": "/verif/engine/rules", "serves_properties": sorted(CLAIMED),
             "kind_free_text": "Python rule library: call graph, dominators, arm regions, provenance/expression terms, result-use; one module per property"},
        ],
        "checks": checks,
        "not_applicable": na,
        "notes": "Static analysis only. Genuine defects found and repaired in /repo: see known_findings.json ('fixed'); "
                 "unrepaired ones are listed there under 'findings' and printed as KNOWN-FINDING lines.",
    }
    with open(os.path.join(VERIF, "MANIFEST.json"), "w") as f:
        json.dump(m, f, indent=1)
    print("MANIFEST.json: %d checks, %d not applicable" % (len(checks), len(na)))


if __name__ == "__main__":
    main()
