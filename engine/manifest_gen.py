#!/usr/bin/env python3
"""Generate /verif/MANIFEST.json from the table below (kept here so that the manifest stays valid)."""
import json
import os

VERIF = os.path.dirname(os.path.dirname(os.path.abspath(__file__)))

TRUST = ("Trusted: rustc nightly's type checker and MIR construction as dumped by the simp-facts driver, "
         "the Python rule library in /verif/engine/rules and its spec tables (confirmed by reading the code and "
         "frozen); clang 14's AST for the vendored C where used. ")

CLAIMED = {
    "C01": dict(
        technique="sibling-table comparison: per-combinator bit codes and payload sequences extracted from encoder and decoder MIR by path enumeration with constant propagation; arity tables of the DAG views; traversal/sharing pairing rules",
        text="Decides the parts of the round trip that are table agreement and pairing: the bits encode_node writes for each of the "
             "16 combinators (plus hidden node and one-child disconnect) are exactly the decision path on which decode_node builds the "
             "node that decode_expression turns into that combinator; payloads agree in kind, number and order; codes are prefix-free; "
             "the six DAG views used for traversal agree on arity and child order per combinator; witnesses are written and re-attached "
             "in the same (post-order, maximally shared) traversal keyed on Node::sharing_id; the encoded node count is the length of "
             "the iterator encoded; writers are flushed. Equality of the round-tripped program for all DAGs is a runtime relation and "
             "is not decided.",
        note=TRUST + "Assumes PostOrderIter's bookkeeping (C18) and the natural-number/value coders (C13/C10).",
        design="3/C01"),
    "C02": dict(
        technique="must-pass-through (dominator) + verdict-use + provenance rules on the decoders' MIR; call-graph recursion review",
        text="Decides that each canonicity mechanism the decoders rely on (canonical-order comparison, hidden-node set, "
             "program and witness close()/padding test, set_arrow_to_program, InternalSharing conversion, IHR sharing set keyed "
             "on the IHR, CommitNode sharing check) lies on every success path and has its verdict consumed (wrapper-aware, so "
             "inlining a helper does not alarm); that every index subtraction is bounded by read_natural(Some(index)), the word "
             "length by a constant <= 32 and the natural-number accumulator by 31 bits; that allocations sized by decoded "
             "numbers are clamped; that the value decoders treat the end of the witness stream as an error wherever they pull a bit "
             "straight from the iterator (None reaches only error exits, never a 0 bit); and that recursion reachable from the decoders "
             "is reviewed; and that the Converter methods of the decode route never unwrap/expect a value that comes from their arguments (C02.nopanic). The IHR rule holds for an explicit loop or an iterator adaptor with a verdict, in decode or a private helper. Reports the genuine input-depth "
             "recursion F-REC-UNIFY as a known finding. Does not decide totality in general nor re-encoding equality.",
        note=TRUST + "Assumes PostOrderIter's index bookkeeping (C18) and the bit reader's arithmetic (C13), which are not decided.",
        design="3/C02"),
    "C03": dict(
        engine="simp-facts + rules + clang AST (cside.py, cbody.py)",
        technique="sibling-implementation comparison: per-combinator tag codes, IVs, SHA-256 compression recipes, cost and width formulas extracted from Rust MIR and from clang's AST of the C reference (per-tag straight-line execution of switch bodies), normalised over the language's typing rules (max-plus normal form for arithmetic)",
        text="Decides that Rust and the vendored C reference implement the same recipe row by row, which is a necessary condition "
             "for the roots, verdicts and costs to agree: (tags) every combinator's bit code and payload in the Rust codec is the "
             "code/subcode on which C's decodeNode assigns the corresponding tag, fail is exactly the code C refuses, the reserved code "
             "is unused by redeem-time nodes; (iv) the IV every Cmr/Amr/Imr/Tmr constructor starts from is byte-equal to the IV C's "
             "cmrIV/amrIV/imrIV/tmrIV select for that tag, including the identity IV that Rust computes from its tag string; (recipe) "
             "per algebra and combinator the sequence of compressions - zero block, child roots, type roots of which type position, "
             "compact witness hash, in which half and order - equals what dag.c/type.c execute for that tag, the arguments being the "
             "ones RedeemData::new actually passes; (cost) the cost NodeBounds computes with those arguments equals analyseBounds' cost "
             "as a max-plus polynomial; (width) the bit widths of unit/sum/product. Equality of the resulting hashes and verdicts for all "
             "programs is runtime behaviour and is not decided; the SHA-256 padding arithmetic of compact_value, the word-CMR loop, "
             "the has_padding fast path and type inference are outside these clauses.",
        note=TRUST + "Type positions named differently on the two sides (e.g. COMP_B = source of the right child vs. target of the left "
             "child) are identified through the typing rules table shared with C04.rules. Jets' roots and costs are C14.",
        design="3/C03"),
    "C04": dict(
        technique="provenance shapes of constructors vs typing rules (up to renaming); dominator rules; guard-liveness + call-graph lock rule",
        text="Decides that each of the 18 Arrow constructors builds exactly the typing rule of its combinator (shared/independent "
             "fresh variables, unified pairs, product bindings, operand order), that assertions bind only the present child, that "
             "binding a sum/product binds both components pairwise on every success path, that the occurs check precedes every "
             "iteration of a possibly cyclic type (and its own completed-test precedes in-progress marking), that free variables "
             "finalise to unit, that error display is depth/length bounded, that finalize_types pins the root to 1→1 (both ends), that a "
             "fallible unification in an Arrow constructor returns its error (unwrap only on a still unconstrained fresh variable), "
             "that Type::finalize writes every not-yet-complete bound back into the context before going on, that the error type is "
             "built with a sharing traversal (not exponential for DAG-shaped types), that the occurs check always enters a finished bound into its completed set, "
             "and that the context mutex is never re-entered while held. Reports F-REC-UNIFY (input-depth recursion) as a known finding. "
             "Soundness/principality of the union-bound unifier itself is not decided.",
        note=TRUST + "The typing-rule table in c04.py is transcribed from the Simplicity language definition.",
        design="3/C04"),
    "C05": dict(
        technique="arm-region template extraction from MIR (path enumeration + expression reconstruction) against the Bit Machine's operational semantics",
        text="Decides the interpreter-shape clause only: for each of the 16 combinators and each decision path (choice bit, "
             "assertion side) the ordered machine operations the interpreter performs — direct calls and deferred call-stack "
             "entries in LIFO order — with the provenance of every width argument equal the instruction template of the "
             "tech report's (non-TCO) Bit Machine; frames/cursor moves are paired; the unwinder runs the operation each deferred "
             "entry names; exec_jet sizes frames from the jet's own source/target types, calls the C jet with (output, input, env) "
             "and consumes its verdict with the right polarity (false: Err(JetFailed) without committing the output). Outputs, "
             "jets' functions and Frame cursor arithmetic are not decided.",
        note=TRUST + "The 19-row template table in c05.py is transcribed from the Simplicity tech report (section on the Bit Machine). "
             "Assumes the machine primitives in frame.rs are correct.",
        design="3/C05"),
    "C07": dict(
        technique="max-plus expression reconstruction and term-wise domination between two pieces of code (bounds vs interpreter template); dominator rules for limit checks",
        text="Discharges the inductive step of the property statically: per combinator, the extra_cells/extra_frames that "
             "RedeemData::new stores (NodeBounds::v inlined at its call site) dominate, as max-plus polynomials over children's "
             "bounds and type widths, the high-water mark of the instruction template extracted from the interpreter's MIR. "
             "Plus: for_program checks limits before allocating, allocates exactly the checked sums, the guards compare the right "
             "quantity with the right constant and fail with Err, a BitMachine cannot be built any other way, and the bound "
             "arithmetic of every NodeBounds constructor is saturating or checked (widths saturate at usize::MAX; a plain + "
             "panicked / wrapped on the pinned tree: repaired, F-BOUNDS-OVERFLOW).",
        note=TRUST + "Does not decide that Frame operations stay inside the frame they are given, nor the base case for jets.",
        design="3/C07"),
    "C08": dict(
        technique="decision tables by abstract evaluation of the function over its finite input domain (16 combinators x 3 states of the choice bit; 4 seen-flag combinations), independent of how the code spells the decision; dominator/provenance rules for the pruning pipeline",
        text="Decides three structural clauses: the pruned program's commitment root is a copy (conversion copies the CMR); the "
             "decision tables that drive pruning are the specified ones (tracker: case/assertion side taken ↦ left/right set keyed "
             "on the node's IHR on every path - no early exit, no other guard -, read from the node's input frame captured before the "
             "node ran, forwarded unconsumed by wrapping trackers; prune_case: (left seen, right seen) ↦ Hide; convert: Hide ↦ assertion with the hidden child's CMR on the "
             "hidden side); and the pipeline order (size machine, execute with the caller's tracker and return its failure, prune "
             "with that tracker, carry the already converted disconnected branch over, re-finalise, prune witnesses against the "
             "finalised re-inferred target type). Behaviour "
             "preservation, anti-DoS acceptance by C and idempotence are runtime relations and are not decided.",
        note=TRUST + "A sub-agent reported a genuine clean-tree failure of this property outside the decided clauses (pruning does not always "
             "yield principal types; findings/C08_prune_not_principal_clean_tree.rs); see DESIGN.md.",
        design="3/C08"),
    "C09": dict(
        technique="MIR provenance/non-interference analysis + sibling-table comparison (custom rustc_private driver)",
        text="Decides, for every constructor, conversion and match arm that can write a node's commitment root, that the "
             "stored value originates only in Cmr::v of the children's roots / hidden root / entropy / word / jet (never "
             "witness, disconnected branch, cached data or inference context), that all sibling CMR algebras "
             "(Arc<Node>, from_parts, ConstructibleCmr, Hiding) agree constructor by constructor with children in order - a "
             "hidden result's root is computed by the algebra of the same method, never a child's root passed through -, "
             "that conversion copies the root, that the IVs are distinct and used by the right constructor, that constant slices of "
             "the fail entropy in Cmr::fail cover all 64 bytes, and that the human-readable printer writes the hidden branch root "
             "stored in an assertl/assertr node (the variant's Cmr payload), not another root. "
             "Exact for these finite sets of sites; quantifies over all inputs because it is a dependence argument.",
        note=TRUST + "Assumes SHA-256 collision resistance for 'different structures get different roots'; the hash "
             "recipe inside Cmr::v is checked under C03.",
        design="3/C09"),
    "C10": dict(
        technique="provenance rule over work-stack continuations (which summand's type each carries, that the loop is type-directed), linear-form comparison of the accessor offsets with the padded layout, exhaustive abstract evaluation of the has_padding expressions over {child flags} x {width orderings}, guard-polarity/dominance rule for the padded fast path",
        text="The property is arithmetic over every type shape and bit offset and is not decided. Nine of its necessary conditions "
             "are decided; besides the five below: (rebrand) a Value/ValueRef literal that reuses another value's buffer takes its type "
             "from that same value; (lifo) product rebuilds pop the right result first and push the left sub-task last; (padside) "
             "Value::left/right concatenate (padding, payload) in that order; (word) a Word literal pairs a value with the exponent "
             "of its own width (uK: log2 K, product of two words: n + 1, copy: same n). The first five "
             "are visible in the code's shape and are decided: (sumtype) in the iterative compact decoder and in Value::prune the "
             "continuation of a left injection carries the right summand's type and vice versa, the sub-task pushed with it processes "
             "the summand on the value's own side, product components are paired index by index, and the decoder reads a 0 bit as "
             "left as CompactBitsIter writes it; (typedir) inside their loops both take every type from the popped task, never from "
             "the root parameter, and produce Value::unit() only where the task type's bound is Unit; (accessor) the views of "
             "as_left/as_right/as_product sit at offset + 1 + max(wl,wr) - wl (resp. - wr) behind the right tag bit and at "
             "(offset, offset + wl), compared as linear forms so that equivalent spellings pass; (padflag) Final::has_padding, the "
             "flag that lets from_compact_bits read a padded encoding from a compact stream, is implied by the presence of padding in "
             "all 12 combinations of child flags and width orderings for sum and product (a flag that is true more often is sound "
             "and only noted); (fastpath) the padded decoder is reached only under a false has_padding() of the same type and no "
             "other function builds a Final. Shifts and masks, copy_bits, the iterators' bit arithmetic, pruning's results and "
             "accessor inverses in general are not decided.",
        note=TRUST + "Assumes Value::left/right build the sum their arguments name (bit-level correctness undecided).",
        design="3/C10"),
    "C11": dict(
        technique="call-graph + provenance analysis of the comparison trait impls (which view of the data they consume)",
        text="Decides that Value's ==, Ord and Hash (and Word's derived ones, and Final's) consume only the canonical "
             "type-directed compact view of a value after its type, the same view in all three, and never the raw bytes "
             "of the shared buffer or the buffer/offset fields, nor first collapse that view into a fixed-size integer (fold/sum/count), "
             "and that types are never compared by address (per-thread type tables): a necessary condition of representation-independent "
             "equality that is exact because the impls are three small functions. Found the genuine defect F-EQ (repaired).",
        note=TRUST + "Assumes CompactBitsIter yields exactly the information bits of a value of its type (bit-level "
             "correctness of Value is C10, not decided).",
        design="3/C11"),
    "C12": dict(
        technique="typestate rule over trait-impl producers: provenance of returned values + dominance of type tests; who-may-call",
        text="Also decides that no conversion of a redeem-time program runs under NoSharing (shared witness nodes stay shared: C12.sharing). Decides, for every producer of a witness value for a Redeem node (all Converter<_,Redeem>::convert_witness impls, "
             "found by trait-impl query), that each Ok path returns a value built by a type-directed source applied to the "
             "node's finalised target type or an incoming value dominated by a successful is_of_type test; that RedeemData::new "
             "is only reachable from those converters; that expect/unwrap behind a type test is unreachable; and that no Redeem converter "
             "outside pruning unwraps the result of Type/Arrow::finalize (the occurs check runs only there). "
             "Reports the genuine defect F-WIT (known finding: its repair breaks an existing test that relies on it).",
        note=TRUST + "SimpleFinalizer is excluded by the property's wording. Assumes Value::from_compact_bits/zero/prune return "
             "values of the type they are given (C10).",
        design="3/C12"),
    "C14": dict(
        category="proof",
        engine="simp-facts + rules + clang AST (cside.py)",
        technique="exhaustive comparison of finite tables: every row of every generated jet table (constants read from MIR) against its sibling tables and the vendored C tables; every extern declaration against clang's prototype of its link name; #[repr(C)] layouts against C records",
        text="The property quantifies over finite sets that the check enumerates completely on every run: for all 368 Core, 471 Elements "
             "and 428 Bitcoin jets it compares the encode table with the decode tree read from MIR (decode(encode(j)) = j, every decoder "
             "leaf is some jet's code, codes unique and prefix-free), Display with FromStr (bijection, parse delegates), and type names "
             "(well-formed); for all 471 Elements jets the CMR bytes, cost, expanded source/target type and bit code against "
             "primitiveJetNode.inc / primitiveInitTy.inc / decode*Jets.inc; for all 368 Core jets the types and code of the Elements "
             "namesake; the jet-to-C-function chain (c_jet_ptr arm, jets_wrapper, extern link name, C WRAP_ wrapper and the C jet it calls) "
             "for all 839 dispatch rows; the three TypeName interpreters character by character; all 497 extern fns (arity, each parameter, "
             "result, callback signatures) and 91 extern statics against clang's AST of the 26 compiled C files; 26 #[repr(C)] mirrors against "
             "the C record layouts. This is a proof by exhaustive evaluation of a decidable finite statement; it found and repaired five "
             "binding defects (known_findings.json: F-FFI-*).",
        note=TRUST + "ABI canonicalisation is for x86-64 Linux/glibc (uint_fast16_t/uint_fast32_t/int_fast32_t 64-bit). The generated .inc "
             "tables are data files in a fixed format and are read with regular expressions (row counts cross-checked with clang's enum "
             "jetName / TypeNamesForJets). Core CMRs and costs have no C counterpart and are not compared (as the property says).",
        design="3/C14"),
    "C15": dict(
        technique="provenance of every field of every struct literal and of same-typed call arguments in the environment marshalling code, compared by name with the field/parameter it initialises (anti-swap rule); ownership rule for the malloc'ed C objects",
        text="What each introspection jet returns is computed in C from marshalled data and is not decided. Decided are necessary "
             "conditions on the marshalling code (src/jet/elements/c_env.rs, environment.rs, simplicity-sys c_env): (wiring) in each of "
             "the 12 struct literals no two same-typed fields are cross-wired - a field is initialised from the source whose access "
             "path carries its own name rather than its sibling's (amount / inflation_keys, the two range proofs, asset / nonce, ...), "
             "also argument by argument inside one initialiser; the rule fires only when the exchanged assignment matches the names "
             "strictly better; (passover) a field named like a member (field or argument-less method) of a structure the function reads "
             "from - foreign-crate types included, their field lists and inherent methods are extracted by the driver - is read from "
             "that member, not from a same-typed sibling (genesis_hash / referenced_block, script_sig / script_pubkey, txid / wtxid); "
             "(order) zipped parallel lists are not reversed, skipped or re-ordered, and the control block is ControlBlock::serialize of "
             "the argument; "
             "(args) same for same-typed arguments between the marshalling functions; (alloc) ElementsEnv::new builds "
             "the environment from new_tx(tx, utxos), new_tap_env(control_block, script_cmr), the genesis hash and the index, "
             "c_set_txEnv receives them in the C parameter order, and Drop for CTxEnv frees exactly the two malloc'ed objects once each. "
             "Struct layouts and extern signatures are C14. Field values, annex detection, serialisation of confidential fields and "
             "pointer lifetimes are not decided.",
        note=TRUST + "Names are the only static witness of which same-typed datum is which; a consistent renaming of both a field and "
             "its source leaves the verdict unchanged.",
        design="3/C15"),
    "C16": dict(
        technique="call-graph parametricity check + in-place-mutation provenance rule on MIR",
        text="Decides the root-equality sentence by parametricity: cmr(), commit() and satisfy() build the program through the "
             "same node-type-generic fragments (each Policy arm calls the fragment of the same name, children in order; fragments "
             "use their node type only through the Constructible traits), instantiated at CMR algebras that agree constructor by "
             "constructor (C09 premises re-evaluated), and conversion/pruning copy roots. Decides that sort() recurses in place and unconditionally (no comparison of the children reachable past a skipped recursive sort) "
             "into every composite child and then orders (found and repaired F-SORT). Satisfaction logic and execution are not decided.",
        note=TRUST + "Parametricity is used as a meta-theorem; satisfiability (and/or/threshold selection) is runtime behaviour.",
        design="3/C16"),
    "C17": dict(
        technique="writer/reader table agreement: format templates and string constants from MIR vs logos token table and parser arms; provenance of names and literals; recursion review",
        text="Decides that the renderer's alphabet is contained in the reader's: each combinator's rendered keyword and payload form "
             "(read from format_args templates and Display impls in MIR) is the token parse_expr maps back to that combinator; literal "
             "CMRs are carried into the assertion built from them; every token the type printer can emit (1, 2, every 2^k it can print, "
             "+, *, parentheses, postfix ? at operand level) has a rule in parse_type*; generated names lex as one symbol, are checked "
             "against the program's own names, and every referenced node is printed; the arm of parse_inner for a resolved V builds "
             "Inner::V; every `--` comment the printer writes ends its line; the parser's two length guards on a fail literal "
             "admit the 512 bits the printer always writes; str slices cannot split a character; parser "
             "recursion is reviewed. Found eight genuine defects (all repaired, see known_findings.json) and the input-depth recursions "
             "of the recursive-descent parser (known findings). Equality of types/encoding after re-parsing is not decided.",
        note=TRUST + "The logos attributes are read from the source text of enum Token (rustc drops derive-helper attributes); assumes "
             "the generated lexer implements them.",
        design="3/C17"),
    "C13": dict(
        technique="forward expression propagation along every acyclic path of the reader's and writer's primitives (field-sensitive symbolic store over self), then state-update pairing rules, linear forms of shift amounts, struct-literal rules, and a one-variable mask formula checked for each of its 8 counter values",
        text="Decides structural clauses of the two bit-level state machines only, NOT the numeric round trip: every single-bit selector of "
             "BitIter::next, BitWriter::write_bit, io::Write::write and write_bits_be is most-significant-bit first as a linear form of the "
             "machine's own counter; the per-byte counter and the total counter move together, the cache is used only under counter < 8, a "
             "refill stores the next byte and zeroes the counter; wherever the writer hands its cache byte to the underlying writer (spill in "
             "write_bit, flush_all) both cache and counter are zero afterwards; every BitIter/BitWriter literal starts the total at 0 and pairs "
             "the counter with the cache it describes; close() returns Ok only with the byte iterator exhausted and exactly the unread bits of "
             "the cached byte tested for zero (mask formula read off the MIR, all 8 counter values); read_u8 splices old cache << counter with "
             "the new byte >> (8 - counter) and advances the total by 8; byte_slice_window slices start/8 .. ceil(end/8); encoder and decoder "
             "of naturals agree on the frame (1 per level, closing 0, suffixes innermost first as (value, length), accumulator from the implicit "
             "leading 1, bits appended at the low end). The guards of read_natural are decided under C02.bound. No narrowing integer cast occurs in the encoder. Magnitudes "
             "and the recursion of the length prefix are not decided.",
        note=TRUST + "Assumes std's Range, Vec::pop and io::Write::write_all.",
        design="3/C13"),
    "C18": dict(
        technique="per-trip analysis of PostOrderIter::next: forward expression propagation along every path of the loop body up to its back edge or return (field-sensitive symbolic store), decision rules over pushes, index fields and back-patch tags; sibling comparison of SharingTracker impls; shape rules for the child-swapping adaptor; access discipline of Node::convert",
        text="Decides necessary conditions visible on one trip through the iterator's loop and in its siblings, NOT the loop invariant over "
             "all DAG shapes: on a first visit the popped item is pushed back first, an already seen child gives its recorded index to the field "
             "of its own side, a new child is pushed exactly once with the tag whose back-patching arm (read off the second-visit code: stack "
             "slot and field) is its own side at the distance it will have from its parent, and of two new children the left is pushed last; on "
             "a second visit the index yielded, recorded and patched into the parent are one value, the counter advances exactly on the yielding "
             "path, and the item carries the popped element's own child indices; every map-based SharingTracker::record keeps the first index, "
             "stores the index given and shares its key derivation with seen_before, forwarders pass (object, index) on; SwapChildren exchanges "
             "exactly binary children, unswap exchanges the indices exactly for binary nodes, rtl_post_order_iter composes the two; Node::convert "
             "looks children up by the reported left/right indices only. Pre-order iterators and is_shared_as are not decided.",
        note=TRUST + "The per-trip rules are necessary conditions; that they suffice needs the stack invariant, which is not proved.",
        design="3/C18"),
    "C19": dict(
        technique="formula extraction from MIR (terms, guard polarity, the `match deficit` as a piecewise table of intervals and affine expressions via path enumeration with interval constraints) and comparison with the formulas the property states; interval-exhaustive check of the extracted table against the CompactSize rule",
        text="Decides that the arithmetic written in src/analysis.rs is the arithmetic the property states, for every value of its "
             "variables: get_budget is the length of one consensus encoding of the whole stack plus 50; is_budget_valid compares milliweight with "
             "1000 x budget by <= with the cost on the left; cost->weight rounds up by 1000, weight->cost multiplies by 1000 and the "
             "bitcoin::Weight conversions go through them, a 64-bit weight is narrowed by a saturating conversion (monotone by form); get_padding returns None exactly on the branch weight <= "
             "budget and applies its table to weight - budget; the table, read off the MIR as intervals of the deficit with a constant / "
             "deficit - k / saturating expression each, partitions 1..=4294968 and yields for EVERY deficit the least annex length L "
             "with CompactSize(L) + L >= deficit (every integer of the bounded pieces checked on the extracted table, the unbounded "
             "piece algebraically); the annex is 0x50 followed by zeros. The code is not run. Not decided: the consensus encoder "
             "itself and the exception the property grants (item count on a CompactSize boundary).",
        note=TRUST + "Assumes appending an L-byte item grows the encoded stack by CompactSize(L) + L bytes (1/3/5-byte CompactSize), "
             "which is the elements/bitcoin crates' encoder, outside the analysed program.",
        design="3/C19"),
    "C20": dict(
        technique="whole-workspace inventories over the type-checked program and clang's C AST (statics, thread_locals, lock sites, unsafe operations, Send/Sync impls) + guard-liveness lock rule",
        text="Decides race- and deadlock-freedom, from which schedule-independence follows: no explicit Send/Sync impl and no "
             "Cell-like field in workspace types; every Rust static is immutable plain data or a reviewed entry (atomic name counter, "
             "per-thread caches of precomputed types, each with its frozen accessor set), every new thread_local or interior-mutable "
             "static is reported; every static-storage variable of the 26 compiled C translation units is const or reviewed (never "
             "written / written only by a constructor); the inference context's mutex is taken only in Context::lock and never "
             "re-entered, every other lock is a leaf; user-written unsafe operations are of an allowed kind. Compile-pass Send+Sync "
             "witnesses run in the thorough tier.",
        note=TRUST + "Assumes C jets are pure functions of their arguments apart from the inventoried globals.",
        design="3/C20"),
}

NOT_APPLICABLE = {
    "C06": "agreement of two interpreters' runtime verdicts over all programs/witnesses/environments: no structural clause beyond those decided under C05/C14",
}

PENDING = "check under construction in this round (see DESIGN.md section 9); not yet claimed"


def main():
    checks = []
    for pid in sorted(CLAIMED):
        c = CLAIMED[pid]
        checks.append({
            "property_id": pid,
            "quick_cmd": "./check %s --tier quick" % pid,
            "thorough_cmd": "./check %s --tier thorough" % pid,
            "evidence_file": "/verif/evidence/%s.json" % pid,
            "replay_cmd_template": "./check %s --replay {path}" % pid,
            "engine": c.get("engine", "simp-facts + rules"),
            "level_claimed": {"category": c.get("category", "other"), "text": c["text"], "design_ref": c["design"]},
            "level_note": c["note"],
            "technique": c["technique"],
        })
    na = []
    for i in range(1, 21):
        pid = "C%02d" % i
        if pid in CLAIMED:
            continue
        na.append({"property_id": pid, "reason": NOT_APPLICABLE.get(pid, PENDING)})
    m = {
        "version": 1,
        "setup_cmd": "./setup.sh",
        "hooks": {
            "guard": "none",
            "enable": "no hooks or instrumentation: the checks analyse /repo's sources as they are (static analysis)",
            "baseline_off_cmd": "cd /repo && cargo test --workspace --no-fail-fast --offline",
            "source_commits": [],
            "add_only": True,
        },
        "engines": [
            {"name": "simp-facts", "path": "/verif/engine/driver", "serves_properties": sorted(CLAIMED),
             "kind_free_text": "rustc_private driver (RUSTC_WORKSPACE_WRAPPER) dumping type-checked MIR with resolved callees, constants, ADTs, impls, statics, externs"},
            {"name": "rules", "path": "/verif/engine/rules", "serves_properties": sorted(CLAIMED),
             "kind_free_text": "Python rule library: call graph, dominators, arm regions, provenance/expression terms, result-use; one module per property"},
        ],
        "checks": checks,
        "not_applicable": na,
        "notes": "Static analysis only. Genuine defects found and repaired in /repo: see known_findings.json ('fixed'); "
                 "unrepaired ones are listed there under 'findings' and printed as KNOWN-FINDING lines.",
    }
    with open(os.path.join(VERIF, "MANIFEST.json"), "w") as f:
        json.dump(m, f, indent=1)
    print("MANIFEST.json: %d checks, %d not applicable" % (len(checks), len(na)))


if __name__ == "__main__":
    main()
