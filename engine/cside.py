#!/usr/bin/env python3
"""Engine B: facts about the vendored C (libsimplicity + wrappers) from clang's JSON AST.

`cfacts()` returns a reduced dictionary, cached on disk per content hash of the C sources:
  funcs    name -> {ret, params: [canonical type], variadic, attrs, defined_in, static}
  vars     static-storage variables: {name, storage, type, const, tu, file, line, func (enclosing, for
           function-local statics), writers: [{func, constructor}]}
  records  struct name -> [(field, canonical type)]
  enums    enum name -> [(enumerator, value)]
  typedefs name -> canonical type
  tables   selected initialisers (jet table, type tables) - see _extract_tables
Nothing is executed; clang only parses (-fsyntax-only).
"""
import hashlib
import json
import multiprocessing
import os
import re
import subprocess
import sys

VERIF = os.path.dirname(os.path.dirname(os.path.abspath(__file__)))
REPO = os.environ.get("SIMP_REPO", "/repo")
SYS = os.path.join(REPO, "simplicity-sys")
CACHE = os.path.join(VERIF, ".cache", "cside")


def build_rs_files():
    """The C translation units build.rs compiles (always-on list, test-utils list)."""
    txt = open(os.path.join(SYS, "build.rs")).read()
    m = re.search(r"let jet_files.*?vec!\[(.*?)\]", txt, re.S)
    core = re.findall(r'"([^"]+\.c)"', m.group(1)) if m else []
    m2 = re.search(r"let test_files.*?vec!\[(.*?)\]", txt, re.S)
    test = re.findall(r'"([^"]+\.c)"', m2.group(1)) if m2 else []
    extra = re.findall(r'\.file\(Path::new\("([^"]+\.c)"\)\)', txt)
    core = ["depend/simplicity/" + f for f in core] + extra
    test = ["depend/simplicity/" + f for f in test]
    return core, test


def c_tree_hash():
    h = hashlib.sha256()
    for root, dirs, files in os.walk(os.path.join(SYS, "depend")):
        dirs.sort()
        if "secp256k1" in root.split(os.sep):
            continue
        for f in sorted(files):
            if f.endswith((".c", ".h", ".inc")):
                p = os.path.join(root, f)
                h.update(os.path.relpath(p, SYS).encode())
                h.update(open(p, "rb").read())
    h.update(open(os.path.join(SYS, "build.rs"), "rb").read())
    h.update(open(os.path.abspath(__file__), "rb").read())
    return h.hexdigest()[:20]


def _ast(tu):
    cmd = ["clang", "-std=c11", "-fsyntax-only", "-DPRODUCTION", "-I", "depend/simplicity/include",
           "-Xclang", "-ast-dump=json", tu]
    r = subprocess.run(cmd, cwd=SYS, stdout=subprocess.PIPE, stderr=subprocess.PIPE)
    if r.returncode != 0 and not r.stdout:
        raise RuntimeError("clang failed on %s: %s" % (tu, r.stderr.decode()[:500]))
    return json.loads(r.stdout)


def _qt(node):
    t = node.get("type", {})
    return t.get("desugaredQualType") or t.get("qualType") or ""


def _walk_tu(tu):
    """Reduce one translation unit."""
    ast = _ast(tu)
    out = {"tu": tu, "funcs": {}, "vars": [], "records": {}, "enums": {}, "typedefs": {}, "writes": [], "tables": {}}
    cur_file = [None]

    last_line = [None]

    def _bare(l):
        if isinstance(l, dict) and l.get("file"):
            cur_file[0] = l["file"]
        if isinstance(l, dict) and l.get("line") is not None:
            last_line[0] = l["line"]
        return cur_file[0]

    def _loc(l):
        """clang prints `file` only when it differs from the previously printed location (loc, then range.begin,
        range.end; spellingLoc before expansionLoc): replay that order to know every node's file."""
        if not isinstance(l, dict):
            return cur_file[0]
        if "spellingLoc" in l or "expansionLoc" in l:
            r = cur_file[0]
            for key in l:
                if key in ("spellingLoc", "expansionLoc"):
                    r = _bare(l[key])
            return r
        return _bare(l)

    def loc_file(n):
        f = _loc(n.get("loc")) if "loc" in n else cur_file[0]
        rg = n.get("range")
        if isinstance(rg, dict):
            for key in rg:
                if key in ("begin", "end"):
                    _loc(rg[key])
        return f

    def is_ours(f):
        return f is not None and not f.startswith("/usr") and "secp256k1/" not in f

    def visit(n, func, depth):
        k = n.get("kind")
        f = loc_file(n)
        if k == "FunctionDecl":
            name = n.get("name")
            params = [c for c in n.get("inner", []) if c.get("kind") == "ParmVarDecl"]
            attrs = [c.get("kind") for c in n.get("inner", []) if c.get("kind", "").endswith("Attr")]
            has_body = any(c.get("kind") == "CompoundStmt" for c in n.get("inner", []))
            qt = n.get("type", {}).get("qualType", "")
            ent = out["funcs"].setdefault(name, {"params": None, "ret": None, "attrs": [], "defined": False, "file": f,
                                                "static": n.get("storageClass") == "static", "variadic": qt.endswith("...)")})
            ent["params"] = [{"name": p.get("name"), "type": p.get("type", {}).get("qualType"), "canon": _qt(p)} for p in params]
            ent["ret"] = qt.split("(")[0].strip()
            ent["qual"] = qt
            ent["attrs"] = sorted(set(ent["attrs"]) | set(attrs))
            if has_body:
                ent["defined"] = True
                ent["file"] = f
                ent["calls"] = sorted(_called(n))
            for c in n.get("inner", []):
                visit(c, name, depth + 1)
            return
        if k == "VarDecl":
            sc = n.get("storageClass")
            static_storage = (func is None) or sc in ("static", "extern")
            if static_storage and is_ours(f):
                qt = n.get("type", {}).get("qualType", "")
                out["vars"].append({"name": n.get("name"), "storage": sc or "none", "type": qt, "canon": _qt(n),
                                    "const": _is_const(qt), "file": f, "line": (n.get("loc") or {}).get("line"),
                                    "func": func, "init": "init" in n, "tu": tu})
                if n.get("name") in TABLE_VARS and "inner" in n:
                    out["tables"][n["name"]] = _init_table(n)
        elif k == "RecordDecl" and n.get("completeDefinition") and is_ours(f):
            fields = [(c.get("name"), c.get("type", {}).get("qualType"), _qt(c)) for c in n.get("inner", []) if c.get("kind") == "FieldDecl"]
            line = (n.get("loc") or {}).get("line") or ((n.get("loc") or {}).get("expansionLoc") or {}).get("line")
            nm = n.get("name") or ("anon@%s:%s" % (os.path.basename(f or "?"), line if line is not None else last_line[0]))
            out["records"][nm] = {"fields": fields, "tag": n.get("tagUsed"), "id": n.get("id")}
        elif k == "EnumDecl" and is_ours(f):
            vals = []
            nxt = 0
            for c in n.get("inner", []):
                if c.get("kind") == "EnumConstantDecl":
                    v = _const_value(c)
                    if v is None:
                        v = nxt
                    vals.append((c.get("name"), v))
                    nxt = v + 1
            out["enums"][n.get("name") or ("anon@%s" % (n.get("loc") or {}).get("line"))] = vals
        elif k == "TypedefDecl" and is_ours(f):
            out["typedefs"][n.get("name")] = {"type": n.get("type", {}).get("qualType"), "canon": _qt(n)}
        elif k in ("BinaryOperator", "CompoundAssignOperator") and n.get("opcode", "=").endswith("=") and n.get("opcode") not in ("==", "!=", "<=", ">="):
            lhs = (n.get("inner") or [None])[0]
            ref = _base_declref(lhs)
            if ref and ref.get("kind") == "VarDecl":
                out["writes"].append({"var": ref.get("name"), "func": func})
        elif k == "UnaryOperator" and n.get("opcode") in ("++", "--"):
            ref = _base_declref((n.get("inner") or [None])[0])
            if ref and ref.get("kind") == "VarDecl":
                out["writes"].append({"var": ref.get("name"), "func": func})
        for c in n.get("inner", []) or []:
            if isinstance(c, dict):
                visit(c, func, depth + 1)

    visit(ast, None, 0)
    # only keep writes to static-storage variables of this TU (or externs)
    names = {v["name"] for v in out["vars"]}
    out["writes"] = [w for w in out["writes"] if w["var"] in names]
    return out


TABLE_VARS = {"jet_node", "decodeJet", "type_dag", "elements_type_dag"}


def _is_const(qt):
    # top-level const of the object (arrays: element const)
    q = qt.strip()
    if re.search(r"\(\*\)|\(\*const\)", q):
        return "(*const)" in q
    if "*" in q:
        return q.split("*")[-1].strip().startswith("const")
    return q.startswith("const ") or " const" in q.split("[")[0]


def _base_declref(n):
    while isinstance(n, dict):
        if n.get("kind") == "DeclRefExpr":
            return n.get("referencedDecl")
        if n.get("kind") in ("MemberExpr", "ArraySubscriptExpr", "ParenExpr", "ImplicitCastExpr", "UnaryOperator"):
            inner = n.get("inner") or []
            n = inner[0] if inner else None
        else:
            return None
    return None


def _called(n, out=None):
    """names of functions referenced inside a function body"""
    if out is None:
        out = set()
    if isinstance(n, dict):
        if n.get("kind") == "DeclRefExpr":
            r = n.get("referencedDecl") or {}
            if r.get("kind") == "FunctionDecl":
                out.add(r.get("name"))
        for c in n.get("inner", []) or []:
            _called(c, out)
    return out


def _const_value(n):
    for c in n.get("inner", []) or []:
        if c.get("kind") == "ConstantExpr" and "value" in c:
            try:
                return int(c["value"])
            except ValueError:
                return None
        if c.get("kind") == "IntegerLiteral":
            return int(c["value"])
        v = _const_value(c)
        if v is not None:
            return v
    return None


def _init_table(n):
    """Keep the initialiser subtree of a table variable, reduced to kinds/values/names."""
    def red(x, d=0):
        if not isinstance(x, dict):
            return None
        o = {"k": x.get("kind")}
        for key in ("value", "name", "opcode"):
            if key in x:
                o[key] = x[key]
        if x.get("kind") == "DeclRefExpr":
            o["ref"] = (x.get("referencedDecl") or {}).get("name")
        if x.get("kind") == "MemberExpr":
            o["member"] = x.get("name")
        if "field" in x:
            o["field"] = (x.get("field") or {}).get("name")
        inner = [red(c, d + 1) for c in x.get("inner", []) or []]
        inner = [c for c in inner if c]
        if inner:
            o["i"] = inner
        return o
    return red(n)


def cfacts(verbose=False):
    os.makedirs(CACHE, exist_ok=True)
    h = c_tree_hash()
    path = os.path.join(CACHE, h + ".json")
    if os.path.exists(path):
        with open(path) as f:
            return json.load(f)
    core, test = build_rs_files()
    tus = core + test
    with multiprocessing.Pool(min(12, len(tus))) as pool:
        parts = pool.map(_walk_tu, tus)
    merged = {"tus": tus, "core": core, "test": test, "funcs": {}, "vars": [], "records": {}, "enums": {}, "typedefs": {},
              "writes": [], "tables": {}, "per_tu_funcs": {}}
    seen_vars = set()
    for p in parts:
        merged["per_tu_funcs"][p["tu"]] = sorted(n for n, e in p["funcs"].items() if e["defined"])
        for n, e in p["funcs"].items():
            old = merged["funcs"].get(n)
            if old is None or (e["defined"] and not old["defined"]):
                merged["funcs"][n] = e
            elif old is not None:
                old["attrs"] = sorted(set(old["attrs"]) | set(e["attrs"]))
        for v in p["vars"]:
            key = (v["name"], v["file"], v["line"], v["func"])
            if key not in seen_vars:
                seen_vars.add(key)
                merged["vars"].append(v)
        for w in p["writes"]:
            w = dict(w, tu=p["tu"])
            merged["writes"].append(w)
        merged["records"].update(p["records"])
        merged["enums"].update(p["enums"])
        merged["typedefs"].update(p["typedefs"])
        merged["tables"].update(p["tables"])
    tmp = path + ".tmp%d" % os.getpid()
    with open(tmp, "w") as f:
        json.dump(merged, f)
    os.rename(tmp, path)
    return merged


if __name__ == "__main__":
    c = cfacts(verbose=True)
    print("tus=%d funcs=%d vars=%d records=%d enums=%d tables=%s" % (
        len(c["tus"]), len(c["funcs"]), len(c["vars"]), len(c["records"]), len(c["enums"]), list(c["tables"])))
    for v in c["vars"]:
        if not v["const"]:
            ws = [w for w in c["writes"] if w["var"] == v["name"]]
            print("non-const:", v["name"], v["type"], v["file"], v["func"], "writers:", sorted({w["func"] for w in ws}))
