// simp-facts: a rustc_private driver that dumps the type-checked program (simplified MIR with
// resolved callees, evaluated constants, ADTs, impls, statics, extern items) as JSON facts.
// Used as RUSTC_WORKSPACE_WRAPPER: argv = [driver, rustc, rustc-args...].
#![feature(rustc_private)]
#![allow(clippy::all)]

extern crate rustc_abi;
extern crate rustc_ast;
extern crate rustc_data_structures;
extern crate rustc_driver;
extern crate rustc_hir;
extern crate rustc_interface;
extern crate rustc_middle;
extern crate rustc_session;
extern crate rustc_span;
extern crate rustc_target;

mod json;

use json::J;
use rustc_driver::Compilation;
use rustc_hir::def::DefKind;
use rustc_hir::def_id::{DefId, LocalDefId, LOCAL_CRATE};
use rustc_middle::mir::{self, Body, Operand, Place, Rvalue, StatementKind, TerminatorKind};
use rustc_middle::ty::print::{with_crate_prefix, with_no_trimmed_paths};
use rustc_middle::ty::{self, GenericArgsRef, Ty, TyCtxt, TypeVisitableExt};
use rustc_span::Span;
use std::fmt::Write as _;

struct Cb;

impl rustc_driver::Callbacks for Cb {
    fn after_analysis<'tcx>(
        &mut self,
        _compiler: &rustc_interface::interface::Compiler,
        tcx: TyCtxt<'tcx>,
    ) -> Compilation {
        let dir = match std::env::var("SIMP_FACTS_DIR") {
            Ok(d) => d,
            Err(_) => return Compilation::Continue,
        };
        let crate_name = tcx.crate_name(LOCAL_CRATE).to_string();
        if crate_name.starts_with("build_script") {
            return Compilation::Continue;
        }
        if tcx.dcx().has_errors().is_some() {
            return Compilation::Continue;
        }
        let cx = Cx { tcx, crate_name: crate_name.clone(), foreign_adts: std::cell::RefCell::new(Vec::new()) };
        let out = cx.dump();
        let mut s = String::with_capacity(1 << 24);
        out.write(&mut s);
        let mut path = format!("{}/{}.json", dir, crate_name);
        let mut k = 1;
        while std::path::Path::new(&path).exists() {
            path = format!("{}/{}.{}.json", dir, crate_name, k);
            k += 1;
        }
        let tmp = format!("{}.tmp{}", path, std::process::id());
        std::fs::write(&tmp, s).expect("write facts");
        std::fs::rename(&tmp, &path).expect("rename facts");
        Compilation::Continue
    }
}

struct Cx<'tcx> {
    tcx: TyCtxt<'tcx>,
    crate_name: String,
    /// foreign-crate ADTs of which this crate projects a field (their field lists are dumped as `foreign_adts`)
    foreign_adts: std::cell::RefCell<Vec<DefId>>,
}

fn fix_crate(s: String, name: &str) -> String {
    // with_crate_prefix prints local paths as `crate::..`; rewrite to the crate's name so that
    // facts of several crates share one namespace.
    if !s.contains("crate") {
        return s;
    }
    let b = s.as_bytes();
    let mut out = String::with_capacity(s.len() + 16);
    let mut i = 0;
    while i < b.len() {
        if b[i..].starts_with(b"crate::")
            && (i == 0 || !(b[i - 1].is_ascii_alphanumeric() || b[i - 1] == b'_'))
        {
            out.push_str(name);
            out.push_str("::");
            i += 7;
        } else {
            // push one utf-8 char
            let ch_len = match b[i] {
                x if x < 0x80 => 1,
                x if x >> 5 == 0b110 => 2,
                x if x >> 4 == 0b1110 => 3,
                _ => 4,
            };
            out.push_str(&s[i..i + ch_len]);
            i += ch_len;
        }
    }
    out
}

impl<'tcx> Cx<'tcx> {
    fn p<F: FnOnce() -> String>(&self, f: F) -> String {
        let s = with_crate_prefix!(with_no_trimmed_paths!(f()));
        fix_crate(s, &self.crate_name)
    }

    fn path(&self, did: DefId) -> String {
        self.p(|| self.tcx.def_path_str(did))
    }

    fn path_args(&self, did: DefId, args: GenericArgsRef<'tcx>) -> String {
        self.p(|| self.tcx.def_path_str_with_args(did, args))
    }

    fn ty(&self, t: Ty<'tcx>) -> String {
        self.p(|| t.to_string())
    }

    fn loc(&self, sp: Span) -> (String, usize) {
        let sm = self.tcx.sess.source_map();
        let lo = sm.lookup_char_pos(sp.lo());
        let name = match &lo.file.name {
            rustc_span::FileName::Real(r) => match r.local_path() {
                Some(p) => p.to_string_lossy().into_owned(),
                None => format!("{:?}", lo.file.name),
            },
            other => format!("{:?}", other),
        };
        (name, lo.line)
    }

    fn span_j(&self, sp: Span) -> J {
        let (f, l) = self.loc(sp);
        J::Arr(vec![J::Str(f), J::Num(l as i128), J::Bool(sp.from_expansion())])
    }

    fn line(&self, sp: Span) -> J {
        // line of the outermost user-written call site
        let sp2 = sp.source_callsite();
        let (_, l) = self.loc(sp2);
        J::Num(l as i128)
    }

    fn dump(&self) -> J {
        let tcx = self.tcx;
        let mut fns = Vec::new();
        let mut consts = Vec::new();
        for ldid in tcx.hir_body_owners() {
            let did = ldid.to_def_id();
            let kind = tcx.def_kind(did);
            match kind {
                DefKind::Fn | DefKind::AssocFn | DefKind::Closure => {
                    if tcx.is_constructor(did) {
                        continue;
                    }
                    fns.push(self.dump_fn(ldid, kind));
                }
                DefKind::Const { .. } | DefKind::AssocConst { .. } | DefKind::Static { .. } => {
                    if let Some(c) = self.dump_const_item(ldid, kind) {
                        consts.push(c);
                    }
                    // the initialiser's body, so that rules can read e.g. `const NOP: NodeBounds = NodeBounds { .. }`
                    if !matches!(kind, DefKind::Static { .. }) && !tcx.generics_of(did).requires_monomorphization(tcx) {
                        fns.push(self.dump_fn(ldid, kind));
                    }
                }
                _ => {}
            }
        }
        let mut adts = Vec::new();
        let mut impls = Vec::new();
        let mut foreign = Vec::new();
        let mut statics = Vec::new();
        let mut traits = Vec::new();
        for id in tcx.hir_free_items() {
            let ldid = id.owner_id.def_id;
            let did = ldid.to_def_id();
            match tcx.def_kind(did) {
                DefKind::Struct | DefKind::Enum | DefKind::Union => adts.push(self.dump_adt(did)),
                DefKind::Impl { .. } => impls.push(self.dump_impl(did)),
                DefKind::Static { .. } => statics.push(self.dump_static(did)),
                DefKind::Trait => traits.push(self.dump_trait(did)),
                DefKind::ForeignMod => {
                    let item = tcx.hir_item(id);
                    if let rustc_hir::ItemKind::ForeignMod { abi, items } = item.kind {
                        for fi in items.iter() {
                            let fdid = fi.owner_id.def_id.to_def_id();
                            foreign.push(self.dump_foreign(fdid, format!("{:?}", abi)));
                        }
                    }
                }
                _ => {}
            }
        }
        let mut cfgs = Vec::new();
        for (name, val) in tcx.sess.config.iter() {
            if name.as_str() == "feature" {
                if let Some(v) = val {
                    cfgs.push(J::Str(v.to_string()));
                }
            }
        }
        let fdids: Vec<DefId> = self.foreign_adts.borrow().clone();
        let mut foreign_adts: Vec<(String, J)> = fdids.iter().map(|d| (self.path(*d), self.dump_adt(*d))).collect();
        foreign_adts.sort_by(|a, b| a.0.cmp(&b.0));
        let foreign_adts: Vec<J> = foreign_adts.into_iter().map(|x| x.1).collect();
        let foreign_methods: Vec<J> = fdids
            .iter()
            .map(|d| {
                let mut names: Vec<String> = Vec::new();
                for imp in tcx.inherent_impls(*d).iter() {
                    for it in tcx.associated_items(*imp).in_definition_order() {
                        if matches!(it.tag(), ty::AssocTag::Fn) {
                            names.push(it.name().to_string());
                        }
                    }
                }
                names.sort();
                names.dedup();
                J::Obj(vec![("path", J::Str(self.path(*d))), ("methods", J::Arr(names.into_iter().map(J::Str).collect()))])
            })
            .collect();
        let ctypes: Vec<J> = tcx.crate_types().iter().map(|c| J::Str(format!("{:?}", c))).collect();
        J::Obj(vec![
            ("crate", J::Str(self.crate_name.clone())),
            ("crate_types", J::Arr(ctypes)),
            ("features", J::Arr(cfgs)),
            ("is_test", J::Bool(tcx.sess.is_test_crate())),
            ("fns", J::Arr(fns)),
            ("consts", J::Arr(consts)),
            ("adts", J::Arr(adts)),
            ("foreign_adts", J::Arr(foreign_adts)),
            ("foreign_methods", J::Arr(foreign_methods)),
            ("impls", J::Arr(impls)),
            ("traits", J::Arr(traits)),
            ("statics", J::Arr(statics)),
            ("foreign", J::Arr(foreign)),
        ])
    }

    fn attrs_j(&self, did: DefId) -> J {
        let tcx = self.tcx;
        let mut v = Vec::new();
        if let Some(l) = did.as_local() {
            let hid = tcx.local_def_id_to_hir_id(l);
            for a in tcx.hir_attrs(hid) {
                if let rustc_hir::Attribute::Unparsed(item) = a {
                    if let Ok(s) = tcx.sess.source_map().span_to_snippet(item.span) {
                        v.push(J::Str(s));
                    }
                }
            }
        }
        J::Arr(v)
    }

    fn dump_trait(&self, did: DefId) -> J {
        let tcx = self.tcx;
        let mut items = Vec::new();
        for it in tcx.associated_items(did).in_definition_order() {
            items.push(J::Obj(vec![
                ("name", J::Str(it.name().to_string())),
                ("kind", J::Str(format!("{:?}", it.tag()))),
                ("has_default", J::Bool(it.defaultness(tcx).has_value())),
                ("path", J::Str(self.path(it.def_id))),
            ]));
        }
        J::Obj(vec![
            ("path", J::Str(self.path(did))),
            ("span", self.span_j(tcx.def_span(did))),
            ("items", J::Arr(items)),
        ])
    }

    fn dump_adt(&self, did: DefId) -> J {
        let tcx = self.tcx;
        let adt = tcx.adt_def(did);
        let mut variants = Vec::new();
        for (vi, v) in adt.variants().iter_enumerated() {
            let discr = if adt.is_enum() {
                J::Str(adt.discriminant_for_variant(tcx, vi).val.to_string())
            } else {
                J::Null
            };
            let mut fields = Vec::new();
            for f in v.fields.iter() {
                let fty = tcx.type_of(f.did).instantiate_identity().skip_norm_wip();
                fields.push(J::Obj(vec![
                    ("name", J::Str(f.name.to_string())),
                    ("ty", J::Str(self.ty(fty))),
                    ("vis", J::Str(self.vis(f.vis))),
                ]));
            }
            variants.push(J::Obj(vec![
                ("name", J::Str(v.name.to_string())),
                ("discr", discr),
                ("fields", J::Arr(fields)),
                ("attrs", self.attrs_j(v.def_id)),
            ]));
        }
        let repr = adt.repr();
        J::Obj(vec![
            ("path", J::Str(self.path(did))),
            ("kind", J::Str(format!("{:?}", adt.adt_kind()))),
            ("span", self.span_j(tcx.def_span(did))),
            ("vis", J::Str(self.vis(tcx.visibility(did)))),
            ("repr_c", J::Bool(repr.c())),
            ("repr_transparent", J::Bool(repr.transparent())),
            ("repr_int", match repr.int { Some(i) => J::Str(format!("{:?}", i)), None => J::Null }),
            ("variants", J::Arr(variants)),
            ("attrs", self.attrs_j(did)),
        ])
    }

    fn vis(&self, v: ty::Visibility<DefId>) -> String {
        match v {
            ty::Visibility::Public => "pub".to_string(),
            ty::Visibility::Restricted(d) => {
                if d.is_crate_root() {
                    "crate".to_string()
                } else {
                    format!("in:{}", self.path(d))
                }
            }
        }
    }

    fn dump_impl(&self, did: DefId) -> J {
        let tcx = self.tcx;
        let self_ty = tcx.type_of(did).instantiate_identity().skip_norm_wip();
        let (tr, tr_full, polarity, safety) = match tcx.impl_opt_trait_ref(did) {
            Some(t) => {
                let t = t.instantiate_identity().skip_norm_wip();
                let h = tcx.impl_trait_header(did);
                (
                    J::Str(self.path(t.def_id)),
                    J::Str(self.p(|| t.to_string())),
                    J::Str(format!("{:?}", h.polarity)),
                    J::Str(format!("{:?}", h.safety)),
                )
            }
            None => (J::Null, J::Null, J::Null, J::Null),
        };
        let mut items = Vec::new();
        for it in tcx.associated_items(did).in_definition_order() {
            items.push(J::Obj(vec![
                ("name", J::Str(it.name().to_string())),
                ("path", J::Str(self.path(it.def_id))),
                ("kind", J::Str(format!("{:?}", it.tag()))),
            ]));
        }
        let sp = tcx.def_span(did);
        J::Obj(vec![
            ("self_ty", J::Str(self.ty(self_ty))),
            ("self_adt", match self_ty.kind() { ty::Adt(a, _) => J::Str(self.path(a.did())), _ => J::Null }),
            ("trait", tr),
            ("trait_ref", tr_full),
            ("polarity", polarity),
            ("safety", safety),
            ("span", self.span_j(sp)),
            ("items", J::Arr(items)),
        ])
    }

    fn dump_static(&self, did: DefId) -> J {
        let tcx = self.tcx;
        let t = tcx.type_of(did).instantiate_identity().skip_norm_wip();
        J::Obj(vec![
            ("path", J::Str(self.path(did))),
            ("ty", J::Str(self.ty(t))),
            ("mutable", J::Bool(tcx.is_mutable_static(did))),
            ("thread_local", J::Bool(tcx.is_thread_local_static(did))),
            ("span", self.span_j(tcx.def_span(did))),
            ("freeze", J::Bool(t.is_freeze(tcx, ty::TypingEnv::fully_monomorphized()))),
        ])
    }

    fn abi_ty(&self, t: Ty<'tcx>) -> J {
        // canonical ABI description of a type appearing in an extern signature
        let tcx = self.tcx;
        match t.kind() {
            ty::Bool => J::Obj(vec![("k", J::Str("bool".into()))]),
            ty::Int(_) | ty::Uint(_) | ty::Float(_) | ty::Char => {
                let signed = matches!(t.kind(), ty::Int(_));
                let bits = match tcx.layout_of(ty::TypingEnv::fully_monomorphized().as_query_input(t)) {
                    Ok(l) => l.size.bits() as i128,
                    Err(_) => -1,
                };
                J::Obj(vec![
                    ("k", J::Str(if matches!(t.kind(), ty::Float(_)) { "float".into() } else { "int".into() })),
                    ("bits", J::Num(bits)),
                    ("signed", J::Bool(signed)),
                    ("name", J::Str(self.ty(t))),
                ])
            }
            ty::RawPtr(inner, m) => J::Obj(vec![
                ("k", J::Str("ptr".into())),
                ("mut", J::Bool(m.is_mut())),
                ("to", self.abi_ty(*inner)),
            ]),
            ty::Ref(_, inner, m) => J::Obj(vec![
                ("k", J::Str("ptr".into())),
                ("mut", J::Bool(m.is_mut())),
                ("ref", J::Bool(true)),
                ("to", self.abi_ty(*inner)),
            ]),
            ty::Adt(a, _) => J::Obj(vec![
                ("k", J::Str("adt".into())),
                ("path", J::Str(self.path(a.did()))),
                ("name", J::Str(tcx.item_name(a.did()).to_string())),
                ("repr_c", J::Bool(a.repr().c())),
                ("repr_transparent", J::Bool(a.repr().transparent())),
            ]),
            ty::Tuple(l) if l.is_empty() => J::Obj(vec![("k", J::Str("void".into()))]),
            ty::Never => J::Obj(vec![("k", J::Str("never".into()))]),
            ty::Array(inner, n) => J::Obj(vec![
                ("k", J::Str("array".into())),
                ("len", match n.try_to_target_usize(tcx) { Some(v) => J::Num(v as i128), None => J::Null }),
                ("of", self.abi_ty(*inner)),
            ]),
            ty::FnPtr(..) => {
                let sig = t.fn_sig(tcx).skip_binder();
                let ins: Vec<J> = sig.inputs().iter().map(|t| self.abi_ty(*t)).collect();
                J::Obj(vec![
                    ("k", J::Str("fnptr".into())),
                    ("name", J::Str(self.ty(t))),
                    ("inputs", J::Arr(ins)),
                    ("output", self.abi_ty(sig.output())),
                    ("c_variadic", J::Bool(sig.c_variadic())),
                ])
            }
            ty::Foreign(d) => J::Obj(vec![("k", J::Str("foreign".into())), ("path", J::Str(self.path(*d)))]),
            _ => J::Obj(vec![("k", J::Str("other".into())), ("name", J::Str(self.ty(t)))]),
        }
    }

    fn dump_foreign(&self, did: DefId, abi: String) -> J {
        let tcx = self.tcx;
        let kind = tcx.def_kind(did);
        let attrs = tcx.codegen_fn_attrs(did);
        let link_name = match attrs.symbol_name {
            Some(s) => s.to_string(),
            None => tcx.item_name(did).to_string(),
        };
        let mut o = vec![
            ("path", J::Str(self.path(did))),
            ("name", J::Str(tcx.item_name(did).to_string())),
            ("link_name", J::Str(link_name)),
            ("abi", J::Str(abi)),
            ("kind", J::Str(format!("{:?}", kind))),
            ("span", self.span_j(tcx.def_span(did))),
            ("vis", J::Str(self.vis(tcx.visibility(did)))),
        ];
        match kind {
            DefKind::Fn => {
                let sig = tcx.fn_sig(did).instantiate_identity().skip_norm_wip().skip_binder();
                let ins: Vec<J> = sig.inputs().iter().map(|t| self.abi_ty(*t)).collect();
                o.push(("inputs", J::Arr(ins)));
                o.push(("output", self.abi_ty(sig.output())));
                o.push(("c_variadic", J::Bool(sig.c_variadic())));
            }
            DefKind::Static { .. } => {
                let t = tcx.type_of(did).instantiate_identity().skip_norm_wip();
                o.push(("ty", self.abi_ty(t)));
                o.push(("mutable", J::Bool(tcx.is_mutable_static(did))));
            }
            _ => {}
        }
        J::Obj(o)
    }

    fn const_bytes(&self, val: mir::ConstValue, t: Ty<'tcx>, o: &mut Vec<(&'static str, J)>) {
        let tcx = self.tcx;
        match val {
            mir::ConstValue::Scalar(mir::interpret::Scalar::Int(i)) => {
                let size = i.size();
                let bits = i.to_bits(size);
                let v: i128 = if t.is_signed() { size.sign_extend(bits) as i128 } else { bits as i128 };
                if bits <= i128::MAX as u128 || t.is_signed() {
                    o.push(("int", J::Num(v)));
                } else {
                    o.push(("uint_s", J::Str(bits.to_string())));
                }
            }
            mir::ConstValue::Scalar(mir::interpret::Scalar::Ptr(ptr, _)) => {
                {
                    let (prov0, _off0) = ptr.into_raw_parts();
                    if let Some(rustc_middle::mir::interpret::GlobalAlloc::Static(sdid)) = tcx.try_get_global_alloc(prov0.alloc_id()) {
                        o.push(("static_ref", J::Str(self.path(sdid))));
                    }
                }
                // a reference to some constant memory: emit the pointee bytes when the pointee is sized
                if let Some(inner) = t.builtin_deref(true) {
                    if let Ok(l) = tcx.layout_of(ty::TypingEnv::fully_monomorphized().as_query_input(inner)) {
                        let (prov, off) = ptr.into_raw_parts();
                        let aid = prov.alloc_id();
                        if let Some(rustc_middle::mir::interpret::GlobalAlloc::Static(sdid)) = tcx.try_get_global_alloc(aid) {
                            o.push(("static", J::Str(self.path(sdid))));
                        }
                        self.enum_variant(mir::ConstValue::Indirect { alloc_id: aid, offset: off }, inner, o);
                        if let Some(rustc_middle::mir::interpret::GlobalAlloc::Memory(a)) = tcx.try_get_global_alloc(aid) {
                            let a = a.inner();
                            let start = off.bytes() as usize;
                            let end = start + l.size.bytes() as usize;
                            if end <= a.len() && l.size.bytes() <= 1 << 16 {
                                let no_ptr = a.provenance().ptrs().is_empty();
                                if no_ptr {
                                    let b = a.inspect_with_uninit_and_ptr_outside_interpreter(start..end);
                                    o.push(("bytes", J::Str(hex(b))));
                                    o.push(("pointee", J::Str(self.ty(inner))));
                                }
                            }
                        }
                    }
                }
            }
            mir::ConstValue::ZeroSized => {
                o.push(("zst", J::Bool(true)));
            }
            mir::ConstValue::Slice { alloc_id, meta } => {
                if let Some(rustc_middle::mir::interpret::GlobalAlloc::Memory(a)) = tcx.try_get_global_alloc(alloc_id) {
                    let a = a.inner();
                    let elem = match t.builtin_deref(true).map(|x| x.kind().clone()) {
                        Some(ty::Str) => 1usize,
                        Some(ty::Slice(e)) => tcx
                            .layout_of(ty::TypingEnv::fully_monomorphized().as_query_input(e))
                            .map(|l| l.size.bytes() as usize)
                            .unwrap_or(0),
                        _ => 0,
                    };
                    let len = elem * meta as usize;
                    if elem > 0 && len <= a.len() && len <= 1 << 20 && a.provenance().ptrs().is_empty() {
                        let b = a.inspect_with_uninit_and_ptr_outside_interpreter(0..len);
                        if matches!(t.builtin_deref(true).map(|x| x.kind().clone()), Some(ty::Str)) {
                            o.push(("str", J::Str(String::from_utf8_lossy(b).into_owned())));
                        }
                        o.push(("bytes", J::Str(hex(b))));
                        o.push(("slice_len", J::Num(meta as i128)));
                    }
                }
            }
            mir::ConstValue::Indirect { alloc_id, offset } => {
                self.enum_variant(val, t, o);
                if let Some(rustc_middle::mir::interpret::GlobalAlloc::Memory(a)) = tcx.try_get_global_alloc(alloc_id) {
                    let a = a.inner();
                    if let Ok(l) = tcx.layout_of(ty::TypingEnv::fully_monomorphized().as_query_input(t)) {
                        let start = offset.bytes() as usize;
                        let end = start + l.size.bytes() as usize;
                        if end <= a.len() && l.size.bytes() <= 1 << 20 && a.provenance().ptrs().is_empty() {
                            let b = a.inspect_with_uninit_and_ptr_outside_interpreter(start..end);
                            o.push(("bytes", J::Str(hex(b))));
                        }
                    }
                }
            }
        }
    }

    /// for a constant of enum type: the name of its variant (so that `&Token::Plus` is readable);
    /// nested enum payloads (e.g. `Some(&Token::Plus)`) are listed under "nested"
    fn enum_variant(&self, val: mir::ConstValue, t: Ty<'tcx>, o: &mut Vec<(&'static str, J)>) {
        let mut found = Vec::new();
        self.enum_variant_rec(val, t, 0, &mut found);
        if let Some((e, v)) = found.first() {
            o.push(("variant", J::Str(v.clone())));
            o.push(("enum", J::Str(e.clone())));
        }
        if found.len() > 1 {
            let rest: Vec<J> = found[1..]
                .iter()
                .map(|(e, v)| J::Arr(vec![J::Str(e.clone()), J::Str(v.clone())]))
                .collect();
            o.push(("nested", J::Arr(rest)));
        }
    }

    fn enum_variant_rec(&self, val: mir::ConstValue, t: Ty<'tcx>, depth: usize, found: &mut Vec<(String, String)>) {
        if depth > 3 || t.has_non_region_param() {
            return;
        }
        match t.kind() {
            ty::Adt(adt, _) if adt.is_enum() => {
                if let Some(d) = self.tcx.try_destructure_mir_constant_for_user_output(val, t) {
                    if let Some(vi) = d.variant {
                        found.push((self.path(adt.did()), adt.variant(vi).name.to_string()));
                    }
                    for (fv, ft) in d.fields.iter() {
                        self.enum_variant_rec(*fv, *ft, depth + 1, found);
                    }
                }
            }
            ty::Ref(_, inner, _) => {
                if let mir::ConstValue::Scalar(mir::interpret::Scalar::Ptr(ptr, _)) = val {
                    let (prov, off) = ptr.into_raw_parts();
                    let v2 = mir::ConstValue::Indirect { alloc_id: prov.alloc_id(), offset: off };
                    self.enum_variant_rec(v2, *inner, depth + 1, found);
                }
            }
            _ => {}
        }
    }

    fn dump_const_item(&self, ldid: LocalDefId, kind: DefKind) -> Option<J> {
        let tcx = self.tcx;
        let did = ldid.to_def_id();
        let generics = tcx.generics_of(did);
        if generics.requires_monomorphization(tcx) {
            return None;
        }
        let t = tcx.type_of(did).instantiate_identity().skip_norm_wip();
        if t.has_non_region_param() {
            return None;
        }
        let mut o = vec![
            ("path", J::Str(self.path(did))),
            ("kind", J::Str(format!("{:?}", kind).split_whitespace().next().unwrap_or("").to_string())),
            ("ty", J::Str(self.ty(t))),
            ("span", self.span_j(tcx.def_span(did))),
        ];
        if matches!(kind, DefKind::Static { .. }) {
            return Some(J::Obj(o));
        }
        if let Ok(val) = tcx.const_eval_poly(did) {
            self.const_bytes(val, t, &mut o);
        }
        Some(J::Obj(o))
    }

    fn dump_fn(&self, ldid: LocalDefId, kind: DefKind) -> J {
        let tcx = self.tcx;
        let did = ldid.to_def_id();
        let body: &Body<'tcx> = if matches!(kind, DefKind::Const { .. } | DefKind::AssocConst { .. }) {
            tcx.mir_for_ctfe(did)
        } else {
            tcx.optimized_mir(did)
        };
        let mut o: Vec<(&'static str, J)> = Vec::new();
        o.push(("path", J::Str(self.path(did))));
        o.push(("kind", J::Str(format!("{:?}", kind).split_whitespace().next().unwrap_or("").trim_end_matches('{').to_string())));
        let name = if matches!(kind, DefKind::Closure) {
            "{closure}".to_string()
        } else {
            tcx.opt_item_name(did).map(|s| s.to_string()).unwrap_or_else(|| "_".to_string())
        };
        o.push(("name", J::Str(name)));
        o.push(("span", self.span_j(tcx.def_span(did))));
        if matches!(kind, DefKind::Fn | DefKind::AssocFn) {
            o.push(("vis", J::Str(self.vis(tcx.visibility(did)))));
            let sig = tcx.fn_sig(did).instantiate_identity().skip_norm_wip().skip_binder();
            o.push(("unsafe", J::Bool(!sig.safety().is_safe())));
            o.push(("is_const", J::Bool(tcx.is_const_fn(did))));
        }
        // parent impl / trait
        let parent = tcx.parent(did);
        match tcx.def_kind(parent) {
            DefKind::Impl { .. } => {
                let st = tcx.type_of(parent).instantiate_identity().skip_norm_wip();
                o.push(("impl_self", J::Str(self.ty(st))));
                if let ty::Adt(a, _) = st.kind() {
                    o.push(("impl_adt", J::Str(self.path(a.did()))));
                }
                if let Some(t) = tcx.impl_opt_trait_ref(parent) {
                    let t = t.instantiate_identity().skip_norm_wip();
                    o.push(("impl_trait", J::Str(self.path(t.def_id))));
                    o.push(("impl_trait_ref", J::Str(self.p(|| t.to_string()))));
                }
            }
            DefKind::Trait => {
                o.push(("in_trait", J::Str(self.path(parent))));
            }
            _ => {}
        }
        if matches!(kind, DefKind::Closure) {
            o.push(("parent_fn", J::Str(self.path(tcx.typeck_root_def_id(did)))));
        }
        o.push(("arg_count", J::Num(body.arg_count as i128)));
        // locals
        let mut locals = Vec::new();
        for (_, d) in body.local_decls.iter_enumerated() {
            locals.push(J::Str(self.ty(d.ty)));
        }
        o.push(("locals", J::Arr(locals)));
        // debug names
        let mut dbg = Vec::new();
        for vdi in body.var_debug_info.iter() {
            if let mir::VarDebugInfoContents::Place(p) = &vdi.value {
                dbg.push(J::Arr(vec![J::Str(vdi.name.to_string()), self.place(body, p, false)]));
            }
        }
        o.push(("debug", J::Arr(dbg)));
        let typing_env = ty::TypingEnv::post_analysis(tcx, did);
        let mut blocks = Vec::new();
        for (_bb, data) in body.basic_blocks.iter_enumerated() {
            let mut stmts = Vec::new();
            for st in data.statements.iter() {
                match &st.kind {
                    StatementKind::Assign(b) => {
                        let (pl, rv) = &**b;
                        stmts.push(J::Arr(vec![
                            J::Str("=".into()),
                            self.place(body, pl, false),
                            self.rvalue(body, rv, typing_env, st.source_info.span),
                            self.line(st.source_info.span),
                            J::Bool(st.source_info.span.from_expansion()),
                        ]));
                    }
                    StatementKind::SetDiscriminant { place, variant_index } => {
                        stmts.push(J::Arr(vec![
                            J::Str("setdiscr".into()),
                            self.place(body, place, true),
                            J::Num(variant_index.as_u32() as i128),
                        ]));
                    }
                    StatementKind::StorageDead(l) => {
                        stmts.push(J::Arr(vec![J::Str("dead".into()), J::Num(l.as_u32() as i128)]));
                    }
                    StatementKind::StorageLive(l) => {
                        stmts.push(J::Arr(vec![J::Str("live".into()), J::Num(l.as_u32() as i128)]));
                    }
                    StatementKind::Intrinsic(i) => {
                        stmts.push(J::Arr(vec![J::Str("intrinsic".into()), J::Str(format!("{:?}", i))]));
                    }
                    _ => {}
                }
            }
            let term = data.terminator();
            let tj = self.terminator(body, term, typing_env);
            blocks.push(J::Obj(vec![
                ("s", J::Arr(stmts)),
                ("t", tj),
                ("cleanup", J::Bool(data.is_cleanup)),
            ]));
        }
        o.push(("blocks", J::Arr(blocks)));
        J::Obj(o)
    }

    fn place(&self, body: &Body<'tcx>, p: &Place<'tcx>, want_ty: bool) -> J {
        let tcx = self.tcx;
        let mut proj = Vec::new();
        let mut pty = mir::PlaceTy::from_ty(body.local_decls[p.local].ty);
        for elem in p.projection.iter() {
            let s = match elem {
                mir::ProjectionElem::Deref => "*".to_string(),
                mir::ProjectionElem::Field(f, _) => {
                    let mut name = f.as_u32().to_string();
                    if let ty::Adt(adt, _) = pty.ty.kind() {
                        if !adt.did().is_local() {
                            let mut seen = self.foreign_adts.borrow_mut();
                            if !seen.contains(&adt.did()) {
                                seen.push(adt.did());
                            }
                        }
                        let v = match pty.variant_index {
                            Some(vi) => Some(adt.variant(vi)),
                            None if adt.is_struct() || adt.is_union() => Some(adt.non_enum_variant()),
                            None => None,
                        };
                        if let Some(v) = v {
                            if let Some(fd) = v.fields.get(f) {
                                name = fd.name.to_string();
                            }
                        }
                    }
                    format!(".{}", name)
                }
                mir::ProjectionElem::Index(l) => format!("[_{}]", l.as_u32()),
                mir::ProjectionElem::ConstantIndex { offset, from_end, .. } => {
                    if from_end { format!("[-{}]", offset) } else { format!("[{}]", offset) }
                }
                mir::ProjectionElem::Subslice { from, to, from_end } => {
                    format!("[{}..{}{}]", from, if from_end { "-" } else { "" }, to)
                }
                mir::ProjectionElem::Downcast(_, vi) => {
                    let mut name = vi.as_u32().to_string();
                    if let ty::Adt(adt, _) = pty.ty.kind() {
                        name = adt.variant(vi).name.to_string();
                    }
                    format!("@{}", name)
                }
                mir::ProjectionElem::OpaqueCast(_) => "opaque".to_string(),
                mir::ProjectionElem::UnwrapUnsafeBinder(_) => "unbinder".to_string(),
            };
            proj.push(J::Str(s));
            pty = pty.projection_ty(tcx, elem);
        }
        let mut v = vec![J::Num(p.local.as_u32() as i128), J::Arr(proj)];
        if want_ty || !p.projection.is_empty() {
            v.push(J::Str(self.ty(pty.ty)));
        }
        J::Arr(v)
    }

    fn operand(&self, body: &Body<'tcx>, op: &Operand<'tcx>, typing_env: ty::TypingEnv<'tcx>) -> J {
        match op {
            Operand::Copy(p) => J::Obj(vec![("k", J::Str("copy".into())), ("p", self.place(body, p, false))]),
            Operand::Move(p) => J::Obj(vec![("k", J::Str("move".into())), ("p", self.place(body, p, false))]),
            Operand::Constant(c) => self.constant(c, typing_env),
            #[allow(unreachable_patterns)]
            other => J::Obj(vec![("k", J::Str("other".into())), ("dbg", J::Str(format!("{:?}", other)))]),
        }
    }

    fn constant(&self, c: &mir::ConstOperand<'tcx>, typing_env: ty::TypingEnv<'tcx>) -> J {
        let tcx = self.tcx;
        let t = c.const_.ty();
        let mut o: Vec<(&'static str, J)> = vec![("k", J::Str("const".into())), ("ty", J::Str(self.ty(t)))];
        if let ty::FnDef(did, args) = t.kind() {
            o.push(("fn", self.callee(*did, args, typing_env)));
            return J::Obj(o);
        }
        if let mir::Const::Unevaluated(u, _) = c.const_ {
            if u.promoted.is_none() {
                o.push(("item", J::Str(self.path(u.def))));
                o.push(("item_full", J::Str(self.path_args(u.def, u.args))));
            } else {
                o.push(("promoted", J::Bool(true)));
            }
        }
        if c.const_.has_non_region_param() {
            o.push(("generic", J::Bool(true)));
            return J::Obj(o);
        }
        match c.const_.eval(tcx, typing_env, c.span) {
            Ok(val) => self.const_bytes(val, t, &mut o),
            Err(_) => o.push(("eval_err", J::Bool(true))),
        }
        J::Obj(o)
    }

    fn callee(&self, did: DefId, args: GenericArgsRef<'tcx>, typing_env: ty::TypingEnv<'tcx>) -> J {
        let tcx = self.tcx;
        let mut o: Vec<(&'static str, J)> = Vec::new();
        o.push(("path", J::Str(self.path(did))));
        o.push(("full", J::Str(self.path_args(did, args))));
        o.push(("name", J::Str(tcx.item_name(did).to_string())));
        o.push(("local", J::Bool(did.is_local())));
        let ga: Vec<J> = args
            .iter()
            .filter_map(|a| match a.kind() {
                ty::GenericArgKind::Type(t) => Some(J::Str(self.ty(t))),
                ty::GenericArgKind::Const(c) => Some(J::Str(self.p(|| c.to_string()))),
                _ => None,
            })
            .collect();
        o.push(("args", J::Arr(ga)));
        if let Some(tr) = tcx.trait_of_assoc(did) {
            o.push(("trait", J::Str(self.path(tr))));
            if let Some(st) = args.get(0).and_then(|a| a.as_type()) {
                o.push(("self", J::Str(self.ty(st))));
            }
        } else if let Some(imp) = tcx.impl_of_assoc(did) {
            let st = tcx.type_of(imp).instantiate_identity().skip_norm_wip();
            if let ty::Adt(a, _) = st.kind() {
                o.push(("impl_adt", J::Str(self.path(a.did()))));
                if !a.did().is_local() && tcx.impl_opt_trait_ref(imp).is_none() {
                    let mut seen = self.foreign_adts.borrow_mut();
                    if !seen.contains(&a.did()) {
                        seen.push(a.did());
                    }
                }
            }
            if let Some(t) = tcx.impl_opt_trait_ref(imp) {
                let t = t.instantiate_identity().skip_norm_wip();
                o.push(("impl_trait", J::Str(self.path(t.def_id))));
            }
        }
        if matches!(tcx.def_kind(did), DefKind::Fn | DefKind::AssocFn) {
            if let Ok(Some(inst)) = ty::Instance::try_resolve(tcx, typing_env, did, args) {
                let rdid = inst.def_id();
                let kind = match inst.def {
                    ty::InstanceKind::Item(_) => "item",
                    ty::InstanceKind::Virtual(..) => "virtual",
                    ty::InstanceKind::Intrinsic(_) => "intrinsic",
                    ty::InstanceKind::ClosureOnceShim { .. } => "closure_once",
                    ty::InstanceKind::FnPtrShim(..) => "fnptr_shim",
                    ty::InstanceKind::DropGlue(..) => "drop_glue",
                    ty::InstanceKind::CloneShim(..) => "clone_shim",
                    _ => "shim",
                };
                o.push(("res_kind", J::Str(kind.into())));
                if rdid != did {
                    o.push(("res", J::Str(self.path(rdid))));
                    o.push(("res_local", J::Bool(rdid.is_local())));
                }
                if matches!(inst.def, ty::InstanceKind::Item(_)) {
                    o.push(("resolved", J::Bool(true)));
                }
            }
        }
        if tcx.is_foreign_item(did) {
            o.push(("foreign", J::Bool(true)));
        }
        if tcx.is_constructor(did) {
            o.push(("ctor", J::Bool(true)));
        }
        J::Obj(o)
    }

    fn rvalue(&self, body: &Body<'tcx>, rv: &Rvalue<'tcx>, te: ty::TypingEnv<'tcx>, _sp: Span) -> J {
        let tcx = self.tcx;
        let k = |s: &str| ("k", J::Str(s.to_string()));
        match rv {
            Rvalue::Use(op, ..) => J::Obj(vec![k("use"), ("a", self.operand(body, op, te))]),
            Rvalue::Repeat(op, n) => J::Obj(vec![
                k("repeat"),
                ("a", self.operand(body, op, te)),
                ("n", match n.try_to_target_usize(tcx) { Some(v) => J::Num(v as i128), None => J::Null }),
            ]),
            Rvalue::Ref(_, bk, p) => J::Obj(vec![
                k("ref"),
                ("mut", J::Bool(matches!(bk, mir::BorrowKind::Mut { .. }))),
                ("p", self.place(body, p, false)),
            ]),
            Rvalue::ThreadLocalRef(d) => J::Obj(vec![k("tls"), ("item", J::Str(self.path(*d)))]),
            Rvalue::RawPtr(kind, p) => J::Obj(vec![
                k("rawptr"),
                ("mut", J::Bool(matches!(kind, mir::RawPtrKind::Mut))),
                ("p", self.place(body, p, false)),
            ]),
            Rvalue::Cast(ck, op, t) => J::Obj(vec![
                k("cast"),
                ("cast", J::Str(format!("{:?}", ck))),
                ("a", self.operand(body, op, te)),
                ("ty", J::Str(self.ty(*t))),
            ]),
            Rvalue::BinaryOp(op, ab) => J::Obj(vec![
                k("bin"),
                ("op", J::Str(format!("{:?}", op))),
                ("a", self.operand(body, &ab.0, te)),
                ("b", self.operand(body, &ab.1, te)),
            ]),
            Rvalue::UnaryOp(op, a) => J::Obj(vec![
                k("un"),
                ("op", J::Str(format!("{:?}", op))),
                ("a", self.operand(body, a, te)),
            ]),
            Rvalue::Discriminant(p) => {
                let pt = p.ty(&body.local_decls, tcx).ty;
                let mut o = vec![k("discr"), ("p", self.place(body, p, true))];
                if let ty::Adt(adt, _) = pt.kind() {
                    if adt.is_enum() {
                        o.push(("adt", J::Str(self.path(adt.did()))));
                        let mut m = Vec::new();
                        for (vi, v) in adt.variants().iter_enumerated() {
                            let d = adt.discriminant_for_variant(tcx, vi).val;
                            m.push(J::Arr(vec![J::Str(d.to_string()), J::Str(v.name.to_string())]));
                        }
                        o.push(("variants", J::Arr(m)));
                    }
                }
                J::Obj(o)
            }
            Rvalue::Aggregate(ak, ops) => {
                let mut o = vec![k("agg")];
                match &**ak {
                    mir::AggregateKind::Array(t) => {
                        o.push(("agg", J::Str("array".into())));
                        o.push(("ty", J::Str(self.ty(*t))));
                    }
                    mir::AggregateKind::Tuple => o.push(("agg", J::Str("tuple".into()))),
                    mir::AggregateKind::Adt(did, vi, _args, _, active) => {
                        o.push(("agg", J::Str("adt".into())));
                        let adt = tcx.adt_def(*did);
                        o.push(("adt", J::Str(self.path(*did))));
                        let v = adt.variant(*vi);
                        o.push(("variant", J::Str(v.name.to_string())));
                        let names: Vec<J> = match active {
                            Some(f) => vec![J::Str(v.fields[*f].name.to_string())],
                            None => v.fields.iter().map(|f| J::Str(f.name.to_string())).collect(),
                        };
                        o.push(("fields", J::Arr(names)));
                    }
                    mir::AggregateKind::Closure(did, _) => {
                        o.push(("agg", J::Str("closure".into())));
                        o.push(("closure", J::Str(self.path(*did))));
                    }
                    mir::AggregateKind::RawPtr(..) => o.push(("agg", J::Str("rawptr".into()))),
                    _ => o.push(("agg", J::Str("other".into()))),
                }
                let v: Vec<J> = ops.iter().map(|op| self.operand(body, op, te)).collect();
                o.push(("ops", J::Arr(v)));
                J::Obj(o)
            }
            Rvalue::CopyForDeref(p) => J::Obj(vec![k("use"), ("a", J::Obj(vec![("k", J::Str("copy".into())), ("p", self.place(body, p, false))]))]),
            #[allow(unreachable_patterns)]
            other => J::Obj(vec![k("other"), ("dbg", J::Str(format!("{:?}", other)))]),
        }
    }

    fn terminator(&self, body: &Body<'tcx>, term: &mir::Terminator<'tcx>, te: ty::TypingEnv<'tcx>) -> J {
        let k = |s: &str| ("k", J::Str(s.to_string()));
        let bb = |b: mir::BasicBlock| J::Num(b.as_u32() as i128);
        let unwind = |u: &mir::UnwindAction| match u {
            mir::UnwindAction::Cleanup(b) => J::Num(b.as_u32() as i128),
            _ => J::Null,
        };
        let line = ("line", self.line(term.source_info.span));
        let exp = ("exp", J::Bool(term.source_info.span.from_expansion()));
        match &term.kind {
            TerminatorKind::Goto { target } => J::Obj(vec![k("goto"), ("target", bb(*target))]),
            TerminatorKind::SwitchInt { discr, targets } => {
                let mut ts = Vec::new();
                for (v, t) in targets.iter() {
                    ts.push(J::Arr(vec![J::Str(v.to_string()), bb(t)]));
                }
                J::Obj(vec![
                    k("switch"),
                    ("discr", self.operand(body, discr, te)),
                    ("targets", J::Arr(ts)),
                    ("otherwise", bb(targets.otherwise())),
                    line,
                ])
            }
            TerminatorKind::Return => J::Obj(vec![k("return")]),
            TerminatorKind::Unreachable => J::Obj(vec![k("unreachable")]),
            TerminatorKind::UnwindResume => J::Obj(vec![k("resume")]),
            TerminatorKind::UnwindTerminate(_) => J::Obj(vec![k("terminate")]),
            TerminatorKind::Drop { place, target, unwind: u, .. } => J::Obj(vec![
                k("drop"),
                ("p", self.place(body, place, true)),
                ("target", bb(*target)),
                ("unwind", unwind(u)),
                line,
            ]),
            TerminatorKind::Call { func, args, destination, target, unwind: u, fn_span, .. } => {
                let f = match func {
                    Operand::Constant(c) => match c.const_.ty().kind() {
                        ty::FnDef(did, ga) => self.callee(*did, ga, te),
                        _ => J::Obj(vec![("indirect", self.operand(body, func, te))]),
                    },
                    _ => J::Obj(vec![("indirect", self.operand(body, func, te)), ("fty", J::Str(self.ty(func.ty(&body.local_decls, self.tcx))))]),
                };
                let a: Vec<J> = args.iter().map(|a| self.operand(body, &a.node, te)).collect();
                J::Obj(vec![
                    k("call"),
                    ("f", f),
                    ("args", J::Arr(a)),
                    ("dest", self.place(body, destination, false)),
                    ("target", match target { Some(t) => bb(*t), None => J::Null }),
                    ("unwind", unwind(u)),
                    ("line", self.line(*fn_span)),
                    ("exp", J::Bool(fn_span.from_expansion())),
                ])
            }
            TerminatorKind::TailCall { func, args, .. } => {
                let a: Vec<J> = args.iter().map(|a| self.operand(body, &a.node, te)).collect();
                J::Obj(vec![k("tailcall"), ("f", self.operand(body, func, te)), ("args", J::Arr(a)), line])
            }
            TerminatorKind::Assert { cond, expected, msg, target, unwind: u } => {
                let mut kind = String::new();
                let _ = write!(kind, "{:?}", std::mem::discriminant(&**msg));
                let name = match &**msg {
                    mir::AssertKind::BoundsCheck { .. } => "BoundsCheck".to_string(),
                    mir::AssertKind::Overflow(op, ..) => format!("Overflow({:?})", op),
                    mir::AssertKind::OverflowNeg(_) => "OverflowNeg".to_string(),
                    mir::AssertKind::DivisionByZero(_) => "DivisionByZero".to_string(),
                    mir::AssertKind::RemainderByZero(_) => "RemainderByZero".to_string(),
                    mir::AssertKind::MisalignedPointerDereference { .. } => "Misaligned".to_string(),
                    mir::AssertKind::NullPointerDereference => "NullDeref".to_string(),
                    _ => "Other".to_string(),
                };
                J::Obj(vec![
                    k("assert"),
                    ("cond", self.operand(body, cond, te)),
                    ("expected", J::Bool(*expected)),
                    ("msg", J::Str(name)),
                    ("target", bb(*target)),
                    ("unwind", unwind(u)),
                    line,
                    exp,
                ])
            }
            TerminatorKind::FalseEdge { real_target, .. } => J::Obj(vec![k("goto"), ("target", bb(*real_target))]),
            TerminatorKind::FalseUnwind { real_target, .. } => J::Obj(vec![k("goto"), ("target", bb(*real_target))]),
            other => J::Obj(vec![k("other"), ("dbg", J::Str(format!("{:?}", other)))]),
        }
    }
}

fn hex(b: &[u8]) -> String {
    let mut s = String::with_capacity(b.len() * 2);
    for x in b {
        let _ = write!(s, "{:02x}", x);
    }
    s
}

fn main() {
    let mut args: Vec<String> = std::env::args().collect();
    // as a (workspace) wrapper: argv[1] is the path of the real rustc
    if args.len() > 1 && (args[1].ends_with("rustc") || args[1].contains("/rustc")) {
        args.remove(1);
    }
    rustc_driver::install_ice_hook("https://example.invalid", |_| ());
    let code = rustc_driver::catch_with_exit_code(|| {
        rustc_driver::run_compiler(&args, &mut Cb);
    });
    if code == std::process::ExitCode::SUCCESS {
        std::process::exit(0);
    }
    std::process::exit(1);
}
