#!/bin/sh
# Build the fact-extraction driver and warm the dependency cache, offline, from files on disk only.
set -e
cd "$(dirname "$0")"
export CARGO_NET_OFFLINE=true
(cd engine/driver && cargo +nightly build --release --offline)
python3 engine/extract.py full
