#!/bin/sh
# Build the fact-extraction driver, warm the dependency cache and the C-side facts, offline, from files on disk only.
set -e
cd "$(dirname "$0")"
export CARGO_NET_OFFLINE=true
(cd engine/driver && cargo +nightly build --release --offline)
python3 engine/extract.py full
python3 engine/cside.py >/dev/null
