//! NOT a seeded defect: this integration test FAILS ON THE UNMODIFIED TREE.
//!
//! Found while preparing the C08 mutants.  `RedeemNode::prune` converts hidden (never
//! taken) case branches to Construct nodes too, and because the conversion uses pointer
//! sharing, a polymorphic node (`iden` below) that is shared between live code and a
//! hidden branch keeps the type constraints of the hidden branch.  The pruned program
//! therefore does not have principal types: here the witness `w` keeps type 2^64 although
//! after pruning nothing constrains it.  libsimplicity infers `w : 1 -> 1` and rejects
//! the serialisation (BitstreamTrailingBytes), and pruning a second time changes the
//! program (w becomes unit), so C08 is violated without any source change.

#![allow(dead_code, unused_imports)]

use std::collections::HashSet;
use std::sync::Arc;

use simplicity::bit_machine::{ExecTracker, FrameIter, NodeOutput};
use simplicity::dag::{DagLike, MaxSharing};
use simplicity::elements::{self, confidential, taproot::ControlBlock};
use simplicity::ffi::tests::{parse_root, run_program, TestUpTo};
use simplicity::jet::elements::{ElementsEnv, ElementsUtxo};
use simplicity::jet::{Elements, ElementsTxEnv};
use simplicity::node::{ConstructNode, CoreConstructible, Inner, Redeem, WitnessConstructible};
use simplicity::types::{self, Final};
use simplicity::{BitIter, BitMachine, Cmr, Ihr, RedeemNode, Value};

type N<'b> = Arc<ConstructNode<'b>>;

/// Same as the crate-internal `ElementsEnv::dummy()` (which is `cfg(test)` only).
fn dummy_env() -> ElementsTxEnv {
    let ctrl_blk: [u8; 33] = [
        0xc0, 0xeb, 0x04, 0xb6, 0x8e, 0x9a, 0x26, 0xd1, 0x16, 0x04, 0x6c, 0x76, 0xe8, 0xff, 0x47,
        0x33, 0x2f, 0xb7, 0x1d, 0xda, 0x90, 0xff, 0x4b, 0xef, 0x53, 0x70, 0xf2, 0x52, 0x26, 0xd3,
        0xbc, 0x09, 0xfc,
    ];
    ElementsEnv::new(
        Arc::new(elements::Transaction {
            version: 2,
            lock_time: elements::LockTime::ZERO,
            input: vec![elements::TxIn {
                previous_output: elements::OutPoint::default(),
                is_pegin: false,
                script_sig: elements::Script::new(),
                sequence: elements::Sequence::MAX,
                asset_issuance: elements::AssetIssuance::default(),
                witness: elements::TxInWitness::default(),
            }],
            output: Vec::default(),
        }),
        vec![ElementsUtxo {
            script_pubkey: elements::Script::new(),
            asset: confidential::Asset::Null,
            value: confidential::Value::Null,
        }],
        0,
        Cmr::from_byte_array([0; 32]),
        ControlBlock::from_slice(&ctrl_blk).unwrap(),
        None,
        elements::BlockHash::GENESIS_PREVIOUS_BLOCK_HASH,
    )
}

/// Records what libsimplicity's anti-DoS checks look at: which nodes were
/// executed and which branches of every `case` were taken.
#[derive(Default)]
struct Coverage {
    executed: HashSet<Ihr>,
    left: HashSet<Ihr>,
    right: HashSet<Ihr>,
}

impl ExecTracker for Coverage {
    fn visit_node(&mut self, node: &RedeemNode, mut input: FrameIter, _: NodeOutput) {
        self.executed.insert(node.ihr());
        if let Inner::Case(..) = node.inner() {
            match input.next() {
                Some(false) => self.left.insert(node.ihr()),
                Some(true) => self.right.insert(node.ihr()),
                None => panic!("case node without input"),
            };
        }
    }
}

/// Checks every clause of property C08 for the given (unpruned) redeem program.
fn check_c08(unpruned: &Arc<RedeemNode>) {
    let env = dummy_env();

    let unpruned_out = BitMachine::for_program(unpruned)
        .expect("bounds")
        .exec(unpruned, &env)
        .expect("precondition: the unpruned program runs successfully");

    // Pruning succeeds, keeps the CMR, and the result runs with the same output.
    let pruned = unpruned
        .prune(&env)
        .expect("pruning a successfully running program succeeds");
    assert_eq!(pruned.cmr(), unpruned.cmr(), "pruning changed the CMR");

    let mut coverage = Coverage::default();
    let pruned_out = BitMachine::for_program(&pruned)
        .expect("bounds")
        .exec_with_tracker(&pruned, &env, &mut coverage)
        .expect("the pruned program runs successfully in the same environment");
    assert_eq!(unpruned_out, pruned_out, "pruning changed the output");

    // Anti-DoS: every remaining node is executed, both branches of every
    // remaining case are taken.
    for item in pruned.as_ref().post_order_iter::<MaxSharing<Redeem>>() {
        let ihr = item.node.ihr();
        assert!(
            coverage.executed.contains(&ihr),
            "anti-DoS: node `{}` of the pruned program is never executed",
            item.node.inner()
        );
        if let Inner::Case(..) = item.node.inner() {
            assert!(
                coverage.left.contains(&ihr) && coverage.right.contains(&ihr),
                "anti-DoS: a remaining case does not take both branches"
            );
        }
    }

    // Serialise and hand to libsimplicity: decoding, type inference, witness
    // filling, maximal-sharing (unique IHR / unique hidden hash) check, bounds
    // analysis, 1 -> 1 check.  (`TestUpTo::Everything` is not usable: the Rust
    // binding of `evalTCOExpression` in the test utilities lacks the `minCost`
    // parameter of the vendored C function.)
    let (prog_bytes, wit_bytes) = pruned.to_vec_with_witness();
    let c_res = run_program(
        &prog_bytes,
        &wit_bytes,
        TestUpTo::CheckOneOne,
        None,
        Some(env.c_tx_env()),
    )
    .unwrap_or_else(|e| panic!("libsimplicity rejects the serialised pruned program: {e:?}"));
    assert_eq!(
        parse_root(&c_res.cmr.s),
        pruned.cmr().to_byte_array(),
        "libsimplicity computes a different CMR"
    );
    assert_eq!(
        parse_root(&c_res.ihr.s),
        pruned.ihr().to_byte_array(),
        "libsimplicity computes a different IHR"
    );

    // The serialisation is also accepted by the Rust decoder and is the same program.
    let decoded = RedeemNode::decode::<_, _, Elements>(
        BitIter::from(&prog_bytes[..]),
        BitIter::from(&wit_bytes[..]),
    )
    .unwrap_or_else(|e| panic!("serialised pruned program does not decode: {e}"));
    assert_eq!(decoded.ihr(), pruned.ihr(), "round trip changed the program");

    // Pruning again changes nothing.
    let again = pruned.prune(&env).expect("pruning a pruned program succeeds");
    assert_eq!(again.ihr(), pruned.ihr(), "second pruning changed the IHR");
    assert_eq!(
        again.to_vec_with_witness(),
        (prog_bytes, wit_bytes),
        "second pruning changed the serialisation"
    );
}

#[test]
fn scratch_dead_code_shares_polymorphic_node() {
    // s := iden (shared)
    // live: comp (comp w s) unit  -- w's type is only constrained through s
    // dead: right branch of a case never taken: comp (take s)... uses s at 2^64
    let unpruned = types::Context::with_context(|ctx| {
        let s = N::iden(&ctx);
        let sel = N::witness(&ctx, Some(Value::u1(0)));
        let w = N::witness(&ctx, Some(Value::u64(7)));
        let unit = N::unit(&ctx);
        // live_use : 1 -> 1
        let live_use = N::comp(&N::comp(&w, &s).unwrap(), &unit).unwrap();
        // dead branch: 1 * 2^64 -> 1 : drop (comp s (comp is_zero_64 verify))
        let dead = N::drop_(&N::comp(&s, &N::comp(&N::jet(&ctx, &Elements::IsZero64), &N::jet(&ctx, &Elements::Verify)).unwrap()).unwrap());
        let livebr = N::take(&N::unit(&ctx));
        let cs = N::case(&livebr, &dead).unwrap();
        // input to case: pair sel (word 0 : 2^64)
        let c = N::const_word(&ctx, simplicity::Word::u64(0));
        let run = N::comp(&N::pair(&sel, &c).unwrap(), &cs).unwrap();
        let main = N::comp(&live_use, &run).unwrap();
        main.finalize_unpruned().expect("finalize")
    });
    let env = dummy_env();
    let p1 = unpruned.prune(&env).unwrap();
    let p2 = p1.prune(&env).unwrap();
    for (name, p) in [("unpruned", &unpruned), ("p1", &p1), ("p2", &p2)] {
        println!("== {name}");
        for item in p.as_ref().post_order_iter::<MaxSharing<Redeem>>() {
            println!("{} : {}", item.node.inner(), item.node.arrow());
        }
    }
    check_c08(&unpruned);
}
