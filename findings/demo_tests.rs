use simplicity::types::Final;
use simplicity::{BitIter, Value};
use std::collections::hash_map::DefaultHasher;
use std::hash::{Hash, Hasher};
fn h(v: &Value) -> u64 { let mut s = DefaultHasher::new(); v.hash(&mut s); s.finish() }
#[test]
fn eq_subvalue() {
    let p = Value::product(Value::u1(1), Value::u1(1));
    let l = p.as_ref().as_product().unwrap().0.to_value();
    assert_eq!(l, Value::u1(1));
    assert_eq!(h(&l), h(&Value::u1(1)));
    assert_eq!(l.cmp(&Value::u1(1)), std::cmp::Ordering::Equal);
}
#[test]
fn eq_dirty_padding() {
    let ty = Final::sum(Final::unit(), Final::two_two_n(3).unwrap());
    let bytes = [0x7fu8, 0x80];
    let mut it = BitIter::from(bytes.iter().copied());
    let v = Value::from_padded_bits(&mut it, &ty).unwrap();
    let w = Value::left(Value::unit(), Final::two_two_n(3).unwrap());
    assert_eq!(v, w);
    assert_eq!(h(&v), h(&w));
}

use simplicity::human_encoding::Forest;
use simplicity::jet::Core;
use simplicity::node::{CoreConstructible, WitnessConstructible, DisconnectConstructible};
use simplicity::{types, ConstructNode, CommitNode};
use std::sync::Arc;

fn roundtrip(src: &str) {
    let f = Forest::parse::<Core>(src).expect("parse 1");
    let text = f.string_serialize();
    let g = Forest::parse::<Core>(&text).unwrap_or_else(|e| panic!("reparse of\n{}\nfailed: {}", text, e));
    assert_eq!(f.roots()["main"].cmr(), g.roots()["main"].cmr());
}
#[test]
fn type_opt() { roundtrip("main := comp (injr const 0x00) unit"); }
#[test]
fn type_big() {
    let w = "00".repeat(128);
    roundtrip(&format!("main := comp (const 0x{}) unit", w));
}
#[test]
fn hole_name() {
    let commit = types::Context::with_context(|ctx| {
        let u0 = Arc::<ConstructNode>::unit(&ctx);
        let l = Arc::<ConstructNode>::pair(&u0, &u0).unwrap();
        let d = Arc::<ConstructNode>::disconnect(&l, &None).unwrap();
        let u = Arc::<ConstructNode>::unit(&ctx);
        let prog = Arc::<ConstructNode>::comp(&d, &u).unwrap();
        prog.finalize_types().unwrap()
    });
    let _: &Arc<CommitNode> = &commit;
    let text = Forest::from_program(commit).string_serialize();
    Forest::parse::<Core>(&text).unwrap_or_else(|e| panic!("reparse of\n{}\nfailed: {}", text, e));
}
#[test]
fn witness_typed() {
    let r = types::Context::with_context(|ctx| {
        let w = Arc::<ConstructNode>::witness(&ctx, Some(Value::u16(0x1234)));
        let j = Arc::<ConstructNode>::jet(&ctx, &Core::Complement8);
        let c = Arc::<ConstructNode>::comp(&w, &j).unwrap();
        let u = Arc::<ConstructNode>::unit(&ctx);
        let prog = Arc::<ConstructNode>::comp(&c, &u).unwrap();
        prog.finalize_unpruned()
    });
    assert!(r.is_err(), "ill-typed witness accepted");
}
#[test]
fn policy_sort() {
    use simplicity::policy::Policy;
    type P = Policy<simplicity::bitcoin::key::XOnlyPublicKey>;
    let or = |a: P, b: P| P::Or { left: Arc::new(a), right: Arc::new(b) };
    let and = |a: P, b: P| P::And { left: Arc::new(a), right: Arc::new(b) };
    let p1 = and(or(P::After(1), P::After(2)), P::Older(3)).sorted();
    let p2 = and(or(P::After(2), P::After(1)), P::Older(3)).sorted();
    assert_eq!(p1, p2);
}

// ---- C17 fixes 0bd95cd, 15d0b8c, 18edc43, 5cafaea (fail with the parent of each commit) ----
#[test] fn c17_assertl() { roundtrip("main := comp (pair (injl unit) unit) (assertl unit #{unit})"); }
#[test] fn c17_assertr() { roundtrip("main := comp (pair (injr unit) unit) (assertr #{unit} unit)"); }
#[test] fn c17_fail() { roundtrip("main := comp (pair (injl unit) unit) (case unit (fail 0x01020304050607080910111213141516))"); }
#[test] fn c17_repeated_inline() { roundtrip("main := comp (pair (injl unit) unit) (case unit unit)"); }
#[test] fn c17_collision() { roundtrip("ut1 := iden\nmain := comp (pair ut1 unit) unit"); }
