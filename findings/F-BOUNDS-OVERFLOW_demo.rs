//! Clean-tree defect: NodeBounds::comp / NodeBounds::disconnect add cell counts with a plain `+`.
//! Type widths saturate at usize::MAX (Final::product uses saturating_add), so a ~60-byte program whose
//! intermediate type has 2^64 bits makes the bound computation overflow: a panic in debug builds and a wrapped
//! (far too small) bound in release builds.
use std::panic::{catch_unwind, AssertUnwindSafe};
use std::sync::Arc;


use simplicity::node::CoreConstructible as _;
use simplicity::types;
use simplicity::{ConstructNode, Word};

type Node<'brand> = Arc<ConstructNode<'brand>>;

fn build_and_finalize(doublings: usize) -> Result<usize, String> {
    types::Context::with_context(|ctx| {
        let mut p = Node::const_word(&ctx, Word::u1(0));
        for _ in 0..doublings {
            p = Node::pair(&p, &p).unwrap();
        }
        let right = Node::comp(&Node::iden(&ctx), &Node::unit(&ctx)).unwrap();
        let main = Node::comp(&p, &right).unwrap();
        let res = catch_unwind(AssertUnwindSafe(|| main.finalize_unpruned().map(|prog| prog.bounds().extra_cells)));
        match res {
            Ok(Ok(cells)) => Ok(cells),
            Ok(Err(e)) => Err(format!("error: {}", e)),
            Err(p) => Err(format!(
                "PANIC: {}",
                p.downcast_ref::<&str>().map(|s| s.to_string()).or_else(|| p.downcast_ref::<String>().cloned()).unwrap_or_default()
            )),
        }
    })
}

#[test]
fn small_types_have_exact_bounds() {
    // 2^10-bit intermediate type: comp needs mid + max(children) cells
    assert_eq!(build_and_finalize(10), Ok(2 * 1024));
}

#[test]
fn huge_types_saturate_instead_of_overflowing() {
    for k in [63usize, 64, 65, 100] {
        let r = build_and_finalize(k);
        assert!(r.is_ok(), "{} doublings: {:?}", k, r);
        // a bound that wrapped around would be small; a saturated one is huge
        assert!(r.unwrap() >= usize::MAX / 2, "{} doublings: bound wrapped around", k);
    }
}
